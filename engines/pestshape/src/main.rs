//! pestshape — E2 of /verif: dump the pest grammar of gsd-parser as JSON (rule kinds + expression trees)
//! using pest's own meta parser, so that the python side can derive, for every rule, the regular
//! language of child-pair sequences it can produce.
use pest_meta::ast::{Expr, RuleType};

fn esc(s: &str) -> String {
    let mut o = String::from("\"");
    for c in s.chars() {
        match c {
            '"' => o.push_str("\\\""),
            '\\' => o.push_str("\\\\"),
            '\n' => o.push_str("\\n"),
            '\r' => o.push_str("\\r"),
            '\t' => o.push_str("\\t"),
            c if (c as u32) < 0x20 => o.push_str(&format!("\\u{:04x}", c as u32)),
            c => o.push(c),
        }
    }
    o.push('"');
    o
}

fn expr(e: &Expr) -> String {
    match e {
        Expr::Str(s) => format!("{{\"k\":\"str\",\"v\":{}}}", esc(s)),
        Expr::Insens(s) => format!("{{\"k\":\"insens\",\"v\":{}}}", esc(s)),
        Expr::Range(a, b) => format!("{{\"k\":\"range\",\"a\":{},\"b\":{}}}", esc(a), esc(b)),
        Expr::Ident(i) => format!("{{\"k\":\"ident\",\"v\":{}}}", esc(i)),
        Expr::PeekSlice(_, _) => "{\"k\":\"peek\"}".to_string(),
        Expr::PosPred(x) => format!("{{\"k\":\"pos\",\"e\":{}}}", expr(x)),
        Expr::NegPred(x) => format!("{{\"k\":\"neg\",\"e\":{}}}", expr(x)),
        Expr::Seq(a, b) => format!("{{\"k\":\"seq\",\"a\":{},\"b\":{}}}", expr(a), expr(b)),
        Expr::Choice(a, b) => format!("{{\"k\":\"choice\",\"a\":{},\"b\":{}}}", expr(a), expr(b)),
        Expr::Opt(x) => format!("{{\"k\":\"opt\",\"e\":{}}}", expr(x)),
        Expr::Rep(x) => format!("{{\"k\":\"rep\",\"e\":{}}}", expr(x)),
        Expr::RepOnce(x) => format!("{{\"k\":\"rep1\",\"e\":{}}}", expr(x)),
        Expr::RepExact(x, n) => format!("{{\"k\":\"repn\",\"e\":{},\"min\":{},\"max\":{}}}", expr(x), n, n),
        Expr::RepMin(x, n) => format!("{{\"k\":\"repn\",\"e\":{},\"min\":{},\"max\":null}}", expr(x), n),
        Expr::RepMax(x, n) => format!("{{\"k\":\"repn\",\"e\":{},\"min\":0,\"max\":{}}}", expr(x), n),
        Expr::RepMinMax(x, a, b) => format!("{{\"k\":\"repn\",\"e\":{},\"min\":{},\"max\":{}}}", expr(x), a, b),
        Expr::Skip(_) => "{\"k\":\"skip\"}".to_string(),
        Expr::Push(x) => format!("{{\"k\":\"push\",\"e\":{}}}", expr(x)),
        #[allow(unreachable_patterns)]
        _ => "{\"k\":\"other\"}".to_string(),
    }
}

fn main() {
    let path = std::env::args().nth(1).expect("usage: pestshape <grammar.pest>");
    let src = std::fs::read_to_string(&path).expect("read grammar");
    let pairs = pest_meta::parser::parse(pest_meta::parser::Rule::grammar_rules, &src).expect("grammar does not parse");
    let rules = pest_meta::parser::consume_rules(pairs).expect("grammar invalid");
    let mut out = String::from("{\"rules\":[");
    for (i, r) in rules.iter().enumerate() {
        if i > 0 {
            out.push(',');
        }
        let ty = match r.ty {
            RuleType::Normal => "normal",
            RuleType::Silent => "silent",
            RuleType::Atomic => "atomic",
            RuleType::CompoundAtomic => "compound_atomic",
            RuleType::NonAtomic => "non_atomic",
        };
        out.push_str(&format!("{{\"name\":{},\"ty\":\"{}\",\"expr\":{}}}", esc(&r.name), ty, expr(&r.expr)));
    }
    out.push_str("]}");
    println!("{}", out);
}
