//! mirfacts — E1 of /verif: a rustc_private driver that dumps, for every local
//! function-like body of the crate being compiled, a resolved MIR fact file
//! (JSON) used by the python analyses in /verif/analysis.
//!
//! Used as RUSTC_WORKSPACE_WRAPPER (argv[1] = real rustc, dropped).  Facts are
//! only written for crates named in MIRFACTS_CRATES (comma separated) into
//! MIRFACTS_OUT/<crate>.json, one write per process.
#![feature(rustc_private)]

extern crate rustc_abi;
extern crate rustc_const_eval;
extern crate rustc_data_structures;
extern crate rustc_driver;
extern crate rustc_hir;
extern crate rustc_interface;
extern crate rustc_middle;
extern crate rustc_span;

use rustc_hir::def::DefKind;
use rustc_hir::def_id::{DefId, LocalDefId};
use rustc_middle::mir::{self, *};
use rustc_middle::ty::print::with_no_trimmed_paths;
use rustc_middle::ty::{self, Instance, Ty, TyCtxt, TypingEnv};
use std::fmt::Write as _;

mod json;
use json::J;

struct Cb;

impl rustc_driver::Callbacks for Cb {
    fn after_analysis<'tcx>(
        &mut self,
        _c: &rustc_interface::interface::Compiler,
        tcx: TyCtxt<'tcx>,
    ) -> rustc_driver::Compilation {
        let krate = tcx.crate_name(rustc_hir::def_id::LOCAL_CRATE).to_string();
        let wanted = std::env::var("MIRFACTS_CRATES").unwrap_or_default();
        if !wanted.split(',').any(|w| w == krate) {
            return rustc_driver::Compilation::Continue;
        }
        let out = std::env::var("MIRFACTS_OUT").expect("MIRFACTS_OUT");
        let j = dump_crate(tcx, &krate);
        let mut s = String::new();
        j.write(&mut s);
        let path = format!("{}/{}.json", out, krate);
        std::fs::write(&path, s).expect("write facts");
        rustc_driver::Compilation::Continue
    }
}

fn main() {
    let mut args: Vec<String> = std::env::args().collect();
    // RUSTC_WORKSPACE_WRAPPER: argv[1] is the path of the real rustc
    if args.len() > 1 && (args[1].ends_with("rustc") || args[1].contains("/rustc")) {
        args.remove(1);
    }
    let mut cb = Cb;
    rustc_driver::run_compiler(&args, &mut cb);
}

fn path(tcx: TyCtxt<'_>, did: DefId) -> String {
    with_no_trimmed_paths!(tcx.def_path_str(did))
}

fn tystr(ty: Ty<'_>) -> String {
    with_no_trimmed_paths!(ty.to_string())
}

fn span_info(tcx: TyCtxt<'_>, sp: rustc_span::Span) -> (String, usize, Vec<String>) {
    let sm = tcx.sess.source_map();
    let root = sp.source_callsite();
    let loc = sm.lookup_char_pos(root.lo());
    let file = match &loc.file.name {
        rustc_span::FileName::Real(r) => r
            .local_path()
            .map(|p| p.to_string_lossy().to_string())
            .unwrap_or_else(|| format!("{:?}", r)),
        o => format!("{:?}", o),
    };
    let mut macros = Vec::new();
    if sp.from_expansion() {
        for e in sp.macro_backtrace() {
            if let rustc_span::ExpnKind::Macro(_, name) = e.kind {
                macros.push(name.to_string());
            } else if let rustc_span::ExpnKind::Desugaring(d) = e.kind {
                macros.push(format!("desugar:{:?}", d));
            }
        }
    }
    (file, loc.line, macros)
}

struct Cx<'tcx> {
    tcx: TyCtxt<'tcx>,
    owner: DefId,
    body: &'tcx Body<'tcx>,
    tenv: TypingEnv<'tcx>,
}

fn dump_crate<'tcx>(tcx: TyCtxt<'tcx>, krate: &str) -> J {
    let mut fns = Vec::new();
    let mut keys: Vec<LocalDefId> = tcx.mir_keys(()).iter().copied().collect();
    keys.sort_by_key(|k| path(tcx, k.to_def_id()));
    for ldid in keys {
        let did = ldid.to_def_id();
        let kind = tcx.def_kind(did);
        let is_fn = matches!(kind, DefKind::Fn | DefKind::AssocFn | DefKind::Closure);
        let is_const = matches!(
            kind,
            DefKind::Const { .. } | DefKind::AssocConst { .. } | DefKind::Static { .. } | DefKind::AnonConst | DefKind::InlineConst
        );
        if !is_fn && !is_const {
            continue;
        }
        if is_fn {
            if tcx.is_constructor(did) {
                continue;
            }
            let body = tcx.optimized_mir(did);
            fns.push((path(tcx, did), dump_body(tcx, did, body, fn_kind(kind), None)));
        }
        // promoted constants of this item
        if is_fn {
            let proms = tcx.promoted_mir(did);
            for (i, pb) in proms.iter_enumerated() {
                let name = format!("{}#promoted[{}]", path(tcx, did), i.index());
                fns.push((name, dump_body(tcx, did, pb, "promoted", Some(i.index()))));
            }
        }
    }
    let mut adts = Vec::new();
    for id in tcx.hir_crate_items(()).definitions() {
        let did = id.to_def_id();
        let kind = tcx.def_kind(did);
        if matches!(kind, DefKind::Struct | DefKind::Enum | DefKind::Union) {
            adts.push((path(tcx, did), dump_adt(tcx, did)));
        }
    }
    // trait impls
    let mut impls = Vec::new();
    for (trait_did, impl_ids) in tcx.all_local_trait_impls(()).iter() {
        for ildid in impl_ids {
            let idid = ildid.to_def_id();
            let self_ty = tcx.type_of(idid).instantiate_identity().skip_norm_wip();
            let mut methods = Vec::new();
            let map = tcx.impl_item_implementor_ids(idid);
            let mut items: Vec<(String, String)> = map
                .items()
                .map(|(t, i)| (path(tcx, *t), path(tcx, *i)))
                .into_sorted_stable_ord();
            items.sort();
            for (t, i) in items {
                methods.push((t, J::Str(i)));
            }
            impls.push(J::obj(vec![
                ("trait", J::Str(path(tcx, *trait_did))),
                ("self_ty", J::Str(tystr(self_ty))),
                ("impl", J::Str(path(tcx, idid))),
                ("methods", J::Obj(methods)),
            ]));
        }
    }
    // trait definitions with provided methods (for default-method edges)
    let mut traits = Vec::new();
    for id in tcx.hir_crate_items(()).definitions() {
        let did = id.to_def_id();
        if tcx.def_kind(did) == DefKind::Trait {
            let mut items = Vec::new();
            for it in tcx.associated_items(did).in_definition_order() {
                if matches!(it.kind, ty::AssocKind::Fn { .. }) {
                    items.push(J::obj(vec![
                        ("name", J::Str(path(tcx, it.def_id))),
                        ("provided", J::Bool(it.defaultness(tcx).has_value())),
                    ]));
                }
            }
            traits.push((path(tcx, did), J::Arr(items)));
        }
    }
    J::obj(vec![
        ("crate", J::Str(krate.to_string())),
        ("fns", J::Obj(fns)),
        ("adts", J::Obj(adts)),
        ("impls", J::Arr(impls)),
        ("traits", J::Obj(traits)),
    ])
}

fn fn_kind(k: DefKind) -> &'static str {
    match k {
        DefKind::Fn => "fn",
        DefKind::AssocFn => "assoc",
        DefKind::Closure => "closure",
        _ => "other",
    }
}

fn vis_str(tcx: TyCtxt<'_>, did: DefId) -> String {
    match tcx.visibility(did) {
        ty::Visibility::Public => "pub".to_string(),
        ty::Visibility::Restricted(m) => {
            if m.is_crate_root() {
                "crate".to_string()
            } else {
                format!("in:{}", path(tcx, m))
            }
        }
    }
}

fn dump_adt(tcx: TyCtxt<'_>, did: DefId) -> J {
    let adt = tcx.adt_def(did);
    let mut variants = Vec::new();
    let is_enum = adt.is_enum();
    for (vidx, v) in adt.variants().iter_enumerated() {
        let discr = if is_enum {
            let d = adt.discriminant_for_variant(tcx, vidx);
            J::Str(format!("{}", d.val))
        } else {
            J::Null
        };
        let mut fields = Vec::new();
        for f in v.fields.iter() {
            let fty = tcx.type_of(f.did).instantiate_identity().skip_norm_wip();
            fields.push(J::obj(vec![
                ("name", J::Str(f.name.to_string())),
                ("ty", J::Str(tystr(fty))),
                ("vis", J::Str(vis_str(tcx, f.did))),
            ]));
        }
        variants.push(J::obj(vec![
            ("name", J::Str(v.name.to_string())),
            ("discr", discr),
            ("fields", J::Arr(fields)),
        ]));
    }
    J::obj(vec![
        ("kind", J::Str(if is_enum { "enum" } else if adt.is_union() { "union" } else { "struct" }.to_string())),
        ("vis", J::Str(vis_str(tcx, did))),
        ("variants", J::Arr(variants)),
    ])
}

fn dump_body<'tcx>(
    tcx: TyCtxt<'tcx>,
    did: DefId,
    body: &'tcx Body<'tcx>,
    kind: &str,
    promoted: Option<usize>,
) -> J {
    let cx = Cx { tcx, owner: did, body, tenv: TypingEnv::post_analysis(tcx, did) };
    let (file, line, _) = span_info(tcx, tcx.def_span(did));
    let defkind = tcx.def_kind(did);
    let vis = if matches!(defkind, DefKind::Fn | DefKind::AssocFn) {
        vis_str(tcx, did)
    } else {
        "priv".to_string()
    };
    // parent / impl info
    let parent = tcx.opt_parent(did);
    let mut trait_impl = J::Null;
    let mut self_ty = J::Null;
    let mut impl_of = J::Null;
    let mut module = String::new();
    {
        // walk up to enclosing module
        let mut cur = did;
        while let Some(p) = tcx.opt_parent(cur) {
            if tcx.def_kind(p) == DefKind::Mod {
                module = path(tcx, p);
                break;
            }
            cur = p;
        }
        // for closures, find the enclosing fn-like item
        let mut item = did;
        while matches!(tcx.def_kind(item), DefKind::Closure | DefKind::InlineConst | DefKind::AnonConst) {
            item = tcx.parent(item);
        }
        if let Some(p) = tcx.opt_parent(item) {
            if let DefKind::Impl { of_trait } = tcx.def_kind(p) {
                impl_of = J::Str(path(tcx, p));
                self_ty = J::Str(tystr(tcx.type_of(p).instantiate_identity().skip_norm_wip()));
                if of_trait {
                    let tr = tcx.impl_trait_ref(p).instantiate_identity().skip_norm_wip();
                    trait_impl = J::Str(path(tcx, tr.def_id));
                }
            } else if tcx.def_kind(p) == DefKind::Trait {
                trait_impl = J::Str(format!("default:{}", path(tcx, p)));
            }
        }
    }
    let derived = tcx.is_automatically_derived(did)
        || parent.map(|p| tcx.is_automatically_derived(p)).unwrap_or(false);

    // local names from debuginfo
    let mut names: Vec<Option<String>> = vec![None; body.local_decls.len()];
    let mut upvar_names: Vec<(usize, String)> = Vec::new();
    for vdi in body.var_debug_info.iter() {
        if let VarDebugInfoContents::Place(p) = &vdi.value {
            if p.projection.is_empty() {
                names[p.local.index()] = Some(vdi.name.to_string());
            } else if p.local.index() == 1 {
                // closure upvar: (*_1).k or _1.k
                for e in p.projection.iter() {
                    if let ProjectionElem::Field(f, _) = e {
                        upvar_names.push((f.index(), vdi.name.to_string()));
                        break;
                    }
                }
            }
        }
    }
    let mut locals = Vec::new();
    for (l, d) in body.local_decls.iter_enumerated() {
        let mut o = vec![("ty", J::Str(tystr(d.ty)))];
        if let Some(n) = &names[l.index()] {
            o.push(("name", J::Str(n.clone())));
        }
        if d.mutability == Mutability::Mut {
            o.push(("mut", J::Bool(true)));
        }
        locals.push(J::obj(o));
    }
    let mut blocks = Vec::new();
    for (_bb, data) in body.basic_blocks.iter_enumerated() {
        let mut stmts = Vec::new();
        for st in data.statements.iter() {
            if let Some(j) = cx.stmt(st) {
                stmts.push(j);
            }
        }
        let term = cx.term(data.terminator(), data);
        let mut o = vec![("s", J::Arr(stmts)), ("t", term)];
        if data.is_cleanup {
            o.push(("cleanup", J::Bool(true)));
        }
        blocks.push(J::obj(o));
    }
    let generics: Vec<J> = tcx
        .generics_of(did)
        .own_params
        .iter()
        .map(|p| J::Str(p.name.to_string()))
        .collect();
    let mut o = vec![
        ("kind", J::Str(kind.to_string())),
        ("module", J::Str(module)),
        ("file", J::Str(file)),
        ("line", J::Int(line as i128)),
        ("vis", J::Str(vis)),
        ("parent", parent.map(|p| J::Str(path(tcx, p))).unwrap_or(J::Null)),
        ("impl", impl_of),
        ("trait_impl", trait_impl),
        ("self_ty", self_ty),
        ("derived", J::Bool(derived)),
        ("generics", J::Arr(generics)),
        ("argc", J::Int(body.arg_count as i128)),
        ("locals", J::Arr(locals)),
        ("blocks", J::Arr(blocks)),
    ];
    if !upvar_names.is_empty() {
        upvar_names.sort();
        upvar_names.dedup();
        o.push((
            "upvars",
            J::Arr(upvar_names.into_iter().map(|(i, n)| J::Arr(vec![J::Int(i as i128), J::Str(n)])).collect()),
        ));
    }
    if let Some(p) = promoted {
        o.push(("promoted_idx", J::Int(p as i128)));
    }
    J::obj(o)
}

impl<'tcx> Cx<'tcx> {
    fn place(&self, p: &Place<'tcx>) -> J {
        let mut proj = Vec::new();
        let mut pty = mir::PlaceTy::from_ty(self.body.local_decls[p.local].ty);
        for elem in p.projection.iter() {
            let j = match elem {
                ProjectionElem::Deref => J::Str("deref".into()),
                ProjectionElem::Field(f, fty) => {
                    let mut name = format!("{}", f.index());
                    match pty.ty.kind() {
                        ty::Adt(adt, _) => {
                            let vidx = pty.variant_index.unwrap_or(rustc_abi::FIRST_VARIANT);
                            let v = adt.variant(vidx);
                            name = v.fields[f].name.to_string();
                        }
                        _ => {}
                    }
                    J::obj(vec![
                        ("f", J::Str(name)),
                        ("i", J::Int(f.index() as i128)),
                        ("ty", J::Str(tystr(fty))),
                    ])
                }
                ProjectionElem::Index(l) => J::obj(vec![("idx", J::Int(l.index() as i128))]),
                ProjectionElem::ConstantIndex { offset, min_length, from_end } => J::obj(vec![
                    ("cidx", J::Int(offset as i128)),
                    ("min_len", J::Int(min_length as i128)),
                    ("from_end", J::Bool(from_end)),
                ]),
                ProjectionElem::Subslice { from, to, from_end } => J::obj(vec![
                    ("sub", J::Arr(vec![J::Int(from as i128), J::Int(to as i128)])),
                    ("from_end", J::Bool(from_end)),
                ]),
                ProjectionElem::Downcast(_, vidx) => {
                    let name = match pty.ty.kind() {
                        ty::Adt(adt, _) => adt.variant(vidx).name.to_string(),
                        _ => format!("{}", vidx.index()),
                    };
                    J::obj(vec![("dc", J::Str(name))])
                }
                ProjectionElem::OpaqueCast(_) => J::Str("opaque_cast".into()),
                ProjectionElem::UnwrapUnsafeBinder(_) => J::Str("unwrap_binder".into()),
            };
            proj.push(j);
            pty = pty.projection_ty(self.tcx, elem);
        }
        let mut o = vec![("l", J::Int(p.local.index() as i128))];
        if !proj.is_empty() {
            o.push(("p", J::Arr(proj)));
        }
        J::obj(o)
    }

    fn place_ty(&self, p: &Place<'tcx>) -> Ty<'tcx> {
        p.ty(&self.body.local_decls, self.tcx).ty
    }

    fn const_value(&self, val: mir::ConstValue, ty: Ty<'tcx>, depth: usize) -> J {
        let tcx = self.tcx;
        match ty.kind() {
            ty::Bool | ty::Int(_) | ty::Uint(_) | ty::Char => {
                if let Some(si) = val.try_to_scalar_int() {
                    let size = si.size();
                    let bits = si.to_bits(size);
                    let v: i128 = if let ty::Int(_) = ty.kind() {
                        si.to_int(size)
                    } else {
                        bits as i128
                    };
                    if let ty::Bool = ty.kind() {
                        return J::obj(vec![("bool", J::Bool(bits != 0))]);
                    }
                    return J::obj(vec![("int", J::Int(v)), ("ty", J::Str(tystr(ty)))]);
                }
            }
            ty::Ref(_, inner, _) if inner.is_str() => {
                if let Some(bytes) = val.try_get_slice_bytes_for_diagnostics(tcx) {
                    return J::obj(vec![("str", J::Str(String::from_utf8_lossy(bytes).to_string()))]);
                }
            }
            ty::FnDef(did, args) => {
                return J::obj(vec![
                    ("fn", J::Str(path(tcx, *did))),
                    ("substs", J::Arr(args.iter().map(|a| J::Str(with_no_trimmed_paths!(a.to_string()))).collect())),
                ]);
            }
            ty::Adt(..) | ty::Tuple(..) | ty::Array(..) if depth < 4 => {
                if let Some(d) = tcx.try_destructure_mir_constant_for_user_output(val, ty) {
                    let mut fields = Vec::new();
                    for (fv, fty) in d.fields.iter() {
                        fields.push(self.const_value(*fv, *fty, depth + 1));
                    }
                    let mut o = vec![("agg", J::Str(tystr(ty)))];
                    if let ty::Adt(adt, _) = ty.kind() {
                        o.push(("adt", J::Str(path(tcx, adt.did()))));
                        if let Some(v) = d.variant {
                            o.push(("variant", J::Str(adt.variant(v).name.to_string())));
                        }
                    }
                    o.push(("fields", J::Arr(fields)));
                    return J::obj(o);
                }
            }
            _ => {}
        }
        if let mir::ConstValue::ZeroSized = val {
            return J::obj(vec![("zst", J::Str(tystr(ty)))]);
        }
        J::obj(vec![("opaque", J::Str(tystr(ty)))])
    }

    fn constant(&self, c: &ConstOperand<'tcx>) -> J {
        let tcx = self.tcx;
        let ty = c.const_.ty();
        if let ty::FnDef(did, args) = ty.kind() {
            return J::obj(vec![
                ("fn", J::Str(path(tcx, *did))),
                ("substs", J::Arr(args.iter().map(|a| J::Str(with_no_trimmed_paths!(a.to_string()))).collect())),
            ]);
        }
        let mut extra: Vec<(&'static str, J)> = Vec::new();
        if let mir::Const::Unevaluated(u, _) = c.const_ {
            if let Some(p) = u.promoted {
                extra.push(("promoted", J::Str(format!("{}#promoted[{}]", path(tcx, u.def), p.index()))));
            } else {
                extra.push(("const_item", J::Str(path(tcx, u.def))));
            }
        }
        let mut j = match c.const_.eval(tcx, self.tenv, c.span) {
            Ok(v) => self.const_value(v, ty, 0),
            Err(_) => J::obj(vec![("opaque", J::Str(tystr(ty)))]),
        };
        if let J::Obj(ref mut o) = j {
            for (k, v) in extra {
                o.push((k.to_string(), v));
            }
        }
        j
    }

    fn operand(&self, o: &Operand<'tcx>) -> J {
        match o {
            Operand::Copy(p) => J::obj(vec![("cp", self.place(p))]),
            Operand::Move(p) => J::obj(vec![("mv", self.place(p))]),
            Operand::Constant(c) => J::obj(vec![("k", self.constant(c))]),
            #[allow(unreachable_patterns)]
            _ => J::obj(vec![("k", J::obj(vec![("opaque", J::Str("runtime-checks".into()))]))]),
        }
    }

    fn discr_info(&self, p: &Place<'tcx>) -> Vec<(&'static str, J)> {
        let ty = self.place_ty(p);
        let mut o = Vec::new();
        if let ty::Adt(adt, _) = ty.kind() {
            o.push(("adt", J::Str(path(self.tcx, adt.did()))));
            if adt.is_enum() {
                let mut m = Vec::new();
                for (vidx, d) in adt.discriminants(self.tcx) {
                    m.push((format!("{}", d.val), J::Str(adt.variant(vidx).name.to_string())));
                }
                o.push(("variants", J::Obj(m)));
            }
        }
        o
    }

    fn rvalue(&self, rv: &Rvalue<'tcx>) -> J {
        match rv {
            Rvalue::Use(o, ..) => J::obj(vec![("use", self.operand(o))]),
            Rvalue::Repeat(o, n) => J::obj(vec![
                ("repeat", self.operand(o)),
                ("n", J::Str(with_no_trimmed_paths!(n.to_string()))),
            ]),
            Rvalue::Ref(_, bk, p) => J::obj(vec![
                ("ref", self.place(p)),
                ("mut", J::Bool(matches!(bk, BorrowKind::Mut { .. }))),
            ]),
            Rvalue::RawPtr(k, p) => J::obj(vec![
                ("rawptr", self.place(p)),
                ("mut", J::Bool(matches!(k, RawPtrKind::Mut))),
            ]),
            Rvalue::Cast(k, o, ty) => {
                let kind = match k {
                    CastKind::PointerCoercion(pc, _) => format!("Ptr:{:?}", pc),
                    other => format!("{:?}", other),
                };
                J::obj(vec![
                    ("cast", J::Str(kind)),
                    ("a", self.operand(o)),
                    ("ty", J::Str(tystr(*ty))),
                    ("from", J::Str(tystr(o.ty(&self.body.local_decls, self.tcx)))),
                ])
            }
            Rvalue::BinaryOp(op, ab) => J::obj(vec![
                ("bin", J::Str(format!("{:?}", op))),
                ("a", self.operand(&ab.0)),
                ("b", self.operand(&ab.1)),
                ("ty", J::Str(tystr(ab.0.ty(&self.body.local_decls, self.tcx)))),
            ]),
            Rvalue::UnaryOp(op, a) => J::obj(vec![
                ("un", J::Str(format!("{:?}", op))),
                ("a", self.operand(a)),
                ("ty", J::Str(tystr(a.ty(&self.body.local_decls, self.tcx)))),
            ]),
            Rvalue::Discriminant(p) => {
                let mut o = vec![("discr", self.place(p))];
                o.extend(self.discr_info(p));
                J::obj(o)
            }
            Rvalue::Aggregate(kind, fields) => {
                let fs: Vec<J> = fields.iter().map(|f| self.operand(f)).collect();
                let mut o: Vec<(&'static str, J)> = Vec::new();
                match &**kind {
                    AggregateKind::Array(t) => {
                        o.push(("agg", J::Str("array".into())));
                        o.push(("ty", J::Str(tystr(*t))));
                    }
                    AggregateKind::Tuple => o.push(("agg", J::Str("tuple".into()))),
                    AggregateKind::Adt(did, vidx, _, _, active) => {
                        let adt = self.tcx.adt_def(*did);
                        let v = adt.variant(*vidx);
                        o.push(("agg", J::Str("adt".into())));
                        o.push(("adt", J::Str(path(self.tcx, *did))));
                        o.push(("variant", J::Str(v.name.to_string())));
                        let names: Vec<J> = if let Some(a) = active {
                            vec![J::Str(v.fields[*a].name.to_string())]
                        } else {
                            v.fields.iter().map(|f| J::Str(f.name.to_string())).collect()
                        };
                        o.push(("fnames", J::Arr(names)));
                    }
                    AggregateKind::Closure(did, _) => {
                        o.push(("agg", J::Str("closure".into())));
                        o.push(("closure", J::Str(path(self.tcx, *did))));
                    }
                    AggregateKind::Coroutine(did, _) | AggregateKind::CoroutineClosure(did, _) => {
                        o.push(("agg", J::Str("coroutine".into())));
                        o.push(("closure", J::Str(path(self.tcx, *did))));
                    }
                    AggregateKind::RawPtr(..) => o.push(("agg", J::Str("rawptr".into()))),
                }
                o.push(("fields", J::Arr(fs)));
                J::obj(o)
            }
            Rvalue::CopyForDeref(p) => J::obj(vec![("use", J::obj(vec![("cp", self.place(p))]))]),
            Rvalue::ThreadLocalRef(d) => J::obj(vec![("other", J::Str(format!("tls:{}", path(self.tcx, *d))))]),
            Rvalue::WrapUnsafeBinder(..) => J::obj(vec![("other", J::Str("wrap_unsafe_binder".into()))]),
        }
    }

    fn stmt(&self, st: &Statement<'tcx>) -> Option<J> {
        match &st.kind {
            StatementKind::Assign(b) => {
                let (p, rv) = &**b;
                let (_, line, _) = span_info(self.tcx, st.source_info.span);
                Some(J::obj(vec![
                    ("a", self.place(p)),
                    ("rv", self.rvalue(rv)),
                    ("ln", J::Int(line as i128)),
                ]))
            }
            StatementKind::SetDiscriminant { place, variant_index } => {
                let ty = self.place_ty(place);
                let name = match ty.kind() {
                    ty::Adt(adt, _) => adt.variant(*variant_index).name.to_string(),
                    _ => format!("{}", variant_index.index()),
                };
                Some(J::obj(vec![("sd", self.place(place)), ("variant", J::Str(name))]))
            }
            StatementKind::Intrinsic(i) => Some(J::obj(vec![("intrinsic", J::Str(format!("{:?}", i)))])),
            _ => None,
        }
    }

    fn term(&self, t: &Terminator<'tcx>, data: &BasicBlockData<'tcx>) -> J {
        let tcx = self.tcx;
        let (_, line, macros) = span_info(tcx, t.source_info.span);
        let mut o: Vec<(&'static str, J)> = Vec::new();
        match &t.kind {
            TerminatorKind::Goto { target } => o.push(("goto", J::Int(target.index() as i128))),
            TerminatorKind::SwitchInt { discr, targets } => {
                o.push(("switch", self.operand(discr)));
                o.push(("sty", J::Str(tystr(discr.ty(&self.body.local_decls, tcx)))));
                let mut ts = Vec::new();
                for (v, bb) in targets.iter() {
                    ts.push(J::Arr(vec![J::Str(format!("{}", v)), J::Int(bb.index() as i128)]));
                }
                o.push(("targets", J::Arr(ts)));
                o.push(("otherwise", J::Int(targets.otherwise().index() as i128)));
                // discriminant switch: find `_x = discriminant(place)` in this block
                if let Some(pl) = discr.place() {
                    for st in data.statements.iter().rev() {
                        if let StatementKind::Assign(b) = &st.kind {
                            if b.0 == pl {
                                if let Rvalue::Discriminant(dp) = &b.1 {
                                    o.push(("discr_of", self.place(dp)));
                                    o.extend(self.discr_info(dp));
                                }
                                break;
                            }
                        }
                    }
                }
            }
            TerminatorKind::Return => o.push(("ret", J::Bool(true))),
            TerminatorKind::Unreachable => o.push(("unreachable", J::Bool(true))),
            TerminatorKind::UnwindResume => o.push(("resume", J::Bool(true))),
            TerminatorKind::UnwindTerminate(_) => o.push(("abort", J::Bool(true))),
            TerminatorKind::Drop { place, target, .. } => {
                o.push(("drop", self.place(place)));
                o.push(("dty", J::Str(tystr(self.place_ty(place)))));
                o.push(("target", J::Int(target.index() as i128)));
            }
            TerminatorKind::Assert { cond, expected, msg, target, .. } => {
                o.push(("assert", self.operand(cond)));
                o.push(("expected", J::Bool(*expected)));
                let (kind, ops): (String, Vec<J>) = match &**msg {
                    AssertKind::BoundsCheck { len, index } => {
                        ("BoundsCheck".into(), vec![self.operand(len), self.operand(index)])
                    }
                    AssertKind::Overflow(op, a, b) => {
                        (format!("Overflow({:?})", op), vec![self.operand(a), self.operand(b)])
                    }
                    AssertKind::OverflowNeg(a) => ("OverflowNeg".into(), vec![self.operand(a)]),
                    AssertKind::DivisionByZero(a) => ("DivisionByZero".into(), vec![self.operand(a)]),
                    AssertKind::RemainderByZero(a) => ("RemainderByZero".into(), vec![self.operand(a)]),
                    other => (format!("{:?}", other).split(|c: char| !c.is_alphanumeric()).next().unwrap_or("Other").to_string(), vec![]),
                };
                o.push(("kind", J::Str(kind)));
                o.push(("ops", J::Arr(ops)));
                o.push(("target", J::Int(target.index() as i128)));
            }
            TerminatorKind::Call { func, args, destination, target, .. } => {
                let mut c: Vec<(&'static str, J)> = Vec::new();
                let fty = func.ty(&self.body.local_decls, tcx);
                match fty.kind() {
                    ty::FnDef(did, substs) => {
                        c.push(("decl", J::Str(path(tcx, *did))));
                        c.push((
                            "substs",
                            J::Arr(substs.iter().map(|a| J::Str(with_no_trimmed_paths!(a.to_string()))).collect()),
                        ));
                        let mut via = "direct";
                        let mut resolved = path(tcx, *did);
                        let mut rsubsts: Option<Vec<J>> = None;
                        let is_trait_item = tcx.trait_of_assoc(*did).is_some();
                        match Instance::try_resolve(tcx, self.tenv, *did, substs) {
                            Ok(Some(inst)) => {
                                resolved = path(tcx, inst.def_id());
                                rsubsts = Some(
                                    inst.args.iter().map(|a| J::Str(with_no_trimmed_paths!(a.to_string()))).collect(),
                                );
                                via = match inst.def {
                                    ty::InstanceKind::Item(_) => {
                                        if is_trait_item {
                                            if inst.def_id() == *did { "trait_default" } else { "trait_impl" }
                                        } else {
                                            "direct"
                                        }
                                    }
                                    ty::InstanceKind::Virtual(..) => "dyn",
                                    ty::InstanceKind::ClosureOnceShim { .. } => "closure_once_shim",
                                    ty::InstanceKind::FnPtrShim(..) => "fnptr_shim",
                                    ty::InstanceKind::Intrinsic(_) => "intrinsic",
                                    ty::InstanceKind::DropGlue(..) => "drop_glue",
                                    ty::InstanceKind::CloneShim(..) => "clone_shim",
                                    ty::InstanceKind::ReifyShim(..) => "reify_shim",
                                    _ => "shim",
                                };
                            }
                            _ => {
                                if is_trait_item {
                                    via = "trait_unresolved";
                                }
                            }
                        }
                        c.push(("callee", J::Str(resolved)));
                        if let Some(rs) = rsubsts {
                            c.push(("rsubsts", J::Arr(rs)));
                        }
                        c.push(("via", J::Str(via.to_string())));
                        if let Some(tr) = tcx.trait_of_assoc(*did) {
                            c.push(("trait", J::Str(path(tcx, tr))));
                        }
                    }
                    _ => {
                        c.push(("callee", J::Null));
                        c.push(("via", J::Str("fnptr".into())));
                        c.push(("fnop", self.operand(func)));
                        c.push(("fnty", J::Str(tystr(fty))));
                    }
                }
                c.push(("args", J::Arr(args.iter().map(|a| self.operand(&a.node)).collect())));
                c.push((
                    "argtys",
                    J::Arr(args.iter().map(|a| J::Str(tystr(a.node.ty(&self.body.local_decls, tcx)))).collect()),
                ));
                c.push(("dest", self.place(destination)));
                c.push(("target", target.map(|t| J::Int(t.index() as i128)).unwrap_or(J::Null)));
                o.push(("call", J::obj(c)));
            }
            TerminatorKind::TailCall { .. } => o.push(("other", J::Str("tailcall".into()))),
            TerminatorKind::Yield { .. } => o.push(("other", J::Str("yield".into()))),
            TerminatorKind::CoroutineDrop => o.push(("other", J::Str("coroutine_drop".into()))),
            TerminatorKind::FalseEdge { real_target, .. } => o.push(("goto", J::Int(real_target.index() as i128))),
            TerminatorKind::FalseUnwind { real_target, .. } => o.push(("goto", J::Int(real_target.index() as i128))),
            TerminatorKind::InlineAsm { .. } => o.push(("other", J::Str("asm".into()))),
        }
        o.push(("ln", J::Int(line as i128)));
        if !macros.is_empty() {
            o.push(("mac", J::Arr(macros.into_iter().map(J::Str).collect())));
        }
        let _ = self.owner;
        J::obj(o)
    }
}

#[allow(dead_code)]
fn unused(s: &mut String) {
    let _ = write!(s, "");
}
