#!/bin/bash
# tools/scratch.sh <patch.diff> <dir> : persistent scratch copy of /repo with a patch applied (remove it yourself); use VERIF_REPO=<dir>/repo VERIF_EVIDENCE_DIR=<dir>/ev
set -e
rm -rf "$2"; mkdir -p "$2/ev"; rsync -a --exclude target --exclude .git /repo/ "$2/repo/"; cd "$2/repo"; patch -p1 -s < "$1"
