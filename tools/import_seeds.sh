#!/bin/bash
# tools/import_seeds.sh <dir with <ID>/seeds/<i>/> <offset> [IDs...] : copy sub-agent seeds into seeded/<ID>-<i+offset>/ and run the property's check on each
root=$1; off=$2; shift 2
cd "$(dirname "$0")/.."
ids="$@"; [ -z "$ids" ] && ids=$(ls $root | grep '^C[0-9][0-9]$')
for id in $ids; do for i in 1 2 3; do
  src=$root/$id/seeds/$i; [ -f $src/patch.diff ] || continue
  n=$((i+off)); dst=seeded/$id-$n; mkdir -p $dst
  cp $src/patch.diff $src/demo.diff $src/demo_cmd.txt $src/meta.json $dst/ 2>/dev/null
  sed -i 's/CARGO_TARGET_DIR=[^ ]* //' $dst/demo_cmd.txt
  r=$(tools/variant.sh $dst/patch.diff $id 2>&1)
  echo "$id-$n $(echo "$r" | grep -o 'exit=[0-9]*' | head -1) $(echo "$r" | grep -m1 '^  \[' | cut -c1-180)"
done; done
