#!/usr/bin/env python3
"""tools/gen_known_fns.py : freeze the function-name vocabulary of the pinned tree (all feature configurations) in rules/known_fns.json.
Run by hand after a deliberate change of /repo's function set (e.g. a fix: commit that adds a function); never run by a check."""
import json
import os
import sys

sys.path.insert(0, os.path.join(os.path.dirname(os.path.abspath(__file__)), ".."))
from analysis import facts  # noqa: E402
from analysis.normalize import norm_path, KNOWN_FILE  # noqa: E402

out = {}
for cfg in facts.CONFIGS:
    for crate in ("profirust", "gsd_parser"):
        try:
            d = facts.load(crate, cfg)
        except Exception as e:  # a configuration that does not contain the crate
            continue
        for n, fj in d["fns"].items():
            # the parameter names (with their types) are part of the vocabulary: rules say `now`, `telegram`, `sa`, `da`, `value`
            params = [[fj["locals"][i].get("name"), fj["locals"][i]["ty"]] for i in range(1, fj["argc"] + 1)] if fj.get("locals") else []
            out.setdefault(crate, {}).setdefault(norm_path(n), params)
json.dump({c: {k: v[k] for k in sorted(v)} for c, v in sorted(out.items())}, open(KNOWN_FILE, "w"), indent=0)
print({c: len(v) for c, v in out.items()})
