#!/usr/bin/env python3
"""Regenerate DESIGN.md section 11.6 (seeded changes table) .. end from seeded/RESULTS.txt and the seeds' meta.json."""
import json
import os

V = os.path.dirname(os.path.dirname(os.path.abspath(__file__)))
rows = []
nrep = nsil = nreb = 0
for l in open(V + "/seeded/RESULTS.txt"):
    p = l.rstrip("\n").split(" ", 3)
    if len(p) < 3 or not p[0].startswith("C"):
        continue
    name = p[0]
    m = json.load(open("%s/seeded/%s/meta.json" % (V, name)))
    first = (p[3] if len(p) > 3 else "").strip()
    clause = first.split("]")[0].lstrip("[ ") if first else ""
    rep = p[2] == "exit=1"
    nrep += rep
    nsil += (not rep)
    nreb += p[1] == "rebased"
    rows.append((name, (m.get("mechanism") or "")[:70].replace("|", "/"), (m.get("summary") or "")[:110].replace("|", "/"), p[1], "reported" if rep else "silent", clause))
rows.sort(key=lambda r: (r[0].split("-")[0], int(r[0].split("-")[1])))
out = ["### 11.6 Seeded changes and which check reports them\n",
       "%d changes were written by fresh sub-agents that saw only one property's text and a scratch git worktree of `/repo` (never `/verif`): round 1" % len(rows),
       "(`-1..-3`, three per claimed property, made on the pinned commit), round 2 (`-4..-6`, on the tree with the `fix:` commits, asked for *different*",
       "mechanisms), round 3 (`-7..-9`, asked to look further afield: helper modules, constants, constructors, interfering API calls, the other side of an",
       "interface, boundary values, special configurations), round 4 (`-10..-12`, ten properties whose rules had been rewritten for robustness; the agents",
       "were asked to express the breaking change idiomatically - helpers, closures, combinators, `?`, let-else, slice patterns, renamed locals) and round 5 (`-13..-14`",
       "for the 17 earlier properties plus C07-1.. for the newly claimed C07; asked for mechanisms off the main path: error/retry/time-out branches, boundary values, rarely used",
       "API functions, Debug impls, two modules that each look right alone).  Each compiles, passes the unedited",
       "suite and comes with a demonstration test that passes on HEAD and fails with the change; I re-ran all three steps for every seed with",
       "`tools/verify_seed.sh` in a scratch worktree (result line in `seeded/<id>/verified.txt`, commands in `meta.json:what_i_ran`).  None of them is committed in",
       "`/repo`.  `seeded/RESULTS.txt` / `seeded/INDEX.md` are produced by running `tools/variant.sh` over all seeds with the final rules.\n",
       "Result with the final rules: **%d of %d reported** by the check of their own property.  Silent: C14-2, which fix F11 made harmless (its own" % (nrep, len(rows)),
       "demonstration passes on the fixed tree: `NEUTRALISED`).  (C20-9 - `update_prm_data_len` grows the block only when the field *starts* beyond its end - was not",
       "decided until clause C20.d was added: every return path of the sizing helper is already large enough, or passed `resize(offset + size)`, or left the",
       "`0..(offset + size) - len` push loop.)  %d round-1 seeds no longer apply to the fixed tree and" % nreb,
       "are run from `patch_rebased.diff` (the same semantic change re-written against the fixed code).\n",
       "What the seeds taught — each of these was a miss (or a hit for a brittle reason) at first, and the *rule*, never the seed, was changed; every new clause was",
       "then run on the unchanged tree, on the six extra feature configurations and on hand-made behaviour-preserving edits (operand swaps, `is_stop()` ↔ `== Stop`,",
       "added `log::trace!`, type ascriptions) to make sure it stays silent there:\n",
       "* round 1: C04-3 (one copy skipped in Operate → exact-execution counters), C03 matchers bound to spellings, C13 resume check; C14-2 correctly silent.",
       "* round 2, first batch: C19-4 grammar literal made case-sensitive → `e.case` also lints the grammar's alphabetic literals; C16-4 decoder reports `telegram_len()`",
       "  instead of the announced frame length → C16 imports C10 `a.length` and the C09 reader table; C14-5 `enter_state` resets the cycle position → `f.who` writers of",
       "  `cycle_state`; C14-1 (rebased: end of pass lost across the loop's back edge) → persistent `inc_true` mark and current-state facts; C01-5 `mark_bus_activity`",
       "  instead of `mark_rx` in one receive callback → `g.rx`; C01-6 status request not cleared after the reply → `a.who` request-cleared-after-reply; C04-5",
       "  `pi_i.fill(0)` on Offline → the `deref_mut` of `pi_i` may only feed the guarded copy; C05-5 resynchronisation that can skip 0 bytes → the receive loop's consumed",
       "  count must be the length of an accepted telegram.",
       "* round 2, second batch: C03-4 stale diagnostics returned for a short confirmation → `a.edges` diagnostics-fresh (a non-`None` result implies the store of",
       "  this reply's diagnostics on the same path); C08-5 `request_diagnostics()` clears the retry counter → writers of `retry_count`; C17-6 vendor range starts at 17 →",
       "  numeric range of the `Vendor`/`Reserved` payloads against the specification table; C18-4 partial reply timed out after 33 bit times → C18 imports C11's",
       "  slot-expiry definition; C20-5 `binary_search` on the unsorted enumeration → order-independent membership; C11-5 SC after the pass ignored → the CheckTokenPass",
       "  receive callback leaves the state on every first-telegram path; C11-6 `transition_active_idle()` from ActiveIdle forgets the candidate predecessor → no",
       "  self-transition in typestate ActiveIdle.",
       "* round 3 (20 of 51 missed at first - the seeds moved to helpers and API calls the rules had not looked at): C01-9 transposed digits in `Baudrate::to_rate` → rate",
       "  table (variant `B<n>` returns n); C11-7 / C11-8 / C18-9 activity bookkeeping (`check_for_ongoing_transmision` without refresh, `mark_bus_activity` for `mark_rx`,",
       "  `mark_rx` not resetting the count) → `b.sync-pause`/`g.rx` clauses of C01, imported by C11 and C18; C03-7 `reset_address` early return → whole-object",
       "  replacement on every path; C03-8 / C18-8 source check dropped in the reply filter → C03 imports C04 `c.fdl-admission`; C03-9 truncating watchdog quotient →",
       "  shape lint (decided only for the recognised shape); C04-8 swapped process images in `reset_address` → roles of the re-seated buffers; C05-8 field-wise offline",
       "  reset forgetting `next_application` → support check of H-APPS; C05-9 recursion in the block iterator → no call-graph cycle without a checked depth bound (the",
       "  one existing self-recursion, `do_claim_token`, is proved to have depth ≤ 1); C13-9 scanner never ending its cycle → C13 imports C18 `c.sweep`; C14-8 slot",
       "  iteration rewinding instead of parking → result/stored-state table of `increment_cycle_state`; C14-9 builder accepting retry limit 0 → interval proof per",
       "  `ParametersBuilder` setter (also the support of H-PARAM); C17-7 `&= !FLAG` truncating unnamed bits → no truncating operation in the header decoders; C17-8",
       "  `fill` ignoring an empty block list → numeric post-condition (recorded, or no buffer, or too small); C18-7 GAP wrap after HSA → C18 imports C12.a; C19-7 literal",
       "  `\\n` in the grammar → NEWLINE only; C19-8 two speed flags sharing a bit → distinct single bits; C19-9 signed numbers parsed through `u32` → no signed",
       "  instantiation of `parse_number`.",
       "* round 4 (6 of 30 missed at first): C01-11 `pending_bytes` stored before it is compared (the comparison reads itself) → no store between the PHY query and the",
       "  comparison; C01-12 field-wise offline reset forgetting `last_bus_activity` → going offline re-creates the station or clears the activity marker and the byte",
       "  count; C09-10 `assert!(pdu_len <= 244)` in the serializer → the only refusal allowed is `LE > 249`; C12-11 `DoGap` passed in a variable that can be `Yes`",
       "  after a GAP reply → the variant is read per path class; C15-12 hold-time deadline computed from the token just received → C15 imports C13 `c.deadline`; C18-12",
       "  scanner decoding the ident number little-endian → C18 imports C17 `d.header`.  Also from this round's hits for a weak reason: the FCS fold is recognised",
       "  strictly (start 0, every byte, `wrapping_add`), and the writer must store exactly that sum.",
       "* round 5 (6 of 36 missed at first): C03-13 the serializer no longer zero-fills the PDU region handed to the builder closure (Set_Prm ORs bits into stale bytes)",
       "  → C03 `c.set_prm` pdu-zero-filled; C07-1 (= C08-13) `SAP not enabled` arm returns before `fcb.cycle()` → C07 imports C08.b as `e.fcb-toggle`; C08-14 low-priority",
       "  start-up services declined on a late token through the counter-zeroing `Err` exit (retry sequence forgotten) → C08 imports the closed world of give-up reasons",
       "  C07.a; C10-13 dispatcher forwards unknown start bytes to the data decoder whose `len < 6 → None` precedes the start-byte test → C10 `c.verdicts` delegate-guard",
       "  (required only while the sub-decoder has a `None` verdict that has not established its own start byte); C12-13 field-wise offline reset that keeps the token ring",
       "  (LAS still valid after re-joining) → C12 `d.truthful` offline-forgets-ring; C14-13 the event early-return moved in front of `increment_cycle_state()` → C14",
       "  `a.progress` declined-turn-advances-slot (per-iteration counters).  The second C07 batch (C07-3..6, asked to avoid the frame count bit): C07-3/-5 Prm_Req no",
       "  longer leads back to Set_Prm when Station_Not_Ready is also set → C07 `b.prm-req`; C07-6 the diagnostics helper rejects a reply whose extended part does not fit",
       "  → C07 `b.diag-accept` (closed world of rejection reasons); C07-4 reported by `d.diag` as built.  C06-1..3 (two agents after C06 was claimed): C06-1 → C12 `e.reply`",
       "  both-ready-states, C06-3 → C06 imports C01 `b.sync-pause`, C06-2 reported by the imported C12.a; C06-4..6 (two more agents): C06-4 and C06-6 reported by C06.a / C06.b as",
       "  built, C06-5 → C06 imports the hold-time clauses of C13 (`g.token-released`).  C02-1 (two agents after C02 was claimed; both delivered the same change as C06-1 and",
       "  reported that every other candidate in `token_ring.rs` / the witnessing sites was caught by the existing tests or self-healing): reported by the imported C12 `e.reply`.",
       "* an observation outside a property's scope: the RP2040 PHY (feature `phy-rp2040`) drops the whole receive buffer on a partial drop (acknowledged TODO in its",
       "  source); C16 quantifies over the generic helpers on the simulator/harness PHYs, so this is recorded under `not_decided` in the thorough evidence, not reported.\n",
       "| seed | mechanism | change | applied as | check | first reporting clause |", "|---|---|---|---|---|---|"]
for r in rows:
    out.append("| %s | %s | %s | %s | %s | %s |" % r)
out.append("")
out.append('''### 11.7 Tiers, cost, configurations

* quick: `./check <ID> --tier quick` on the default configuration (workspace: profirust + gsd-parser).  Cold cache: one extraction
  (≈ 12 s) shared by all rules; then 0.1–20 s per rule, C05 ≈ 40 s, C10 ≈ 10 s, C14/C16 ≈ 10–20 s.
* thorough: the same rule on the extra feature configurations (`--no-default-features`, `alloc`, the two `debug-measure-*` features; C16: `phy-linux`,
  `phy-rp2040`) and, informational, the property's seeded changes on scratch copies (`coverage.seeded_changes`).  In no_std configurations rustc prints
  core/alloc items as `core::…`; `analysis/facts.py` canonicalises those paths to the spelling of the std configuration of the same tree (learned from the
  default facts, majority vote per path prefix) so that one set of matchers serves all configurations.  All 17 thorough commands exit 0 on the current tree
  (C05 ≈ 3 min + seeds, the others ≤ 1 min + seeds).
* No hooks were needed; `/repo` received only the 16 `fix:` commits.

### 11.8 What the tooling could not do (beyond §9)

* No SMT/symbolic step is used anywhere (technique family).  Relations beyond differences of two variables (e.g. `length_byte = pdu_len + d + s + 3`) are handled
  by entry partition on the discriminants involved, not by a richer domain.
* Heap-shaped invariants (occupied `PeripheralSet` slots, contents of the LAS bit array) are not derived; they appear as `I-*` invariants with who-writes support.
* `H-TIME`, `H-TXBUF`, `H-PDU`, `H-APPS` are assumptions and are listed as such.
* Rules anchor on the repository's own names (fields such as `cycle_state`, `retry_count`, `pi_i`; functions such as `transition_active_idle`).  Renaming an
  anchored item makes the rule fail closed with an "anchor missing" report that names the item; that is a report to re-point the rule, not a verdict on behaviour.
''')
s = open(V + "/DESIGN.md").read()
if "### 11.6" in s:
    s = s[:s.index("### 11.6")]
s = s.rstrip("\n") + "\n\n" + "\n".join(out)
open(V + "/DESIGN.md", "w").write(s)
print(len(rows), "rows,", nrep, "reported")
