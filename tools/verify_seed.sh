#!/bin/bash
# tools/verify_seed.sh <seed-dir> : confirm (a) demo passes on HEAD, (b) suite passes with patch, (c) demo fails with patch.
# Uses a scratch worktree of /repo under /tmp, removed afterwards. Writes <seed-dir>/verified.txt
set -u
sd=$(realpath "$1")
W=$(mktemp -d /tmp/seedverify-XXXXXX); rmdir "$W"
git -C /repo worktree add --detach "$W" HEAD -q || exit 2
export CARGO_TARGET_DIR="$W/target" CARGO_NET_OFFLINE=true
cmd=$(cat "$sd/demo_cmd.txt")
res=""
cd "$W"
reset() { git -C "$W" checkout -q -- . ; git -C "$W" clean -fdq -e target; }
git apply "$sd/demo.diff" || res="$res demo.diff-does-not-apply"
a=$( (timeout 900 bash -c "$cmd") >/tmp/$$.a 2>&1; echo $?)
reset
git apply "$sd/patch.diff" || res="$res patch.diff-does-not-apply"
b=$( (timeout 1800 cargo test --workspace --no-fail-fast --offline) >/tmp/$$.b 2>&1; echo $?)
nb=$(grep -E "^test result" /tmp/$$.b | awk '{p+=$4; f+=$6} END {print p"/"f}')
git apply "$sd/demo.diff" || res="$res demo.diff-does-not-apply-on-patched"
c=$( (timeout 900 bash -c "$cmd") >/tmp/$$.c 2>&1; echo $?)
cd /
git -C /repo worktree remove --force "$W"
ok=FAIL; [ "$a" = 0 ] && [ "$b" = 0 ] && [ "$c" != 0 ] && [ -z "$res" ] && ok=OK
echo "$ok a(demo on HEAD)=$a b(suite with patch)=$b passed/failed=$nb c(demo with patch)=$c $res" | tee "$sd/verified.txt"
tail -5 /tmp/$$.c | sed 's/^/    c: /' >> "$sd/verified.txt"
rm -f /tmp/$$.a /tmp/$$.b /tmp/$$.c
