#!/bin/bash
cd /verif
d=$1; s=$(basename $d); id=${s%-*}
r=$(tools/variant.sh $d/patch.diff $id 2>&1)
mode=direct; echo "$r" | grep -q REBASED && mode=rebased; echo "$r" | grep -q BASE-FALLBACK && mode=base
ex=$(echo "$r" | grep -o "exit=[0-9]*" | head -1)
first=$(echo "$r" | grep -m1 "^  \[" | cut -c1-170)
echo "$s $mode $ex $first" > /tmp/as2/$s.txt
