#!/usr/bin/env python3
"""tools/update_seed_meta.py <results file>: record in every seeded/<ID>-n/meta.json what was run to confirm the seed and what the
property's check reports for it; write seeded/INDEX.md."""
import json
import os
import sys

V = os.path.dirname(os.path.dirname(os.path.abspath(__file__)))
res = {}
if len(sys.argv) > 1 and os.path.exists(sys.argv[1]):
    for l in open(sys.argv[1]):
        p = l.rstrip("\n").split(" ", 3)
        if len(p) >= 3 and p[0].startswith("C"):
            res[p[0]] = dict(mode=p[1], exit=p[2], first=(p[3] if len(p) > 3 else "").strip())
rows = []
for name in sorted(os.listdir(os.path.join(V, "seeded")), key=lambda s: (s.split("-")[0], int(s.split("-")[1]) if "-" in s and s.split("-")[1].isdigit() else 0)):
    d = os.path.join(V, "seeded", name)
    mp = os.path.join(d, "meta.json")
    if not os.path.isfile(mp):
        continue
    m = json.load(open(mp))
    ver = open(os.path.join(d, "verified.txt")).readline().strip() if os.path.exists(os.path.join(d, "verified.txt")) else ""
    verf = open(os.path.join(d, "verified_fixed.txt")).readline().strip() if os.path.exists(os.path.join(d, "verified_fixed.txt")) else ""
    rnd = 2 if int(name.split("-")[1]) >= 4 or name.startswith(("C07-", "C06-", "C02-")) else 1
    m["round"] = rnd
    m["made_on"] = "tree with the fix: commits (HEAD at the time)" if rnd == 2 else "pinned commit 6219822"
    m["what_i_ran"] = {
        "confirm": "tools/verify_seed.sh seeded/%s  (scratch worktree of /repo: (a) demo.diff + demo_cmd passes on HEAD, (b) patch.diff + full suite passes, "
                   "(c) patch.diff + demo.diff + demo_cmd fails; worktree removed afterwards)" % name,
        "confirm_result": ver,
        "status_on_fixed_tree": verf,
        "check": "tools/variant.sh seeded/%s/patch.diff %s  (scratch copy of /repo with the patch - patch_rebased.diff when the original no longer applies - "
                 "and ./check run with VERIF_REPO pointing at the copy)" % (name, name.split("-")[0]),
    }
    r = res.get(name)
    if r:
        m["check_result"] = {"applied": r["mode"], "exit": r["exit"], "first_report": r["first"]}
        m["expected"] = "fires" if r["exit"] == "exit=1" else "silent"
    json.dump(m, open(mp, "w"), indent=1)
    rows.append((name, m.get("summary", "")[:150].replace("|", "/"), (r or {}).get("mode", "?"), (r or {}).get("exit", "?"), ((r or {}).get("first", "") or "").split("]")[0].lstrip("[ ")))
with open(os.path.join(V, "seeded", "INDEX.md"), "w") as fh:
    fh.write("| seed | change | applied as | check | first reporting clause |\n|---|---|---|---|---|\n")
    for n, sm, mode, ex, cl in rows:
        fh.write("| %s | %s | %s | %s | %s |\n" % (n, sm, mode, "reported" if ex == "exit=1" else ("silent" if ex == "exit=0" else ex), cl))
print(len(rows), "seeds")
