#!/bin/bash
# tools/mkstacked.sh <out.diff> <benign patch> <file rel. to repo> <sed expr> : mutant on top of a behaviour-preserving refactoring, as one patch against /repo
set -e
out=$(realpath -m "$1"); ben=$(realpath "$2"); f="$3"; expr="$4"
W=$(mktemp -d /tmp/stacked-XXXXXX); trap 'rm -rf "$W"' EXIT
mkdir -p "$W/a" "$W/b"
rsync -a --exclude target --exclude .git /repo/ "$W/a/"; rsync -a --exclude target --exclude .git /repo/ "$W/b/"
(cd "$W/b" && patch -p1 -s < "$ben")
cp "$W/b/$f" "$W/pre"; sed -i "$expr" "$W/b/$f"
if cmp -s "$W/pre" "$W/b/$f"; then echo "NO-CHANGE by sed"; exit 1; fi
(cd "$W" && diff -ruN a b | sed 's#^--- a/#--- a/#; s#^+++ b/#+++ b/#' > "$out") || true
grep -c "^@@" "$out"
