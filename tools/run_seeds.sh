#!/bin/bash
cd "$(dirname "$0")/.."
# tools/run_seeds.sh : run each seeded change against the check of its property (4 in parallel); table in /tmp/allseeds2.txt
mkdir -p /tmp/as2; rm -f /tmp/as2/*
one() {
  d=$1; s=$(basename $d); id=${s%-*}
  r=$(tools/variant.sh $d/patch.diff $id 2>&1)
  mode=direct; echo "$r" | grep -q REBASED && mode=rebased; echo "$r" | grep -q BASE-FALLBACK && mode=base
  ex=$(echo "$r" | grep -o "exit=[0-9]*" | head -1)
  first=$(echo "$r" | grep -m1 "^  \[" | cut -c1-170)
  echo "$s $mode $ex $first" > /tmp/as2/$s.txt
}
export -f one
ls -d seeded/C*/ | xargs -P 10 -I{} bash -c 'one {}'
cat /tmp/as2/*.txt | sort -V > /tmp/allseeds2.txt
echo DONE >> /tmp/allseeds2.txt
