#!/bin/bash
# tools/run_mutants.sh : every hand-made mutant in selftest/mutants must be reported by the check named in its file name
cd "$(dirname "$0")/.."
rc=0
for p in selftest/mutants/*.diff; do
  id=$(basename "$p" | cut -d- -f1)
  r=$(tools/variant.sh "$p" "$id" 2>&1)
  if echo "$r" | grep -q "^VIOLATION property=$id"; then echo "$(basename $p) reported"; else echo "$(basename $p) MISSED"; rc=1; fi
done
exit $rc
