#!/bin/bash
# tools/variant.sh <patch.diff> <ID> [<ID>...]   — run checks against a scratch copy of /repo with the patch applied.
# Prints per ID: exit code and VIOLATION / KNOWN-FINDING lines.  Evidence goes to a scratch dir, never to /verif/evidence.
set -u
patch=$(realpath "$1"); shift
V=$(mktemp -d /tmp/verif-variant-XXXXXX)
trap 'rm -rf "$V"' EXIT
rsync -a --exclude target --exclude .git /repo/ "$V/repo/"
rebased="$(dirname "$patch")/patch_rebased.diff"
if [ "$(basename "$patch")" = patch.diff ] && [ -f "$rebased" ] && (cd "$V/repo" && patch -p1 -s --dry-run < "$rebased" >/dev/null 2>&1); then
  # the same semantic change re-written against the tree with the fix: commits
  (cd "$V/repo" && patch -p1 -s --no-backup-if-mismatch < "$rebased"); echo "REBASED (using patch_rebased.diff)"
elif ! (cd "$V/repo" && patch -p1 -s --no-backup-if-mismatch < "$patch" >/dev/null 2>&1); then
  # seeds were written against the pinned base commit; fall back to it when a later fix: commit touches the same lines
  rm -rf "$V/repo"; mkdir -p "$V/repo"; git -C /repo archive 6219822 | tar -x -C "$V/repo"
  echo "BASE-FALLBACK (patch does not apply to the current tree; using base commit 6219822 + patch)"
  if ! (cd "$V/repo" && patch -p1 -s --no-backup-if-mismatch < "$patch"); then echo "PATCH-DOES-NOT-APPLY $patch"; exit 3; fi
fi
mkdir -p "$V/ev"
rc=0
for id in "$@"; do
  out=$(cd /verif && VERIF_REPO="$V/repo" VERIF_EVIDENCE_DIR="$V/ev" ./check "$id" 2>&1); r=$?
  echo "== $id exit=$r"
  echo "$out" | grep -E "^(VIOLATION|KNOWN-FINDING|  \[)|fail|rror" | head -20
  [ $r -ne 0 ] && rc=1
done
exit $rc
