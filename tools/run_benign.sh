#!/bin/bash
# tools/run_benign.sh [glob] : all checks must stay silent on every behaviour-preserving refactoring in selftest/benign (5 in parallel)
cd "$(dirname "$0")/.."
one() {
  p=$1
  r=$(tools/variant.sh $p C01 C03 C04 C05 C08 C09 C10 C11 C12 C13 C14 C15 C16 C17 C18 C19 C20 2>&1)
  n=$(echo "$r" | grep -c "^VIOLATION")
  echo "$(basename $(dirname $p)) alarms=$n $(echo "$r" | grep "^VIOLATION" | sed 's/ replay=.*//' | sort -u | tr '\n' ' ')"
}
export -f one
ls selftest/benign/${1:-*}/patch.diff | xargs -P 5 -I{} bash -c 'one {}' | sort > /tmp/run_benign.out
cat /tmp/run_benign.out
! grep -qv "alarms=0" /tmp/run_benign.out
