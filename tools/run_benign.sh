#!/bin/bash
# tools/run_benign.sh : all checks must stay silent on every behaviour-preserving refactoring in selftest/benign
cd "$(dirname "$0")/.."
rc=0
for p in selftest/benign/*/patch.diff; do
  r=$(tools/variant.sh $p C01 C03 C04 C05 C08 C09 C10 C11 C12 C13 C14 C15 C16 C17 C18 C19 C20 2>&1)
  n=$(echo "$r" | grep -c "^VIOLATION")
  echo "$(basename $(dirname $p)) alarms=$n"
  [ "$n" != 0 ] && rc=1
done
exit $rc
