#!/bin/bash
# tools/mkvariant.sh <out.diff> <file relative to /repo> <sed expression>   — make a one-line variant patch against the current /repo tree
out="$1"; f="$2"; expr="$3"
tmp=$(mktemp); sed "$expr" "/repo/$f" > "$tmp"
if cmp -s "$tmp" "/repo/$f"; then echo "NO-CHANGE"; rm -f "$tmp"; exit 1; fi
diff -u "/repo/$f" "$tmp" | sed "1s#.*#--- a/$f#; 2s#.*#+++ b/$f#" > "$out"; rm -f "$tmp"
