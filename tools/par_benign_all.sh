#!/bin/bash
cd /verif
r=$(tools/variant.sh $1 C01 C02 C03 C04 C05 C06 C07 C08 C09 C10 C11 C12 C13 C14 C15 C16 C17 C18 C19 C20 2>&1)
echo "$(basename $(dirname $1)) alarms=$(echo "$r" | grep -c "^VIOLATION") $(echo "$r" | grep "^VIOLATION" | sed 's/ replay=.*//' | sort | uniq -c | tr '\n' ' ') $(echo "$r" | grep -m3 "^  \[" | cut -c1-260 | tr '\n' ' ')"
