#!/bin/bash
# tools/reverify_seed.sh <seed-dir> : re-run the seed's (a)/(b)/(c) checks against /repo's CURRENT HEAD (with the fix: commits).
# Writes <seed-dir>/verified_fixed.txt : STILL-BREAKS | NEUTRALISED (demo passes with patch) | CONFLICT (patch does not apply)
set -u
sd=$(realpath "$1")
W=$(mktemp -d /tmp/seedrv-XXXXXX); rmdir "$W"
git -C /repo worktree add --detach "$W" HEAD -q || exit 2
export CARGO_TARGET_DIR="$W/target" CARGO_NET_OFFLINE=true
cmd=$(cat "$sd/demo_cmd.txt")
cd "$W"
out="$sd/verified_fixed.txt"
head=$(git rev-parse --short HEAD)
reset() { git -C "$W" checkout -q -- . ; git -C "$W" clean -fdq -e target; }
if ! patch -p1 -s --no-backup-if-mismatch < "$sd/patch.diff" >/dev/null 2>&1; then
  echo "CONFLICT head=$head patch.diff does not apply to the fixed tree (overlaps a fix: commit)" > "$out"
else
  b=$( (timeout 1800 cargo test --workspace --no-fail-fast --offline) >/tmp/$$.b 2>&1; echo $?)
  patch -p1 -s --no-backup-if-mismatch < "$sd/demo.diff" >/dev/null 2>&1
  c=$( (timeout 900 bash -c "$cmd") >/tmp/$$.c 2>&1; echo $?)
  reset
  patch -p1 -s --no-backup-if-mismatch < "$sd/demo.diff" >/dev/null 2>&1
  a=$( (timeout 900 bash -c "$cmd") >/tmp/$$.a 2>&1; echo $?)
  if [ "$a" = 0 ] && [ "$b" = 0 ] && [ "$c" != 0 ]; then v=STILL-BREAKS; elif [ "$c" = 0 ]; then v=NEUTRALISED; else v=INCONCLUSIVE; fi
  echo "$v head=$head a(demo on fixed HEAD)=$a b(suite with patch)=$b c(demo with patch)=$c" > "$out"
fi
cd /; git -C /repo worktree remove --force "$W"; rm -f /tmp/$$.a /tmp/$$.b /tmp/$$.c
cat "$out"
