#!/bin/bash
cd /verif
p=$1; id=$(basename "$p" | cut -d- -f1)
r=$(tools/variant.sh "$p" "$id" 2>&1)
if echo "$r" | grep -q "^VIOLATION property=$id"; then echo "$(basename $p) reported"; else echo "$(basename $p) MISSED"; fi
