#!/usr/bin/env python3
"""Regenerate MANIFEST.json from the per-property table below (single source of truth)."""
import json, os
V = os.path.dirname(os.path.dirname(os.path.abspath(__file__)))
props = [json.loads(l) for l in open(os.path.join(V, "properties.jsonl"))]

TB = "rustc nightly MIR as extracted by engines/mirfacts (resolved callees, -Zmir-opt-level=0, debug assertions and overflow checks on); python3 stdlib analyses in /verif/analysis"

CLAIMED = {
 "C04": dict(level="other", technique="static analysis: who-writes query + path-sensitive must-guard dataflow + dominance/post-dominance pairing over rustc MIR",
   text="Decides the structural clauses of C04 for all inputs/histories: the input image has exactly one (guarded) writer; the copy is guarded on every path class by state, reply kind, status, exact length and the request-side service selector; FDL reply admission and DP routing guards; DataExchanged iff update; request PDU = output image under Operate. Does not re-prove byte equality of copy_from_slice (library contract). The mutable view of pi_i may only become the destination of the guarded reply copy (no fill / other writer).",
   note="Trusted: " + TB + "; copy_from_slice contract. Clause keys are semantic (fields, callees, variants), never line numbers.", ref="§4-C04"),

 "C03": dict(level="other", technique="static analysis: typestate edge extraction from stores (must-guard dataflow with mod-set kill), request/SAP table extraction, writer-table agreement with exact-execution counters over rustc MIR",
   text="Decides for all reply/loss/fault histories of one peripheral: every store to the bring-up state is an edge whose rank rise is at most one and which carries its acknowledgement guard (accepted diagnostics / short confirmation / the four readiness flag tests by PROFIBUS bit value); constructors start Offline and re-addressing resets; per-state request table (SAPs, service, addresses); Set_Prm/Chk_Cfg octet layout with every optional bit written exactly when configured. Does not decide the watchdog factor arithmetic or multi-peripheral interleavings. Also: a non-None result of handle_diagnostics_response implies that this reply's diagnostics were stored on the same path (no stale diagnostics for a short confirmation).",
   note="Trusted: " + TB + "; rules/spec_tables.json (DP-V0 constants).", ref="§4-C03"),

 "C08": dict(level="other", technique="static analysis: path-sensitive dataflow with per-path event counters (retry +1/0, fcb.cycle exactly-once by exit class, helper summaries), who-writes on service selector fields, constant table extraction over rustc MIR",
   text="Decides per-path pairing clauses for every loss/reply history of one peripheral: retry counter +1 on every transmitting exit and 0 on every other, Offline only under retry_count > max_retry_limit and never a send above the limit, fcb.cycle() exactly once on accepting exits and never on rejecting ones (through the diagnostics helper by summary), Offline implies FCB reset, the service selector latched by the transmit handler is not writable through the public API, FrameCountBit tables, FDL reply admission. Does not decide the global multi-peripheral trace property. The retry counter is written only by the transmit and reply handlers.",
   note="Trusted: " + TB + "; rules/spec_tables.json (FCB discipline).", ref="§4-C08"),
 "C10": dict(level="proof", technique="static analysis: interval+zone abstract interpretation of rustc MIR (bounds/overflow/slice obligations), path-sensitive must-guard dataflow for acceptance guards and a closed world of None/Err verdicts",
   text="Totality of the three decoder functions is proved for every input slice (all Assert and slice-API obligations discharged by the zone domain; reported length within the input; no loops). Acceptance guards (both start delimiters, both length bytes, FC, checksum byte and range, end delimiter) hold on every accepting path class; every None/Err verdict matches an enumerated frame-format reason. The single-byte-corruption (Hamming) argument is not decided.",
   note="Trusted: " + TB + "; numdom transfer functions; core slice API preconditions as encoded; the debug_assert in TokenTelegram::deserialize is discharged by its only in-crate caller (assumption listed in evidence).", ref="§4-C10"),

 "C09": dict(level="proof", technique="static analysis: writer/reader table extraction from rustc MIR (match tables, masks, shifts, discriminants), exhaustive enumeration over the extracted finite tables, zone-domain store offsets, closed world of decoder verdicts",
   text="Function-code round trip is established for all 84 request/response codes by enumerating the extracted tables (discriminants = PROFIBUS code points, from_u8 exact inverses, writer bit layout vs reader masks/shifts, FCB tables). Frame-format selection, telegram_len, reader format table, extension bits, header octet offsets, checksum range, ED/SC/SD4 constants and reported byte counts agree between writer and reader; every reject/wait condition of the reader is a frame-format violation. Payload bytes are copied verbatim by the slice API (not re-proved).",
   note="Trusted: " + TB + "; rules/spec_tables.json; numdom for absolute store offsets; memcpy contract.", ref="§4-C09"),
 "C17": dict(level="proof", technique="static analysis: interval+zone abstract interpretation with an inductive field invariant (length <= len(buffer)) proved over all writers, per-path counters, table extraction and sibling-decoder comparison over rustc MIR",
   text="Every bounds/slice/overflow obligation of ExtDiagBlockIter::next, raw_diag_buffer and fill is discharged for every buffer content under the proven invariant; every yielded block advances the cursor by >= 1 and None is terminal; block-kind / length-mask / channel-field / data-type / error tables match DP-V0; the peripheral's and the scanner's 6-byte header decoders extract identical fields with identical guards and keep every flag bit; fill copies only what fits. The Vendor / Reserved payload ranges of ChannelError are compared numerically with the specification (16..=31 manufacturer specific).",
   note="Trusted: " + TB + "; numdom transfer functions; ManagedSlice Deref length stability; rules/spec_tables.json.", ref="§4-C17"),

 "C16": dict(level="other", technique="static analysis: drop-count table extraction per decoder verdict (path-sensitive facts on discriminants), loop-condition and dependency checks, zone-domain obligations of the decoder, PHY read-position dependency over rustc MIR",
   text="Decides the structural clauses behind chunking independence: per decoder verdict the provided receive helpers drop 0 / everything / exactly the decoded length and deliver the telegram exactly once; is_last is exactly (length == buffered); receive_all_telegrams loops iff not last and returns the final result; decoder verdict clauses shared with C10; the simulator and serial PHYs advance their read position by exactly the returned count. The end-to-end relation over all chunkings follows on paper from these clauses and is not re-proved. Imports C10 a.length and the C09 reader table: the byte count dropped for an accepted telegram is its frame length.",
   note="Trusted: " + TB + ".", ref="§4-C16"),
 "C18": dict(level="other", technique="static analysis: inductive interval invariant (cursor in 0..=125) proved by the zone domain over all writers, per-path counters for event/bitset and sweep-flag pairing, FDL admission guards over rustc MIR",
   text="Decides: only addresses 0..=125 are ever probed (inductive invariant of the sweep cursor over every writer, probe destination = cursor, source = own address); Lost only for known addresses together with clearing the bit, Discovered/Found only for unknown addresses together with setting it (the DP scanner adds an address only with a Found event); one probe per address per sweep (done-flag pairing); replies admitted only from the probed address. Convergence over whole histories is not decided. Imports C11's slot-expiry definition: a reply is declared missing only a slot time after the last bus activity, also when partially received.",
   note="Trusted: " + TB + "; bitvec get/set semantics; numdom transfer functions.", ref="§4-C18"),

 "C11": dict(level="other", technique="static analysis: interprocedural path-sensitive variant (typestate) analysis of poll() with a fully non-deterministic environment, must-guard dataflow at acceptance/supervision sites, table extraction over rustc MIR",
   text="Decides every rule of the statement as a typestate or guard fact of the single station for all histories: the token is taken only from ActiveIdle/PassToken(alone)/AwaitDataResponse and never within a poll that starts in ListenToken; both acceptance sites require token kind, foreign sender, own destination, last telegram and predecessor-or-repeated-candidate; declined sender recorded, ActiveIdle entered without candidate; retry/removal only after slot expiry with the attempt table First->Second->Third->remove+First; one removal site, successor only; attempt carried unchanged; token addressed to successor; alone keeps token. The duration of the slot is checked as a dependency on slot_time(), not as a number. Also: the CheckTokenPass receive callback leaves the state on every path taken for the first telegram heard; transition_active_idle is never called in typestate ActiveIdle (the recorded candidate predecessor survives).",
   note="Trusted: " + TB + "; callback contracts of receive_telegram / receive_all_telegrams / transmit_telegram (structure checked by C16).", ref="§4-C11"),
 "C14": dict(level="other", technique="static analysis: loop-progress cut-set check, per-path and per-iteration event counters in the path-sensitive dataflow, typestate edges of peripheral events, who-consumes-result check over rustc MIR",
   text="Decides: the DP master's slot loop advances the cycle state on every path around the loop (turn always ends, also with zero peripherals); no assertion on the number of peripheral events; cycle_completed is stored true exactly when the slot iteration reported the end of the pass and the iteration's verdict is always consumed; exactly one events-slot store before every return and an event obtained on a path is the one stored; peripheral events are raised only on their life-cycle edges; is_live/is_running tables; one Offline per drop-out (retry pairing). Slot order under storage mutation mid-cycle is not decided. The cycle position is written only by the slot iteration itself (who-writes); the end-of-pass verdict cannot be lost across a turn of the slot loop.",
   note="Trusted: " + TB + "; PeripheralSet::get_next_index returns a later slot or None.", ref="§4-C14"),

 "C12": dict(level="proof", technique="static analysis: zone-domain proof of the next_gap_poll post-condition with path partitioning; provenance by per-iteration counters in the current-state dataflow; typestate (interprocedural variant analysis) and must-guard dataflow over rustc MIR",
   text="The post-condition of next_gap_poll is proved for all (current, TS, NS, HSA) under the stated hypotheses: every DoPoll address lies strictly inside the cyclic GAP (TS, NS), differs from TS and is <= HSA-1, without overflow. Every GAP request address was just computed against the current successor; claiming restarts the sweep; single sender with da = DoPoll address, sa = own; DoGap::Yes only from UseToken and the poll guarded by it; wait counter discipline; successor adoption guards; truthful status replies (ready iff LAS valid and requester is predecessor; in-ring from ActiveIdle), request recording guards, LAS validity edges and pass verification. Bounded-visits coverage of the GAP is not decided.",
   note="Trusted: " + TB + "; numdom transfer functions; hypothesis address < HSA <= 126 (ParametersBuilder) and DoPoll payload <= HSA-1 (writer clause a').", ref="§4-C12"),
 "C13": dict(level="other", technique="static analysis: must-guard dataflow on the hold-time comparisons, current-state (mem-kill) facts and counters for store order and flag discipline, who-may-call over the call graph, typestate for DoGap::Yes over rustc MIR",
   text="Decides the hold-time guard structure: applications are offered normal cycles only before the deadline and one high-priority cycle per visit after it, these being the only ways an application is asked to transmit; idle token use ends in a pass request; deadline = previous receipt + TTR computed before the receipt time is updated, once per visit, GAP reserve only when a poll is due; receipt times are now; the one-cycle flag starts false, is set before each cycle and stays set after reply/time-out; at most one GAP poll per visit. The ring-wide rotation bound is not decided.",
   note="Trusted: " + TB + ".", ref="§4-C13"),
 "C15": dict(level="other", technique="static analysis: call-site typestates from the interprocedural variant analysis, must-guard dataflow for reply admission / time-out delivery, who-writes x typestate for the application index, value-term checks for round-robin arithmetic, constant tables over rustc MIR",
   text="Decides: applications are asked to transmit only in UseToken and get replies/time-outs only in AwaitDataResponse, after which the station is back in UseToken; the wait is entered only for requests expecting a reply; admission filter (source, destination, response) and time-out guard; reply and time-out go to apps[next_application], which only the scheduler writes, only in UseToken; next index = (index+1) mod n, cycle completed iff back at the visit's first application, visit data carried unchanged through the wait; expects_reply tables. Fairness over schedules is not decided.",
   note="Trusted: " + TB + "; callback contracts of the provided PHY helpers (checked by C16).", ref="§4-C15"),

 "C01": dict(level="other", technique="static analysis: transmit-site typestates from the interprocedural variant analysis, interprocedural must-guard (sync pause) check, per-path event marks with result correlation (one transmission per poll), dependency/value-term checks for mark_tx and the 33/11-bit constants over rustc MIR",
   text="Decides the single-station structural clauses: every PHY transmission happens in an allowed typestate (token / GAP request in ClaimToken|PassToken, status reply in ListenToken|ActiveIdle with a recorded request addressed to this station, application telegram in UseToken; claim only after the silence time-out); every transmission is preceded in the same poll by the 33-bit synchronisation pause, the dispatch by the ongoing-transmission check and the RX-activity update; no second transmission per poll; the byte count of each transmission reaches mark_tx = now + bits_to_time(11*bytes); time-out stagger depends on address and slot time; single bit/time conversion. Collision freedom between several independently scheduled stations and µs timing are NOT decided (schedules of independent processes). Added after the second seeding round: every callback that is handed a received telegram resets the pending-byte count on all paths; a status reply is followed on every path by clearing the recorded request (or replacing the state).",
   note="Trusted: " + TB + "; rules/spec_tables.json; callback contracts of the provided PHY helpers.", ref="§4-C01"),

 "C05": dict(level="other", technique="static analysis: R-PANIC inventory over the call graph of poll() (panic calls, Assert terminators, may-panic std/bitvec calls) discharged by interprocedural typestate unreachability, interval+zone abstract interpretation with call-site / type-invariant / higher-order-buffer hypotheses, must-guards and delegated totality clauses; R-LOOP termination arguments; who-writes support checks over rustc MIR",
   text="Decides `no panic` as: every panic source in the 230 functions reachable from poll()/poll_multi() (FDL station, codec, token ring, DP master / peripheral / diagnostics, live list, scanner, PHY helper methods; log arguments included, log level non-deterministic) is unreachable in every typestate context started from the proved station invariant, or its numeric / Option precondition is proved, or it belongs to a function whose totality clause (C10.a, C17.a/b, C12.a, C09.b) is re-run, or it holds under a NAMED hypothesis listed in the evidence (H-*: environment / documented API use; I-*: internal invariants, each with a who-writes or shape support check that is run). Decides `no hang` as: each of the loops reachable from poll() is a `for` over a finite iterator or has a checked progress argument (slot loop C14.a, block iterator C17.b, receive loop consumes >= 1 byte unless it exits). Not decided: the hypotheses themselves (time range, PHY buffer size, PDU limits, unchanged application list), bounded wall-clock time, PHY back ends.",
   note="Trusted: " + TB + "; analysis/panics.py MAY_PANIC_EXTERN table; numdom transfer functions; the named hypotheses H-* listed in evidence/C05.json.", ref="§4-C05"),
 "C19": dict(level="other", technique="static analysis: grammar-shape typestate (pest grammar dumped by pest_meta -> child-sequence automata -> abstract interpretation of rustc MIR), R-PANIC inventory with path-sensitive Option guards and a provenance rule, per-path counters for the legacy-commit overwrite rule, keyword/field table extraction, case-discipline and long-line-marker checks",
   text="Decides `never panics` for the hand-written parser: every panic source reachable from parse()/parse_with_warnings() (panic!/unreachable!/assert!, unwrap/expect, Assert terminators, integer +, from_str_radix) is shown unreachable or guarded for every pair tree the grammar can produce, re-derived from gsd.pest and the MIR on each run. Of `reproduces what the file says` it decides structural necessary conditions only: extended prm data is never overwritten by the legacy commit, <rate>_supp / MaxTsdr_<rate> keywords reach the matching flag / field, keywords recognised in code are compared case-insensitively, long-line markers are removed from string literals for LF and CR LF (when the cleaning code has the recognised replace-chain shape). Field-by-field equality with the file text is not decided.",
   note="Trusted: " + TB + "; pest_meta parser/optimizer (engines/pestshape); conformance of the pest runtime and pest_derive output to the grammar (generated code checked free of panic sites); std functions outside analysis/panics.py:MAY_PANIC_EXTERN do not panic.", ref="§4-C19"),
 "C20": dict(level="other", technique="static analysis: sibling-arm table extraction (conversion target, width, endianness), dependency check of bit-field stores on the previous byte, must-guard and per-path/per-iteration counters for check-before-write over the rustc MIR of gsd-parser",
   text="Decides the per-type encoding table (signed types through their signed type, big-endian, widths, size()), the read-modify-write dependency and range guards of bit fields, that nothing is written on a path returning an error, that the declared constraint is checked before the write, that names/texts are resolved before any write and that every default is written unconditionally. One recorded known finding (BitArea overwrites the whole byte; its repair would change a pinned snapshot). The overlay over whole layouts as a value relation is not decided. The enumeration constraint is an order-independent membership test. The block sizing helper leaves at least offset + size bytes on every path.",
   note="Trusted: " + TB + ".", ref="§4-C20"),
}

NA = {
 "C02": "multi-station convergence/agreement within a time bound: a liveness/stability property over joint histories of independently scheduled stations; no sound static argument in reach (DESIGN §6). Its single-station structural ingredients are checked under C05/C11/C12.",
 "C06": "bounded-time recovery of a multi-station ring after arbitrary fault episodes: reachability over products of station states and clock values; not decidable by dataflow/typestate on one station (DESIGN §6).",
 "C07": "liveness against a reference slave over all loss histories; the one known violation (stale FCB after Offline) is caught structurally by C08.c, absence of other livelocks cannot be established statically (DESIGN §6).",
}

checks = []
for p in props:
    pid = p["id"]
    if pid in CLAIMED:
        c = CLAIMED[pid]
        checks.append({
            "property_id": pid,
            "quick_cmd": "./check %s --tier quick" % pid,
            "thorough_cmd": "./check %s --tier thorough" % pid,
            "evidence_file": "/verif/evidence/%s.json" % pid,
            "replay_cmd_template": "cat {path}",
            "engine": "mirfacts+pestshape+analysis" if pid == "C19" else "mirfacts+analysis",
            "level_claimed": {"category": c["level"], "text": c["text"], "design_ref": "DESIGN.md " + c["ref"]},
            "level_note": c["note"],
            "technique": c["technique"],
        })
na = []
for p in props:
    pid = p["id"]
    if pid in CLAIMED:
        continue
    na.append({"property_id": pid, "reason": NA.get(pid, "not yet claimed: its rule file is still being built and tested in both directions (DESIGN.md §10 build order); no verdict is given until then")})

m = {
 "version": 1,
 "setup_cmd": "cd /verif/engines/mirfacts && CARGO_NET_OFFLINE=true cargo build --offline && cd /verif/engines/pestshape && CARGO_NET_OFFLINE=true cargo build --offline",
 "hooks": {"guard": "profirust_verif", "enable": "none needed – the analyses read compiler facts of the unmodified sources (guard name reserved, unused)",
           "baseline_off_cmd": "cd /repo && cargo test --workspace --no-fail-fast --offline", "source_commits": [], "add_only": True},
 "engines": [
   {"name": "mirfacts", "path": "engines/mirfacts", "serves_properties": sorted(CLAIMED), "kind_free_text": "rustc_private driver (RUSTC_WORKSPACE_WRAPPER under cargo +nightly check) dumping resolved MIR facts of /repo's current tree as JSON"},
   {"name": "pestshape", "path": "engines/pestshape", "serves_properties": ["C19"], "kind_free_text": "pest_meta based dumper of /repo's gsd.pest (rule kinds and optimized expression trees) as JSON"},
   {"name": "analysis", "path": "analysis", "serves_properties": sorted(CLAIMED), "kind_free_text": "python3 stdlib static analyses over the facts: CFG/dominators, symbolic terms, path-sensitive must-guard dataflow, who-writes, table extraction, typestate and numeric abstract interpretation"},
 ],
 "checks": checks,
 "notes": "Static analysis only (DESIGN.md). Every check re-extracts facts from /repo's working tree when its content hash changes (cache under /verif/.cache).",
 "not_applicable": na,
}
json.dump(m, open(os.path.join(V, "MANIFEST.json"), "w"), indent=1)
print("claimed:", sorted(CLAIMED), "n/a:", [x["property_id"] for x in na])
