"""Extraction of "writes into a byte buffer" from a closure / function body (writer tables).

A write is one of
  * an indexed store  buf[k] = v          -> kind 'store', index ('const', k) | ('var', term)
    with `or_mask` = c when v has the shape  buf[k] | c  (read-modify-write OR),
    `and_mask` likewise, `rmw_ops` the set of binary operators between the old byte and the new one;
  * a slice copy     buf[a..b].copy_from_slice(src) / buf.copy_from_slice(src) / fill
                                          -> kind 'copy'|'fill', index ('range', a, b) | ('from', a) | ('to', b) | ('whole',)
"""
from .ir import mk_place
from .terms import TermBuilder, strip_refs, strip_casts, subterms, show
from .query import call_sites, stmts, callee_is


def _range_of(t):
    """decode index_mut(buf, Range..) terms -> (base term, index spec)"""
    t = strip_refs(t)
    if t[0] == "call" and ("index_mut" in t[1] or t[1].endswith("::index")) and len(t[2]) == 2:
        base, rng = strip_refs(t[2][0]), t[2][1]
        if rng[0] == "agg":
            name = str(rng[1]).split("::")[-1]
            f = rng[3]
            if name == "Range":
                return base, ("range", f[0], f[1])
            if name == "RangeFrom":
                return base, ("from", f[0])
            if name == "RangeTo":
                return base, ("to", f[0])
            if name == "RangeFull":
                return base, ("whole",)
            if name == "RangeInclusive":
                return base, ("range_incl", f[0], f[1])
        return base, ("var", rng)
    return t, ("whole",)


def buffer_writes(fn, tb, is_buf):
    """is_buf(term) -> bool decides whether a base term is the buffer of interest."""
    out = []
    for b, i, s in stmts(fn):
        if "a" not in s:
            continue
        pl = mk_place(s["a"])
        if not pl[1]:
            continue
        last = pl[1][-1]
        if last[0] not in ("idx", "cidx"):
            continue
        base = tb.place((pl[0], pl[1][:-1]))
        if not is_buf(strip_refs(base)):
            continue
        idx = ("const", last[1]) if last[0] == "cidx" else None
        if last[0] == "idx":
            it = strip_casts(tb.local(last[1]))
            idx = ("const", it[1]) if it[0] == "const" else ("var", it)
        val = tb.rvalue(s["rv"])
        w = dict(b=b, i=i, kind="store", index=idx, value=val, or_mask=None, and_mask=None, rmw_ops=set())
        self_t = tb.place(pl)
        if val[0] == "bin":
            a, c = val[2], val[3]
            for x, y in ((a, c), (c, a)):
                if x == self_t and y[0] == "const":
                    if val[1] == "BitOr":
                        w["or_mask"] = y[1]
                    if val[1] == "BitAnd":
                        w["and_mask"] = y[1]
        for st in subterms(val):
            if isinstance(st, tuple) and st and st[0] == "bin" and any(x == self_t for x in subterms(st)):
                w["rmw_ops"].add(st[1])
        w["reads_old"] = any(x == self_t for x in subterms(val))
        out.append(w)
    for b, c in call_sites(fn):
        if callee_is(c, "copy_from_slice", "clone_from_slice", "fill"):
            dst = tb.joperand(c["args"][0])
            base, idx = _range_of(dst)
            if is_buf(strip_refs(base)):
                out.append(dict(b=b, i=None, kind="fill" if callee_is(c, "fill") else "copy", index=idx,
                                value=strip_casts(strip_refs(tb.joperand(c["args"][1]))), or_mask=None, and_mask=None,
                                rmw_ops=set(), reads_old=False))
    return out


def fmt_index(ix):
    if ix is None:
        return "?"
    if ix[0] == "const":
        return "[%s]" % ix[1]
    if ix[0] == "range":
        return "[%s..%s]" % (show(ix[1]), show(ix[2]))
    if ix[0] == "from":
        return "[%s..]" % show(ix[1])
    if ix[0] == "to":
        return "[..%s]" % show(ix[1])
    if ix[0] == "whole":
        return "[..]"
    return "[%s]" % show(ix[1])
