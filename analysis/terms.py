"""Symbolic value terms for MIR locals/places (R-GUARD / R-DEP substrate).

A *term* is a nested tuple describing how a value is computed, with
single-definition compiler temporaries inlined, so that source-level
rewrites that do not change the computation (temporaries, operand order of
comparisons after normalisation, match vs if-let) give the same term.

Leaves:  ('arg', name) ('upvar', name) ('local', idx, name) ('const', v)
Nodes:   ('field', base, name) ('deref', base) ('ref', base) ('dc', base, variant)
         ('index', base, idx) ('cidx', base, off, from_end) ('sub', base, from, to, from_end)
         ('bin', op, a, b) ('un', op, a) ('cast', kind, a, ty) ('discr', place)
         ('agg', kind, variant, (fields...)) ('call', callee, (args...)) ('len', a)
"""
from .ir import mk_place, mk_operand


def const_term(k, prog=None, crate=None, depth=0):
    if "int" in k:
        v = k["int"]
        return ("const", int(v) if not isinstance(v, int) else v)
    if "bool" in k:
        return ("const", bool(k["bool"]))
    if "str" in k:
        return ("const", k["str"])
    if "fn" in k:
        return ("const", ("fn", k["fn"]))
    if "agg" in k and "fields" in k:
        fields = tuple(const_term(f, prog, crate, depth + 1) for f in k["fields"])
        return ("agg", k.get("adt", k["agg"]), k.get("variant"), fields)
    if "promoted" in k and prog is not None and depth < 3:
        pf = prog.get(crate, k["promoted"])
        if pf is not None:
            tb = TermBuilder(pf, prog)
            return tb.promoted_value()
    if "zst" in k:
        return ("const", ("zst", k["zst"]))
    if "const_item" in k:
        return ("const", ("item", k["const_item"]))
    return ("const", ("opaque", k.get("opaque", "?")))


class TermBuilder:
    def __init__(self, fn, prog=None):
        self.fn = fn
        self.prog = prog
        self.defs = {}  # local -> list of ('stmt', b, i) / ('call', b)
        self.partial = set()  # locals written through projections or &mut-borrowed
        self._cache = {}
        self._scan()

    def _scan(self):
        fn = self.fn
        for blk in fn.blocks:
            if blk.cleanup:
                continue
            for i, s in enumerate(blk.stmts):
                if "a" in s:
                    l, proj = mk_place(s["a"])
                    if proj:
                        # a write through a deref of a reference local does not redefine the local itself
                        if not (proj and proj[0] == ("deref",)):
                            self.partial.add(l)
                    else:
                        self.defs.setdefault(l, []).append(("stmt", blk.idx, i))
                    rv = s["rv"]
                    if "ref" in rv and rv.get("mut"):
                        bl, bproj = mk_place(rv["ref"])
                        if not any(p == ("deref",) for p in bproj):
                            self.partial.add(bl)
                    if "rawptr" in rv:
                        bl, bproj = mk_place(rv["rawptr"])
                        self.partial.add(bl)
                elif "sd" in s:
                    l, proj = mk_place(s["sd"])
                    self.partial.add(l)
            t = blk.term
            if "call" in t:
                l, proj = mk_place(t["call"]["dest"])
                if proj:
                    if proj[0] != ("deref",):
                        self.partial.add(l)
                else:
                    self.defs.setdefault(l, []).append(("call", blk.idx))

    def is_single(self, l):
        if l == 0:
            return False
        if 1 <= l <= self.fn.argc:
            return False
        return len(self.defs.get(l, ())) == 1 and l not in self.partial

    # ---- leaves -------------------------------------------------------------
    def local_leaf(self, l):
        fn = self.fn
        name = fn.locals[l].get("name")
        if 1 <= l <= fn.argc:
            if fn.kind == "closure" and l == 1:
                return ("env",)
            return ("arg", name if name else l)
        return ("local", l, name)

    def local(self, l, stack=()):
        if l in self._cache:
            return self._cache[l]
        if not self.is_single(l) or l in stack:
            return self.local_leaf(l)
        d = self.defs[l][0]
        stack = stack + (l,)
        if d[0] == "stmt":
            rv = self.fn.blocks[d[1]].stmts[d[2]]["rv"]
            t = self.rvalue(rv, stack)
        else:
            t = self.call_term(self.fn.blocks[d[1]].term["call"], stack)
        self._cache[l] = t
        return t

    def place(self, pl, stack=()):
        l, proj = pl
        t = self.local(l, stack)
        for e in proj:
            t = self.project(t, e, stack)
        return t

    def project(self, t, e, stack=()):
        k = e[0]
        if k == "deref":
            if t[0] == "ref":
                return t[1]
            if t[0] == "upvar":  # by-ref capture: same value, one indirection less
                return t
            return ("deref", t)
        if k == "f":
            if t == ("env",) or t == ("deref", ("env",)):
                idx = int(e[1]) if e[1].isdigit() else e[1]
                return ("upvar", self.fn.upvars.get(idx, idx))
            if t[0] == "dc" and isinstance(t[1], tuple) and t[1] and t[1][0] == "agg" and t[1][2] == t[2] and t[1][3]:
                # a field of a value that was just built as this variant: the operand it was built from
                agg = t[1]
                if e[1].isdigit() and int(e[1]) < len(agg[3]):
                    return agg[3][int(e[1])]
            if e[1] == "0" and t[0] == "dc" and t[2] == "Some" and isinstance(t[1], tuple) and t[1] and t[1][0] == "call" and len(t[1][2]) >= 1:
                # the payload of `s.first()` is `&s[0]`, of `s.get(i)` is `&s[i]` / `&s[range]`: name it like the indexing expression
                cal = t[1][1]
                X = t[1][2][0]
                base = X[1] if X[0] == "ref" else ("deref", X)
                if cal.endswith("core::slice::<impl [T]>::first") and len(t[1][2]) == 1:
                    return ("ref", ("index", base, ("const", 0)))
                if cal.endswith("core::slice::<impl [T]>::get") and len(t[1][2]) == 2:
                    I = t[1][2][1]
                    if I[0] == "agg" and str(I[1]).startswith("std::ops::Range"):
                        return ("call", "core::slice::index::<impl std::ops::Index<I> for [T]>::index", (X, I))
                    return ("ref", ("index", base, I))
            if t[0] == "agg" and (t[1] in ("tuple",) or str(t[1]).startswith("closure:")) and e[1].isdigit() and int(e[1]) < len(t[3]):
                return t[3][int(e[1])]  # (a closure environment read back in a body folded into its creator: the captured operand)
            return ("field", t, e[1])
        if k == "dc":
            # `x?` desugars to `match Try::branch(x) { Continue(v) => v, Break(r) => return .. }`: the payload of Continue is the
            # payload of Some / Ok of x itself - name it that way so that `?`-style and explicit `match` code give the same terms
            if e[1] == "Continue" and t[0] == "call" and t[1].endswith("as std::ops::Try>::branch") and len(t[2]) == 1:
                return ("dc", t[2][0], "Some" if "option::Option" in t[1] else "Ok")
            return ("dc", t, e[1])
        if k == "idx":
            return ("index", t, self.local(e[1], stack))
        if k == "cidx":
            return ("cidx", t, e[1], e[2])
        if k == "sub":
            return ("sub", t, e[1], e[2], e[3])
        return ("proj", t, e)

    def operand(self, op, stack=()):
        if op[0] in ("cp", "mv"):
            return self.place(op[1], stack)
        return const_term(op[1], self.prog, self.fn.crate)

    def joperand(self, j, stack=()):
        return self.operand(mk_operand(j), stack)

    def jplace(self, j, stack=()):
        return self.place(mk_place(j), stack)

    def rvalue(self, rv, stack=()):
        if "use" in rv:
            return self.joperand(rv["use"], stack)
        if "ref" in rv:
            inner = self.jplace(rv["ref"], stack)
            if inner[0] == "deref":  # reborrow `&*x` == x
                return inner[1]
            return ("ref", inner)
        if "rawptr" in rv:
            return ("ref", self.jplace(rv["rawptr"], stack))
        if "bin" in rv:
            return ("bin", rv["bin"], self.joperand(rv["a"], stack), self.joperand(rv["b"], stack))
        if "un" in rv:
            a = self.joperand(rv["a"], stack)
            if rv["un"] == "PtrMetadata":
                return ("len", a)
            return ("un", rv["un"], a)
        if "cast" in rv:
            return ("cast", rv["cast"], self.joperand(rv["a"], stack), rv["ty"])
        if "discr" in rv:
            return ("discr", self.jplace(rv["discr"], stack))
        if "agg" in rv:
            fields = tuple(self.joperand(f, stack) for f in rv["fields"])
            kind = rv["agg"]
            if kind == "adt":
                return ("agg", rv["adt"], rv["variant"], fields)
            if kind == "closure":
                return ("agg", "closure:" + rv["closure"], None, fields)
            return ("agg", kind, None, fields)
        if "repeat" in rv:
            return ("repeat", self.joperand(rv["repeat"], stack), rv["n"])
        if "len" in rv:
            return ("len", self.jplace(rv["len"], stack))
        return ("other", str(rv.get("other")))

    def call_term(self, c, stack=()):
        args = tuple(self.joperand(a, stack) for a in c["args"])
        callee = c.get("callee") or ("fnptr:" + c.get("fnty", "?"))
        if self.prog is not None and len(args) == 1 and c.get("via") in ("direct",):
            acc = accessor_projection(self.prog, self.fn.crate, callee)
            if acc is not None:
                t = args[0]
                t = t[1] if t[0] == "ref" else ("deref", t)
                for e in acc:
                    t = self.project(t, e, stack)
                return ("ref", t)
        if callee in LEN_FNS and len(args) == 1:
            return ("len", strip_refs(args[0]))
        return ("call", callee, args)

    def promoted_value(self):
        """value of a promoted constant body (= term of the return place)."""
        # `_0` is assigned exactly once in promoted bodies
        fn = self.fn
        for blk in fn.blocks:
            for s in blk.stmts:
                if "a" in s and mk_place(s["a"]) == (0, ()):
                    return self.rvalue(s["rv"])
        return ("const", ("opaque", "promoted"))


# ---------------------------------------------------------------------------
_ACC = {}


def accessor_projection(prog, crate, callee):
    """If `callee` is a pure projection accessor – a one-parameter function whose only normal return is
    `&mut (*param as Variant).field` (other arms diverge, e.g. `_ => unreachable!()`) – return the
    projection list after the parameter's deref; else None.  Lets `*s.get_x()` be identified with
    `s.<Variant>.x`."""
    key = (crate, callee)
    if key in _ACC:
        return _ACC[key]
    res = None
    f = prog.get(crate, callee) if prog is not None else None
    if f is not None and f.argc == 1 and f.kind == "assoc" and f.locals[0]["ty"].startswith("&") and len(f.blocks) < 40:
        tb = TermBuilder(f, None)
        cands = []
        ok = True
        for blk in f.blocks:
            if blk.cleanup or blk.idx not in f.reachable:
                continue
            for st in blk.stmts:
                if "a" in st and mk_place(st["a"]) == (0, ()):
                    rv = st["rv"]
                    if "ref" in rv:
                        cands.append(mk_place(rv["ref"]))
                    elif "use" in rv and ("mv" in rv["use"] or "cp" in rv["use"]):
                        # `_0 = move _x` where _x = &mut place
                        src = mk_place(rv["use"].get("mv") or rv["use"].get("cp"))
                        d = tb.defs.get(src[0], [])
                        if not src[1] and len(d) == 1 and d[0][0] == "stmt":
                            rv2 = f.blocks[d[0][1]].stmts[d[0][2]]["rv"]
                            if "ref" in rv2:
                                cands.append(mk_place(rv2["ref"]))
                            else:
                                ok = False
                        else:
                            ok = False
                    else:
                        ok = False
            if "call" in blk.term and blk.term["call"]["target"] is not None:
                ok = False  # calls something that returns: not a pure projection
        # resolve chains of reborrows: candidates must be rooted at the parameter
        def root(pl, depth=0):
            l, proj = pl
            if l == 1:
                return proj
            d = tb.defs.get(l, [])
            if depth < 6 and len(d) == 1 and d[0][0] == "stmt":
                rv2 = f.blocks[d[0][1]].stmts[d[0][2]]["rv"]
                if "ref" in rv2 and proj and proj[0] == ("deref",):
                    base = root(mk_place(rv2["ref"]), depth + 1)
                    if base is not None:
                        return base + proj[1:]
                if "use" in rv2 and ("mv" in rv2["use"] or "cp" in rv2["use"]):
                    base = root(mk_place(rv2["use"].get("mv") or rv2["use"].get("cp")), depth + 1)
                    if base is not None:
                        return base + proj
            return None
        projs = set()
        for c_ in cands:
            r = root(c_)
            if r is None or not r or r[0] != ("deref",) or any(e[0] not in ("f", "dc", "deref") for e in r):
                ok = False
            else:
                projs.add(tuple(r[1:]))
        if ok and len(projs) == 1 and next(iter(projs)):
            res = list(next(iter(projs)))
    _ACC[key] = res
    return res


# ---------------------------------------------------------------------------
# term utilities


def subterms(t):
    yield t
    if isinstance(t, tuple):
        for x in t[1:]:
            if isinstance(x, tuple):
                if x and isinstance(x[0], str):
                    yield from subterms(x)
                else:
                    for y in x:
                        if isinstance(y, tuple):
                            yield from subterms(y)


def contains(t, pred):
    return any(pred(s) for s in subterms(t))


def strip_refs(t):
    while isinstance(t, tuple) and t and t[0] in ("ref",):
        t = t[1]
    return t


def strip_casts(t):
    while isinstance(t, tuple) and t:
        if t[0] == "cast":
            t = t[2]
        elif t[0] == "call" and (t[1] in CONV_FNS or _CONV_RE.search(t[1])) and len(t[2]) == 1:
            t = t[2][0]
        else:
            break
    return t


LEN_FNS = {"core::slice::<impl [T]>::len", "std::vec::Vec::<T, A>::len", "core::str::<impl str>::len"}

import re as _re
_CONV_RE = _re.compile(r"impl std::convert::From<\w+> for \w+>::from$")

CONV_FNS = {
    "<usize as std::convert::From<u8>>::from",
    "<usize as std::convert::From<u16>>::from",
    "<u32 as std::convert::From<u8>>::from",
    "<u32 as std::convert::From<u16>>::from",
    "<u64 as std::convert::From<u32>>::from",
    "<u64 as std::convert::From<u8>>::from",
    "<u16 as std::convert::From<u8>>::from",
    "<T as std::convert::Into<U>>::into",
    "std::convert::Into::into",
    "<T as std::convert::From<T>>::from",
}


def field_path(t):
    """('field',('field',('deref',('arg','self')),'p'),'address') -> ('self', 'p', 'address'); None if not a pure path."""
    out = []
    while True:
        if not isinstance(t, tuple):
            return None
        if t[0] == "field":
            out.append(t[2])
            t = t[1]
        elif t[0] in ("deref", "ref"):
            t = t[1]
        elif t[0] == "dc":
            out.append("<" + t[2] + ">")
            t = t[1]
        elif t[0] == "arg":
            out.append(str(t[1]))
            break
        elif t[0] == "upvar":
            out.append(str(t[1]))
            break
        elif t[0] == "local":
            out.append(str(t[2] if t[2] else "_%d" % t[1]))
            break
        elif t[0] == "env":
            out.append("<env>")
            break
        else:
            return None
    return tuple(reversed(out))


def path_str(t):
    p = field_path(t)
    return ".".join(p) if p else None


def show(t, depth=0):
    """compact human-readable rendering for evidence / replay files"""
    if not isinstance(t, tuple) or not t:
        return repr(t)
    p = path_str(t)
    if p is not None:
        return p
    k = t[0]
    if k == "const":
        return repr(t[1]) if not isinstance(t[1], tuple) else ":".join(str(x) for x in t[1])
    if depth > 6:
        return "…"
    if k == "call":
        return "%s(%s)" % (t[1].split("::")[-1] if "::" in t[1] else t[1], ", ".join(show(a, depth + 1) for a in t[2]))
    if k == "bin":
        return "(%s %s %s)" % (show(t[2], depth + 1), t[1], show(t[3], depth + 1))
    if k == "cmp":
        return "(%s %s %s)" % (show(t[2], depth + 1), t[1], show(t[3], depth + 1))
    if k == "un":
        return "%s(%s)" % (t[1], show(t[2], depth + 1))
    if k == "cast":
        return "%s as %s" % (show(t[2], depth + 1), t[3])
    if k == "discr":
        return "discr(%s)" % show(t[1], depth + 1)
    if k == "agg":
        return "%s%s(%s)" % (str(t[1]).split("::")[-1], "::" + t[2] if t[2] else "", ", ".join(show(a, depth + 1) for a in t[3]))
    if k in ("ref", "deref", "len"):
        return "%s(%s)" % (k, show(t[1], depth + 1))
    if k == "index":
        return "%s[%s]" % (show(t[1], depth + 1), show(t[2], depth + 1))
    if k == "cidx":
        return "%s[%s%d]" % (show(t[1], depth + 1), "-" if t[3] else "", t[2])
    return "%s(%s)" % (k, ", ".join(show(a, depth + 1) if isinstance(a, tuple) else str(a) for a in t[1:]))


def simplify(t):
    """strip checked-arithmetic wrappers and fold constants: field((a AddWithOverflow b),0) -> (a Add b); (1 Shl 6) -> 64"""
    if not isinstance(t, tuple) or not t:
        return t
    if t[0] == "field" and t[2] == "0" and isinstance(t[1], tuple) and t[1] and t[1][0] == "bin" and "WithOverflow" in t[1][1]:
        return simplify(("bin", t[1][1].replace("WithOverflow", ""), t[1][2], t[1][3]))
    if t[0] == "const":
        return t
    t = tuple(simplify(x) if isinstance(x, tuple) and x and isinstance(x[0], str) else
              (tuple(simplify(y) for y in x) if isinstance(x, tuple) else x) for x in t)
    if t[0] == "bin" and t[2][0] == "const" and t[3][0] == "const" and isinstance(t[2][1], int) and isinstance(t[3][1], int) \
            and not isinstance(t[2][1], bool) and not isinstance(t[3][1], bool):
        a, b = t[2][1], t[3][1]
        op = t[1].replace("Unchecked", "")
        try:
            v = {"Add": a + b, "Sub": a - b, "Mul": a * b, "Shl": a << b if 0 <= b < 128 else None, "Shr": a >> b if 0 <= b < 128 else None,
                 "BitAnd": a & b, "BitOr": a | b, "BitXor": a ^ b}.get(op)
        except Exception:
            v = None
        if v is not None:
            return ("const", v)
    if t[0] == "cast" and t[2][0] == "const" and isinstance(t[2][1], int) and t[1] == "IntToInt":
        return t[2]
    return t


def flatten(t, op):
    """operands of a left/right-nested commutative operator tree"""
    t = strip_casts(t) if op != "cast" else t
    if t[0] == "bin" and t[1] == op:
        return flatten(t[2], op) + flatten(t[3], op)
    return [t]
