"""dom_num: intervals + zones (difference-bound constraints) over MIR integer places and slice lengths.

A forward abstract interpreter over one MIR body.  The abstract state is a bounded disjunction of
zones (trace partitioning with a cap, merged by the zone join when the cap is exceeded) plus a map of
boolean temporaries to the comparison that defined them.  Every MIR `Assert` terminator and every
call with a numeric precondition (range slicing, copy_from_slice, int / array `try_from(..).unwrap()`,
split_at) is an *obligation*; the analysis records whether the precondition is entailed on every path.

Values are mathematical integers; type ranges are added when a value is produced, overflow is what the
Assert obligations check.  Memory integer fields reached through reference parameters are tracked as
variables too and forgotten at calls that receive a `&mut` argument.
"""
import os
import re

from .ir import mk_place, mk_operand
from .terms import LEN_FNS

INF = float("inf")
Z = ("Z",)

INT_RANGES = {
    "u8": (0, 2**8 - 1), "u16": (0, 2**16 - 1), "u32": (0, 2**32 - 1), "u64": (0, 2**64 - 1),
    "u128": (0, 2**128 - 1), "usize": (0, 2**64 - 1),
    "i8": (-2**7, 2**7 - 1), "i16": (-2**15, 2**15 - 1), "i32": (-2**31, 2**31 - 1), "i64": (-2**63, 2**63 - 1),
    "i128": (-2**127, 2**127 - 1), "isize": (-2**63, 2**63 - 1),
}
LEN_MAX = 2**63 - 1
MAX_DISJ = 24


def int_range(ty):
    return INT_RANGES.get(ty)


def is_slice_ref(ty):
    return bool(re.match(r"^(&(mut )?(\'\w+ )?|\*const |\*mut )\[[^;\]]+\]$", ty)) or ty in ("&str", "&mut str") \
        or bool(re.match(r"^&(mut )?(\'\w+ )?bitvec::slice::BitSlice(<.*>)?$", ty))  # bit slices: the tracked length is the number of bits


def array_len(ty):
    m = re.match(r"^(&(mut )?)?\[.*; (\d+)\]$", ty)
    return int(m.group(3)) if m else None


class Zone:
    """closed difference-bound matrix, sparse: rows[x][y] = c  means  x - y <= c  (cols is the transpose)"""
    __slots__ = ("rows", "cols", "bottom")

    def __init__(self, rows=None, cols=None):
        self.rows = rows if rows is not None else {}
        self.cols = cols if cols is not None else {}
        self.bottom = False

    def copy(self):
        z = Zone({x: dict(r) for x, r in self.rows.items()}, {y: dict(c) for y, c in self.cols.items()})
        z.bottom = self.bottom
        return z

    def items(self):
        for x, r in self.rows.items():
            for y, c in r.items():
                yield (x, y), c

    def key(self):
        return frozenset(self.items()) if not self.bottom else "BOT"

    def get(self, x, y):
        if x == y:
            return 0
        r = self.rows.get(x)
        if r is None:
            return INF
        return r.get(y, INF)

    def vars(self):
        return set(self.rows) | set(self.cols)

    def _set(self, x, y, c):
        self.rows.setdefault(x, {})[y] = c
        self.cols.setdefault(y, {})[x] = c

    def add(self, x, y, c):
        """add x - y <= c and re-close incrementally"""
        if self.bottom or c == INF:
            return
        if x == y:
            if c < 0:
                self.bottom = True
            return
        if self.get(x, y) <= c:
            return
        if self.get(y, x) + c < 0:
            self.bottom = True
            return
        ins = list(self.cols.get(x, {}).items())  # i - x <= a
        ins.append((x, 0))
        outs = list(self.rows.get(y, {}).items())  # y - j <= b
        outs.append((y, 0))
        for i, a in ins:
            ri = self.rows.get(i)
            for j, b in outs:
                n = a + c + b
                if i == j:
                    if n < 0:
                        self.bottom = True
                        return
                    continue
                if ri is None or n < ri.get(j, INF):
                    self._set(i, j, n)
                    ri = self.rows.get(i)

    def forget(self, x):
        if self.bottom:
            return
        r = self.rows.pop(x, None)
        if r:
            for y in r:
                cy = self.cols.get(y)
                if cy is not None:
                    cy.pop(x, None)
                    if not cy:
                        del self.cols[y]
        c = self.cols.pop(x, None)
        if c:
            for i in c:
                ri = self.rows.get(i)
                if ri is not None:
                    ri.pop(x, None)
                    if not ri:
                        del self.rows[i]

    def forget_many(self, pred):
        if self.bottom:
            return
        for v in [v for v in self.vars() if pred(v)]:
            self.forget(v)

    def lo(self, x):
        return -self.get(Z, x)

    def hi(self, x):
        return self.get(x, Z)

    def set_interval(self, x, lo, hi):
        if hi is not None and hi != INF:
            self.add(x, Z, hi)
        if lo is not None and lo != -INF:
            self.add(Z, x, -lo)

    def rename(self, old, new):
        its = list(self.items())
        self.rows, self.cols = {}, {}
        for (x, y), c in its:
            self._set(new if x == old else x, new if y == old else y, c)

    def join(self, o):
        if self.bottom:
            return o.copy()
        if o.bottom:
            return self.copy()
        z = Zone()
        for x, r in self.rows.items():
            ro = o.rows.get(x)
            if not ro:
                continue
            for y, c in r.items():
                w = ro.get(y)
                if w is not None:
                    z._set(x, y, max(c, w))
        return z

    def leq(self, o):
        """self ⊑ o (self entails every constraint of o)"""
        if self.bottom:
            return True
        if o.bottom:
            return False
        for x, r in o.rows.items():
            rs = self.rows.get(x, {})
            for y, c in r.items():
                if rs.get(y, INF) > c:
                    return False
        return True

    def restrict_to_stable(self, new):
        """widening: keep constraints of self that new still satisfies"""
        z = Zone()
        for (x, y), c in self.items():
            if new.get(x, y) <= c:
                z._set(x, y, c)
        return z


class St:
    """one disjunct: zone + boolean temporaries + pending try_from results"""
    __slots__ = ("z", "bools", "pend")

    def __init__(self, z=None, bools=None, pend=None):
        self.z = z or Zone()
        self.bools = bools or {}
        self.pend = pend or {}

    def copy(self):
        return St(self.z.copy(), dict(self.bools), dict(self.pend))

    def key(self):
        return (self.z.key(), frozenset(self.bools.items()), repr(sorted(self.pend.items())))


def place_var(pl):
    """variable naming an integer place; None when the place goes through an index"""
    l, proj = pl
    for e in proj:
        if e[0] not in ("deref", "f", "dc"):
            return None
    return ("v", l, proj)


def bit_len_of_type(ty):
    """number of bits of a bitvec BitArray type like `&bitvec::array::BitArray<[usize; 2]>`"""
    m = re.search(r"BitArray<\[(\w+); (\d+)\]", ty)
    if not m:
        return None
    w = {"u8": 8, "u16": 16, "u32": 32, "u64": 64, "usize": 64}.get(m.group(1))
    return w * int(m.group(2)) if w else None


_GETTERS = {}


def getter_projection(prog, crate, callee):
    """(by_ref, projection) when `callee` is a one-parameter local function whose body only returns a copy of a field path of
    its parameter; else None"""
    key = (crate, callee)
    if key in _GETTERS:
        return _GETTERS[key]
    res = None
    f = prog.get(crate, callee)
    if f is not None and f.argc == 1 and len(f.blocks) <= 3 and not any("call" in b.term for b in f.blocks if not b.cleanup):
        srcs = []
        for b in f.blocks:
            if b.cleanup:
                continue
            for s in b.stmts:
                if "a" in s and mk_place(s["a"]) == (0, ()):
                    u = s["rv"].get("use") or {}
                    pj = u.get("cp") or u.get("mv")
                    srcs.append(mk_place(pj) if pj is not None else None)
                elif "a" in s:
                    srcs.append(None)
        if len(srcs) == 1 and srcs[0] is not None and srcs[0][0] == 1 and all(e[0] in ("deref", "f") for e in srcs[0][1]):
            proj = srcs[0][1]
            by_ref = f.locals[1]["ty"].startswith("&")
            if by_ref and proj and proj[0] == ("deref",):
                res = (True, proj[1:])
            elif not by_ref:
                res = (False, proj)
    _GETTERS[key] = res
    return res


def discr_var(pl):
    """variable holding the variant index of an enum place"""
    l, proj = pl
    for e in proj:
        if e[0] not in ("deref", "f", "dc"):
            return None
    return ("v", l, proj + (("discr",),))


def len_var(pl):
    l, proj = pl
    for e in proj:
        if e[0] not in ("deref", "f", "dc"):
            return None
    # normalise away a trailing deref: len of `*r` is the len carried by the reference `r`
    while proj and proj[-1] == ("deref",):
        proj = proj[:-1]
    return ("len", l, proj)


def is_mem(v):
    return isinstance(v, tuple) and len(v) == 3 and v[0] in ("v", "len", "mlen") and any(e == ("deref",) for e in v[2])


def forward_refs(fn):
    """MIR normalisation for the numeric domain: a place `(*_r).rest`, where `_r` is a reference local with exactly one definition
    `_r = &P` / `&mut P` (or a move / reborrow of such a local), is rewritten to `P.rest`.  Values reached through different references
    to the same place then share one variable (`match x { V { n } if n > k => .., V { .. } => helper(&mut x) }` and the `*n += 1` in the
    helper talk about the same `n`).  Exactness: a reference names the storage it was created from, so the rewrite is exact when P is
    rooted at a local without a leading deref; with a leading deref the pointer dereferenced must be a never-assigned parameter or itself
    a forwarded reference.  Block and statement indices are unchanged."""
    import copy
    from .ir import Fn
    j = fn.j
    ndefs, partial = {}, set()
    refdef = {}
    for blk in j["blocks"]:
        for s_ in blk["s"]:
            if "a" in s_:
                l, pr = s_["a"]["l"], s_["a"].get("p") or []
                if pr:
                    if pr[0] != "deref":
                        partial.add(l)
                    continue
                ndefs[l] = ndefs.get(l, 0) + 1
                refdef[l] = s_["rv"]
        c = blk["t"].get("call") if isinstance(blk["t"], dict) else None
        if c is not None and not (c["dest"].get("p") or []):
            ndefs[c["dest"]["l"]] = ndefs.get(c["dest"]["l"], 0) + 1
            refdef[c["dest"]["l"]] = None
    argc = j["argc"]
    target = {}

    def simple(pr):
        return all(e == "deref" or (isinstance(e, dict) and ("f" in e or "dc" in e)) for e in pr) and "deref" not in pr[1:]

    def resolve(l, depth=0):
        if l in target:
            return target[l]
        target[l] = None
        rv = refdef.get(l)
        if depth > 8 or ndefs.get(l) != 1 or rv is None or l in partial or not fn.locals[l]["ty"].startswith("&"):
            return None
        res = None
        if "ref" in rv:
            P = rv["ref"]
            pr = P.get("p") or []
            if simple(pr):
                if not pr or pr[0] != "deref":
                    res = {"l": P["l"], "p": list(pr)}
                else:
                    q = P["l"]
                    if 1 <= q <= argc and q not in ndefs and q not in partial:
                        res = {"l": q, "p": list(pr)}
                    else:
                        tq = resolve(q, depth + 1)
                        if tq is not None and "deref" not in pr[1:] and simple((tq.get("p") or []) + pr[1:]):
                            res = {"l": tq["l"], "p": list(tq.get("p") or []) + list(pr[1:])}
        elif "use" in rv and ("mv" in rv["use"] or "cp" in rv["use"]):
            src = rv["use"].get("mv") or rv["use"].get("cp")
            sp = src.get("p") or []
            if not sp:
                res = resolve(src["l"], depth + 1)
            elif sp and all(isinstance(e_, dict) and "f" in e_ for e_ in sp) and 1 <= src["l"] <= argc and src["l"] not in ndefs and src["l"] not in partial:
                # `_x = copy env.i` with `env` a never-assigned by-value parameter (a closure environment): `_x` points to `*(env.i)`
                res = {"l": src["l"], "p": list(sp) + ["deref"]}
            elif len(sp) == 1 and isinstance(sp[0], dict) and "f" in sp[0] and str(sp[0]["f"]).isdigit():
                # `_x = copy env.i` where env is (a move of) a single-definition tuple / closure environment built from reference `q`
                a = src["l"]
                for _ in range(6):
                    rv2 = refdef.get(a)
                    if rv2 is None or ndefs.get(a) != 1:
                        a = None
                        break
                    if rv2.get("agg") in ("closure", "tuple"):
                        break
                    u2 = (rv2.get("use") or {}).get("mv") or (rv2.get("use") or {}).get("cp") if "use" in rv2 else None
                    if u2 is None or (u2.get("p") or []):
                        a = None
                        break
                    a = u2["l"]
                if a is not None and a not in partial:
                    ops = refdef[a].get("fields") or []
                    i_ = int(sp[0]["f"])
                    if i_ < len(ops):
                        pj = ops[i_].get("mv") or ops[i_].get("cp")
                        if pj is not None and not (pj.get("p") or []):
                            q = pj["l"]
                            if 1 <= q <= argc and q not in ndefs and q not in partial:
                                # the operand is the (stable) reference parameter itself: `(*_x).rest` == `(*q).rest`
                                target[l] = {"l": q, "p": ["deref"]}
                                return target[l]
                            res = resolve(q, depth + 1)
        target[l] = res
        return res
    for l in list(refdef):
        resolve(l)
    live = {l: t for l, t in target.items() if t is not None}
    # single-definition tuples / closure environments: component i *is* the operand it was built from (while that operand is stable)
    aggdef = {}
    for l, rv in refdef.items():
        if rv is not None and ndefs.get(l) == 1 and l not in partial and rv.get("agg") in ("closure", "tuple"):
            ops = []
            for o in rv.get("fields") or []:
                pj = o.get("mv") or o.get("cp")
                q = pj["l"] if pj is not None and not (pj.get("p") or []) else None
                stable = q is not None and q not in partial and ((1 <= q <= argc and q not in ndefs) or ndefs.get(q) == 1)
                ops.append(q if stable else None)
            if any(o is not None for o in ops):
                aggdef[l] = ops
    if not live and not aggdef:
        return fn
    nj = dict(j)
    nj["blocks"] = copy.deepcopy(j["blocks"])

    def rewrite(x):
        if isinstance(x, dict):
            if "l" in x and isinstance(x["l"], int) and not isinstance(x["l"], bool):
                for _ in range(6):
                    pr = x.get("p") or []
                    if pr and pr[0] == "deref" and x["l"] in live:
                        t = live[x["l"]]
                        x["p"] = copy.deepcopy(t.get("p") or []) + pr[1:]
                        x["l"] = t["l"]
                        continue
                    if len(pr) >= 2 and x["l"] in aggdef and isinstance(pr[0], dict) and "f" in pr[0] and str(pr[0]["f"]).isdigit() \
                            and int(pr[0]["f"]) < len(aggdef[x["l"]]) and aggdef[x["l"]][int(pr[0]["f"])] is not None and pr[1] == "deref":
                        # `(*(env.i)).rest` where env.i was built from the reference `q`: `(*q).rest`
                        x["l"] = aggdef[x["l"]][int(pr[0]["f"])]
                        x["p"] = pr[1:]
                        continue
                    break
                for e in x.get("p") or []:
                    if isinstance(e, dict):
                        rewrite(e)
                return
            for v in x.values():
                rewrite(v)
        elif isinstance(x, list):
            for v in x:
                rewrite(v)
    rewrite(nj["blocks"])
    g = Fn(fn.name, nj, fn.crate)
    g.forwarded = sorted(live)
    return g


class NumAnalysis:
    def __init__(self, fn, prog=None, hyps=None, entry_hook=None, max_disj=MAX_DISJ, pure_calls=(), partition_discr=False, ret_summary=None, local_inv=None, call_hook=None):
        self.fn = forward_refs(fn) if os.environ.get("VERIF_NO_REFFWD") is None else fn
        self.prog = prog
        self.hyps = hyps or []
        self.entry_hook = entry_hook
        self.call_hook = call_hook
        # partition_discr: start from one entry state per combination of the variants of (at most 3) Option/Result/enum
        # places reached from parameters whose discriminant the body tests - makes `usize::from(x.is_some())` exact per path
        self.partition_discr = partition_discr
        self.local_inv = local_inv  # optional callable(na, st, local, type): type invariants of a freshly defined local (call results)
        self.ret_summary = ret_summary  # optional callable(callee name) -> (lo, hi) of an integer return value, or None
        self.max_disj = max_disj
        self.pure_calls = tuple(pure_calls)
        self.obligations = {}  # (b, tag) -> dict
        self.entry = {}
        self.visits = {}
        self._run()

    def variant_index(self, adt, variant):
        if adt in ("std::option::Option", "core::option::Option"):
            return {"None": 0, "Some": 1}.get(variant)
        if adt in ("std::result::Result", "core::result::Result"):
            return {"Ok": 0, "Err": 1}.get(variant)
        if self.prog is not None and adt:
            vs = self.prog.enum_variants(self.fn.crate, adt)
            if vs and variant in vs:
                return vs.index(variant)
        return None

    # ------------------------------------------------------------------ types
    def place_ty(self, pj):
        ty = self.fn.locals[pj["l"]]["ty"]
        for e in pj.get("p", []):
            if e == "deref":
                ty = re.sub(r"^&(mut )?('\w+ )?", "", ty)
            elif isinstance(e, dict) and "f" in e:
                ty = e.get("ty", "?")
            elif isinstance(e, dict) and "dc" in e:
                pass
            elif isinstance(e, dict) and ("idx" in e or "cidx" in e):
                m = re.match(r"^\[(.*?)(; \d+)?\]$", ty)
                ty = m.group(1) if m else "?"
            else:
                ty = "?"
        return ty

    def op_ty(self, oj):
        if "k" in oj:
            return oj["k"].get("ty") or ("bool" if "bool" in oj["k"] else "?")
        return self.place_ty(oj.get("cp") or oj.get("mv"))

    # ------------------------------------------------------------------ expression evaluation
    def ev_operand(self, st, oj):
        """-> dict(lo, hi, rel=[(var, dlo, dhi)]) for an integer operand"""
        if "k" in oj:
            k = oj["k"]
            if "int" in k:
                c = int(k["int"])
                return dict(lo=c, hi=c, rel=[(Z, c, c)])
            if "bool" in k:
                c = 1 if k["bool"] else 0
                return dict(lo=c, hi=c, rel=[(Z, c, c)])
            return self.top(k.get("ty", "?"))
        pj = oj.get("cp") or oj.get("mv")
        return self.ev_place(st, pj)

    def ev_place(self, st, pj):
        pl = mk_place(pj)
        ty = self.place_ty(pj)
        v = place_var(pl)
        r = int_range(ty) or (-INF, INF)
        if v is None:
            return dict(lo=r[0], hi=r[1], rel=[])
        lo = max(st.z.lo(v), r[0])
        hi = min(st.z.hi(v), r[1])
        return dict(lo=lo, hi=hi, rel=[(v, 0, 0)])

    def top(self, ty):
        r = int_range(ty) or (-INF, INF)
        return dict(lo=r[0], hi=r[1], rel=[])

    def ev_len_of_ref(self, st, oj):
        """length value carried by a slice/array reference operand"""
        if "k" in oj:
            n = array_len(oj["k"].get("opaque", "") or "")
            if n is not None:
                return dict(lo=n, hi=n, rel=[(Z, n, n)])
            return dict(lo=0, hi=LEN_MAX, rel=[])
        pj = oj.get("cp") or oj.get("mv")
        ty = self.place_ty(pj)
        n = array_len(ty)
        if n is not None:
            return dict(lo=n, hi=n, rel=[(Z, n, n)])
        v = len_var(mk_place(pj))
        if v is None:
            return dict(lo=0, hi=LEN_MAX, rel=[])
        return dict(lo=max(0, st.z.lo(v)), hi=min(LEN_MAX, st.z.hi(v)), rel=[(v, 0, 0)])

    def diff_bounds(self, st, a, b):
        """bounds of a - b using relational info: returns (lo, hi)"""
        lo, hi = a["lo"] - b["hi"], a["hi"] - b["lo"]
        for (va, alo, ahi) in a["rel"]:
            for (vb, blo, bhi) in b["rel"]:
                # a = va + [alo,ahi], b = vb + [blo,bhi]  => a-b = (va - vb) + [alo-bhi, ahi-blo]
                d_hi = st.z.get(va, vb)
                d_lo = -st.z.get(vb, va)
                if d_hi != INF and ahi is not None and blo is not None:
                    hi = min(hi, d_hi + ahi - blo)
                if d_lo != -INF and alo is not None and bhi is not None:
                    lo = max(lo, d_lo + alo - bhi)
        return lo, hi

    def ev_bin(self, st, op, aj, bj, ty):
        a = self.ev_operand(st, aj)
        b = self.ev_operand(st, bj)
        base = op.replace("WithOverflow", "").replace("Unchecked", "")
        res = None
        if base == "Add":
            rel = []
            if b["lo"] == b["hi"]:
                rel += [(v, lo + b["lo"] if lo is not None else None, hi + b["lo"] if hi is not None else None) for v, lo, hi in a["rel"]]
            else:
                rel += [(v, (lo + b["lo"]) if lo is not None and b["lo"] != -INF else None, (hi + b["hi"]) if hi is not None and b["hi"] != INF else None) for v, lo, hi in a["rel"]]
            if a["lo"] == a["hi"]:
                rel += [(v, lo + a["lo"] if lo is not None else None, hi + a["lo"] if hi is not None else None) for v, lo, hi in b["rel"]]
            else:
                rel += [(v, (lo + a["lo"]) if lo is not None and a["lo"] != -INF else None, (hi + a["hi"]) if hi is not None and a["hi"] != INF else None) for v, lo, hi in b["rel"]]
            res = dict(lo=a["lo"] + b["lo"], hi=a["hi"] + b["hi"], rel=rel)
        elif base == "Sub":
            lo, hi = self.diff_bounds(st, a, b)
            rel = []
            for v, rlo, rhi in a["rel"]:
                rel.append((v, (rlo - b["hi"]) if rlo is not None and b["hi"] != INF else None, (rhi - b["lo"]) if rhi is not None and b["lo"] != -INF else None))
            res = dict(lo=lo, hi=hi, rel=rel)
        elif base == "Mul":
            cands = []
            for x in (a["lo"], a["hi"]):
                for y in (b["lo"], b["hi"]):
                    if (x in (INF, -INF) and y == 0) or (y in (INF, -INF) and x == 0):
                        cands.append(0)
                    else:
                        cands.append(x * y)
            res = dict(lo=min(cands), hi=max(cands), rel=[])
        elif base == "Div":
            if b["lo"] == b["hi"] and b["lo"] > 0 and a["lo"] >= 0:
                res = dict(lo=a["lo"] // b["lo"], hi=(a["hi"] // b["lo"]) if a["hi"] != INF else INF, rel=[])
            elif b["lo"] > 0 and a["lo"] >= 0:
                res = dict(lo=0, hi=a["hi"], rel=[])
        elif base == "Rem":
            if b["lo"] > 0 and a["lo"] >= 0:
                res = dict(lo=0, hi=min(a["hi"], b["hi"] - 1), rel=[(v, None, 0) for v, lo, hi in a["rel"] if hi is not None and hi <= 0] if False else [])
        elif base == "BitAnd":
            if a["lo"] >= 0 and b["lo"] >= 0:
                res = dict(lo=0, hi=min(a["hi"], b["hi"]), rel=[])
            elif b["lo"] == b["hi"] and b["lo"] >= 0:
                res = dict(lo=0, hi=b["lo"], rel=[])
            elif a["lo"] == a["hi"] and a["lo"] >= 0:
                res = dict(lo=0, hi=a["lo"], rel=[])
        elif base == "BitOr" or base == "BitXor":
            if a["lo"] >= 0 and b["lo"] >= 0 and a["hi"] != INF and b["hi"] != INF:
                m = max(a["hi"], b["hi"])
                bits = int(m).bit_length()
                res = dict(lo=0 if base == "BitXor" else max(a["lo"], b["lo"]), hi=(1 << bits) - 1, rel=[])
        elif base == "Shr":
            if b["lo"] == b["hi"] and b["lo"] >= 0 and a["lo"] >= 0:
                k = int(b["lo"])
                res = dict(lo=int(a["lo"]) >> k, hi=(int(a["hi"]) >> k) if a["hi"] != INF else INF, rel=[])
            elif a["lo"] >= 0:
                res = dict(lo=0, hi=a["hi"], rel=[])
        elif base == "Shl":
            if b["lo"] == b["hi"] and b["lo"] >= 0 and a["lo"] >= 0 and a["hi"] != INF:
                k = int(b["lo"])
                res = dict(lo=int(a["lo"]) << k, hi=int(a["hi"]) << k, rel=[])
        if res is None:
            res = self.top(ty)
            res["wrapped"] = True
        return res, a, b

    # ------------------------------------------------------------------ state updates
    def assign_int(self, st, var, val, ty=None, clamp=True):
        z = st.z
        rels = [(v, lo, hi) for v, lo, hi in val["rel"] if v != var]
        self_rel = [(v, lo, hi) for v, lo, hi in val["rel"] if v == var]
        if self_rel:
            # x := x + [lo, hi]  (shift): compute via temporary
            lo, hi = self_rel[0][1], self_rel[0][2]
            tmp = ("tmp",)
            z.forget(tmp)
            if hi is not None:
                z.add(tmp, var, hi)
            if lo is not None:
                z.add(var, tmp, -lo)
            z.set_interval(tmp, val["lo"], val["hi"])
            for v, rlo, rhi in rels:
                if rhi is not None:
                    z.add(tmp, v, rhi)
                if rlo is not None:
                    z.add(v, tmp, -rlo)
            self.kill_var(st, var)
            z.rename(tmp, var)
        else:
            self.kill_var(st, var)
            for v, rlo, rhi in rels:
                if v != Z and not self.known_var(v):
                    continue
                if rhi is not None:
                    z.add(var, v, rhi)
                if rlo is not None:
                    z.add(v, var, -rlo)
            z.set_interval(var, val["lo"], val["hi"])
        if clamp and ty is not None:
            r = int_range(ty)
            if r and not val.get("nomod"):
                z.set_interval(var, r[0], r[1])

    def known_var(self, v):
        return True

    def kill_var(self, st, var):
        st.z.forget(var)
        for k in [k for k, (op, a, b) in st.bools.items() if var in (a, b) or k == var]:
            del st.bools[k]

    def kill_tree(self, st, l, proj=()):
        n = len(proj)

        def pred(v):
            return isinstance(v, tuple) and len(v) == 3 and v[0] in ("v", "len") and v[1] == l and v[2][:n] == proj
        for k in [k for k, (op, a, b) in st.bools.items() if pred(a) or pred(b) or pred(k)]:
            del st.bools[k]
        st.z.forget_many(pred)
        for k in [k for k in st.pend if k == l]:
            del st.pend[k]

    def copy_tree(self, st, src, dst):
        """copy all variables below place src to place dst (aggregate move/copy)"""
        sl, sp = src
        dl, dp = dst
        n = len(sp)
        vs = [v for v in st.z.vars() if isinstance(v, tuple) and len(v) == 3 and v[0] in ("v", "len") and v[1] == sl and v[2][:n] == sp]
        self.kill_tree(st, dl, dp)
        for v in vs:
            nv = (v[0], dl, dp + v[2][n:])
            if nv == v:
                continue
            st.z.add(nv, v, 0)
            st.z.add(v, nv, 0)
        if sl in st.pend and not sp and not dp:
            st.pend[dl] = st.pend[sl]

    def havoc_mem(self, st):
        st.z.forget_many(is_mem)
        for k in [k for k, (op, a, b) in st.bools.items() if is_mem(a) or is_mem(b)]:
            del st.bools[k]

    # ------------------------------------------------------------------ statements
    def moved_locals(self, j, out):
        """locals moved (consumed) by operands inside a statement/terminator JSON"""
        if isinstance(j, dict):
            if "mv" in j and isinstance(j["mv"], dict) and not j["mv"].get("p"):
                out.add(j["mv"]["l"])
            for v in j.values():
                self.moved_locals(v, out)
        elif isinstance(j, list):
            for v in j:
                self.moved_locals(v, out)

    def retire_local(self, st, l):
        """a moved-from temporary is dead: drop its variables, but keep what boolean temporaries still need
        (re-expressed over an equal surviving variable when one exists)"""
        def mine(v):
            return isinstance(v, tuple) and len(v) == 3 and v[0] in ("v", "len") and v[1] == l
        used = set()
        for k, (op, a, b) in st.bools.items():
            for x in (a, b):
                if mine(x):
                    used.add(x)
        keep = set()
        for x in used:
            alias = None
            for y, c in st.z.rows.get(x, {}).items():
                if c == 0 and y != Z and not mine(y) and st.z.get(y, x) == 0:
                    alias = y
                    break
            if alias is None:
                lo, hi = st.z.lo(x), st.z.hi(x)
                if lo == hi and lo not in (INF, -INF):
                    alias = ("c", int(lo))
            if alias is None:
                keep.add(x)
                continue
            for k, (op, a, b) in list(st.bools.items()):
                st.bools[k] = (op, alias if a == x else a, alias if b == x else b)
        if l in st.pend:
            return
        for v in [v for v in st.z.vars() if mine(v) and v not in keep]:
            st.z.forget(v)
        for k in [k for k in st.bools if mine(k)]:
            del st.bools[k]

    def do_stmt(self, st, s):
        self._do_stmt(st, s)
        mv = set()
        self.moved_locals(s.get("rv"), mv)
        for l in mv:
            if l > self.fn.argc and not (("a" in s) and s["a"]["l"] == l):
                self.retire_local(st, l)

    def _do_stmt(self, st, s):
        if "a" not in s:
            if "sd" in s:
                pl = mk_place(s["sd"])
                self.kill_tree(st, pl[0], tuple(e for e in pl[1]))
            return
        dj = s["a"]
        dpl = mk_place(dj)
        rv = s["rv"]
        dty = self.place_ty(dj)
        if any(e[0] in ("idx", "cidx", "sub") for e in dpl[1]):
            return  # element store: no tracked variable changes
        dvar = place_var(dpl)
        if dty == "bool":
            self.kill_tree(st, dpl[0], dpl[1])
            if "bin" in rv and rv["bin"] in ("Lt", "Le", "Gt", "Ge", "Eq", "Ne"):
                a = self.cmp_operand(st, rv["a"])
                b = self.cmp_operand(st, rv["b"])
                if a is not None and b is not None and dvar is not None:
                    st.bools[dvar] = (rv["bin"], a, b)
            elif "un" in rv and rv["un"] == "Not":
                src = rv["a"].get("cp") or rv["a"].get("mv")
                if src is not None:
                    sv = place_var(mk_place(src))
                    if sv in st.bools and dvar is not None:
                        op, a, b = st.bools[sv]
                        st.bools[dvar] = (NEG[op], a, b)
            elif "use" in rv and ("cp" in rv["use"] or "mv" in rv["use"]):
                sv = place_var(mk_place(rv["use"].get("cp") or rv["use"].get("mv")))
                if sv in st.bools and dvar is not None:
                    st.bools[dvar] = st.bools[sv]
            elif "use" in rv and "k" in rv["use"] and "bool" in rv["use"]["k"] and dvar is not None:
                # constant flag: an always-true / always-false comparison
                st.bools[dvar] = ("Eq", ("c", 1 if rv["use"]["k"]["bool"] else 0), ("c", 1))
            return
        if int_range(dty) is not None:
            val = self.ev_rvalue_int(st, rv, dty)
            if dvar is not None:
                self.assign_int(st, dvar, val, dty)
            return
        # references to slices / arrays: carry the length
        if is_slice_ref(dty) or array_len(dty) is not None:
            lv = len_var(dpl)
            src = None
            if "ref" in rv:
                src = {"cp": rv["ref"]}
            elif "rawptr" in rv:
                src = {"cp": rv["rawptr"]}
            elif "use" in rv:
                src = rv["use"]
            elif "cast" in rv:  # unsize &[T;N] -> &[T]
                src = rv["a"]
            if lv is not None:
                if src is not None:
                    val = self.ev_len_of_ref(st, src)
                else:
                    val = dict(lo=0, hi=LEN_MAX, rel=[])
                self.assign_int(st, lv, val, None, clamp=False)
            return
        # aggregates of tracked components
        if "agg" in rv and rv["agg"] in ("tuple", "adt"):
            self.kill_tree(st, dpl[0], dpl[1])
            if rv["agg"] == "adt" and rv.get("variant") is not None:
                vi = self.variant_index(rv.get("adt"), rv["variant"])
                dv = discr_var(dpl)
                if vi is not None and dv is not None:
                    st.z.set_interval(dv, vi, vi)
            names = rv.get("fnames") if rv["agg"] == "adt" else [str(i) for i in range(len(rv["fields"]))]
            if names and len(names) == len(rv["fields"]):
                for name, fo in zip(names, rv["fields"]):
                    fty = self.op_ty(fo)
                    fproj = dpl[1] + (("f", name),)
                    if int_range(fty) is not None:
                        self.assign_int(st, ("v", dpl[0], fproj), self.ev_operand(st, fo), fty)
                    elif is_slice_ref(fty):
                        self.assign_int(st, ("len", dpl[0], fproj), self.ev_len_of_ref(st, fo), None, clamp=False)
                    elif fty == "bool":
                        # a comparison result stored in a component (`match (a_ok, x == y)`) keeps its meaning
                        fpj = fo.get("cp") or fo.get("mv")
                        if fpj is not None:
                            sv = place_var(mk_place(fpj))
                            if sv in st.bools:
                                st.bools[("v", dpl[0], fproj)] = st.bools[sv]
                        elif "k" in fo and "bool" in (fo["k"] or {}):
                            st.bools[("v", dpl[0], fproj)] = ("Eq", ("c", 1 if fo["k"]["bool"] else 0), ("c", 1))
            return
        if "bin" in rv and "WithOverflow" in rv["bin"]:
            val, a, b = self.ev_bin(st, rv["bin"], rv["a"], rv["b"], rv.get("ty"))
            self.kill_tree(st, dpl[0], dpl[1])
            val = dict(val, nomod=True)
            self.assign_int(st, ("v", dpl[0], dpl[1] + (("f", "0"),)), val, None, clamp=False)
            return
        if "use" in rv and ("cp" in rv["use"] or "mv" in rv["use"]):
            spl = mk_place(rv["use"].get("cp") or rv["use"].get("mv"))
            if place_var(spl) is not None:
                self.copy_tree(st, spl, dpl)
                return
        self.kill_tree(st, dpl[0], dpl[1])

    def cmp_operand(self, st, oj):
        if "k" in oj:
            if "int" in oj["k"]:
                return ("c", int(oj["k"]["int"]))
            return None
        pj = oj.get("cp") or oj.get("mv")
        if int_range(self.place_ty(pj)) is None:
            return None
        return place_var(mk_place(pj))

    def ev_rvalue_int(self, st, rv, dty):
        if "use" in rv:
            return self.ev_operand(st, rv["use"])
        if "bin" in rv:
            val, a, b = self.ev_bin(st, rv["bin"], rv["a"], rv["b"], dty)
            r = int_range(dty)
            if r and (val["lo"] < r[0] or val["hi"] > r[1]):
                return self.top(dty)  # unchecked op that may wrap
            return val
        if "un" in rv:
            if rv["un"] == "PtrMetadata":
                return self.ev_len_of_ref(st, rv["a"])
            if rv["un"] == "Neg":
                a = self.ev_operand(st, rv["a"])
                return dict(lo=-a["hi"], hi=-a["lo"], rel=[])
            if rv["un"] == "Not":
                return self.top(dty)
        if "len" in rv:
            return self.ev_len_of_ref(st, {"cp": rv["len"]})
        if "cast" in rv and rv["cast"] == "IntToInt":
            a = self.ev_operand(st, rv["a"]) if int_range(self.op_ty(rv["a"])) is not None or self.op_ty(rv["a"]) == "bool" else self.top(dty)
            r = int_range(dty)
            if r and a["lo"] >= r[0] and a["hi"] <= r[1]:
                return a
            return self.top(dty)
        if "discr" in rv:
            d = discr_var(mk_place(rv["discr"]))
            if d is not None:
                n = max([int(k) for k in (rv.get("variants") or {}).keys()] or [0])
                return dict(lo=max(st.z.lo(d), 0), hi=min(st.z.hi(d), n), rel=[(d, 0, 0)])
            return self.top(dty)
        return self.top(dty)

    # ------------------------------------------------------------------ conditions
    def refine_cmp(self, st, op, a, b, truth):
        """refine zone with (a op b) == truth ; a,b are vars or ('c', n)"""
        if not truth:
            op = NEG[op]
        z = st.z

        def v(x):
            return (Z, x[1]) if x[0] == "c" else (x, 0)
        (va, ca), (vb, cb) = v(a), v(b)
        # (va + ca) op (vb + cb)
        if op == "Lt":
            z.add(va, vb, cb - ca - 1)
        elif op == "Le":
            z.add(va, vb, cb - ca)
        elif op == "Gt":
            z.add(vb, va, ca - cb - 1)
        elif op == "Ge":
            z.add(vb, va, ca - cb)
        elif op == "Eq":
            z.add(va, vb, cb - ca)
            z.add(vb, va, ca - cb)
        elif op == "Ne":
            # only boundary trimming
            d_hi = z.get(va, vb)  # va - vb <= d_hi
            d_lo = -z.get(vb, va)
            t = cb - ca
            if d_hi == t:
                z.add(va, vb, t - 1)
            if d_lo == t:
                z.add(vb, va, -(t + 1))

    def entails_cmp(self, st, op, a, b):
        z = st.z

        def v(x):
            return (Z, x[1]) if x[0] == "c" else (x, 0)
        (va, ca), (vb, cb) = v(a), v(b)
        d_hi = z.get(va, vb) + ca - cb  # (a - b) <= d_hi
        d_lo = -z.get(vb, va) + ca - cb  # (a - b) >= d_lo
        if op == "Lt":
            return d_hi <= -1
        if op == "Le":
            return d_hi <= 0
        if op == "Gt":
            return d_lo >= 1
        if op == "Ge":
            return d_lo >= 0
        if op == "Eq":
            return d_hi <= 0 and d_lo >= 0
        if op == "Ne":
            return d_hi <= -1 or d_lo >= 1
        return False

    # ------------------------------------------------------------------ obligations
    def oblige(self, b, tag, kind, ok, detail):
        key = (b, tag)
        cur = self.obligations.get(key)
        if cur is None:
            self.obligations[key] = dict(b=b, tag=tag, kind=kind, ok=ok, detail=detail)
        else:
            cur["ok"] = cur["ok"] and ok
            if not ok:
                cur["detail"] = detail

    def check_assert(self, st, b, t):
        kind = t["kind"]
        ops = t["ops"]
        ok = False
        detail = kind
        if kind == "BoundsCheck":
            ln = self.ev_operand(st, ops[0])
            ix = self.ev_operand(st, ops[1])
            lo, hi = self.diff_bounds(st, ix, ln)
            ok = hi <= -1 and ix["lo"] >= 0
            detail = "index %s < len %s (index-len ≤ %s)" % (fmt_itv(ix), fmt_itv(ln), hi)
        elif kind.startswith("Overflow("):
            op = kind[len("Overflow("):-1]
            ty = self.op_ty(ops[0])
            r = int_range(ty)
            if op in ("Shl", "Shr"):
                sh = self.ev_operand(st, ops[1])
                bits = {"u8": 8, "i8": 8, "u16": 16, "i16": 16, "u32": 32, "i32": 32, "u64": 64, "i64": 64, "usize": 64, "isize": 64, "u128": 128, "i128": 128}.get(ty, 0)
                ok = sh["lo"] >= 0 and sh["hi"] < bits
                detail = "shift amount %s < %d" % (fmt_itv(sh), bits)
            elif r is not None:
                val, a, bb = self.ev_bin(st, op, ops[0], ops[1], ty)
                ok = val["lo"] >= r[0] and val["hi"] <= r[1] and not val.get("wrapped")
                detail = "%s %s %s = %s within %s" % (fmt_itv(a), op, fmt_itv(bb), fmt_itv(val), ty)
        elif kind == "OverflowNeg":
            a = self.ev_operand(st, ops[0])
            r = int_range(self.op_ty(ops[0]))
            ok = r is not None and a["lo"] > r[0]
        elif kind in ("DivisionByZero", "RemainderByZero"):
            # the asserted condition is `!(divisor == 0)`; ops[0] is the *dividend* (only used in the panic message)
            pj = t["assert"].get("cp") or t["assert"].get("mv")
            var = place_var(mk_place(pj)) if pj is not None else None
            if var in st.bools:
                op, a, bb = st.bools[var]
                if not t["expected"]:
                    op = NEG[op]
                ok = self.entails_cmp(st, op, a, bb)

                def sh(x):
                    return str(x[1]) if x[0] == "c" else "[%s,%s]" % (st.z.lo(x), st.z.hi(x))
                detail = "divisor: %s %s %s must hold" % (sh(a), op, sh(bb))
            else:
                ok = False
                detail = "divisor not tracked"
        self.oblige(b, "assert", "assert:" + kind, ok, detail)

    # ------------------------------------------------------------------ calls
    def do_call(self, st, b, c):
        callee = c.get("callee") or ""
        args = c["args"]
        dj = c["dest"]
        dpl = mk_place(dj)
        dty = self.place_ty(dj)
        handled = False

        def set_dest_int(val):
            v = place_var(dpl)
            if v is not None:
                self.assign_int(st, v, val, dty if int_range(dty) else None, clamp=int_range(dty) is not None)

        def set_dest_len(val):
            v = len_var(dpl)
            if v is not None:
                self.assign_int(st, v, val, None, clamp=False)

        if callee in LEN_FNS and len(args) == 1:
            set_dest_int(self.ev_len_of_ref(st, args[0]))
            return
        # ---- bitvec: bit arrays of a fixed number of bits
        if "bitvec::" in callee:
            bl = bit_len_of_type(c["argtys"][0]) if c["argtys"] else None

            def bits_of_arg0():
                if bl is not None:
                    return dict(lo=bl, hi=bl, rel=[(Z, bl, bl)])
                pj0 = args[0].get("mv") or args[0].get("cp")
                v = ("len", pj0["l"], ()) if pj0 is not None and not pj0.get("p") else None
                if v is not None and st.z.hi(v) != INF:
                    return dict(lo=max(0, st.z.lo(v)), hi=st.z.hi(v), rel=[(v, 0, 0)])
                return None
            if re.search(r"impl std::ops::(Deref|DerefMut) for bitvec::array::BitArray<A, O>>::deref(_mut)?$", callee) and bl is not None and not dpl[1]:
                self.kill_tree(st, dpl[0], dpl[1])
                st.z.set_interval(("len", dpl[0], ()), bl, bl)
                return
            if re.search(r"impl std::ops::Index(Mut)?<Idx> for bitvec::(array::BitArray<A, O>|slice::BitSlice<T, O>)>::index(_mut)?$", callee) and len(args) == 2:
                base = bits_of_arg0()
                if base is None:
                    self.oblige(b, "call", "bit-index:len-unknown", None, "bit index into a bit slice of unknown length")
                    self.kill_tree(st, dpl[0], dpl[1])
                    return
                if int_range(c["argtys"][1]) is not None:
                    ix = self.ev_operand(st, args[1])
                    lo, hi = self.diff_bounds(st, ix, base)
                    self.oblige(b, "call", "bit-index:idx<len", hi <= -1 and ix["lo"] >= 0, "bit index %s < %s bits" % (fmt_itv(ix), fmt_itv(base)))
                    self.kill_tree(st, dpl[0], dpl[1])
                    return

                def set_bits(val):
                    if not dpl[1]:
                        self.assign_int(st, ("len", dpl[0], ()), val, None, clamp=False)
                self.index_call(st, b, c, args, set_bits, base=base)
                return
            if re.search(r"bitvec::slice::BitSlice::<T, O>::(set|replace|swap)$", callee) and len(args) >= 2:
                base = bits_of_arg0()
                ix = self.ev_operand(st, args[1])
                if base is None:
                    self.oblige(b, "call", "bit-set:len-unknown", None, "bit write into a bit slice of unknown length")
                else:
                    lo, hi = self.diff_bounds(st, ix, base)
                    self.oblige(b, "call", "bit-set:idx<len", hi <= -1 and ix["lo"] >= 0, "bit index %s < %s bits" % (fmt_itv(ix), fmt_itv(base)))
                self.kill_tree(st, dpl[0], dpl[1])
                return
            if re.search(r"impl bitvec::slice::BitSlice<T, O>>::get$", callee) and len(args) == 2 and not dpl[1]:
                base = bits_of_arg0()
                ix = self.ev_operand(st, args[1])
                self.kill_tree(st, dpl[0], dpl[1])
                if base is not None:
                    lo, hi = self.diff_bounds(st, ix, base)
                    st.pend[dpl[0]] = ("opt", hi <= -1 and ix["lo"] >= 0, "bit index %s < %s bits (BitSlice::get is Some)" % (fmt_itv(ix), fmt_itv(base)), None, None)
                return
        if callee.startswith("core::slice::index::<impl std::ops::Index") and len(args) == 2:
            self.index_call(st, b, c, args, set_dest_len)
            return
        if callee.endswith("::copy_from_slice") or callee.endswith("::clone_from_slice"):
            a = self.ev_len_of_ref(st, args[0])
            s_ = self.ev_len_of_ref(st, args[1])
            lo, hi = self.diff_bounds(st, a, s_)
            self.oblige(b, "call", "copy_from_slice:len-eq", lo == 0 and hi == 0, "len(dst) %s == len(src) %s (diff in [%s,%s])" % (fmt_itv(a), fmt_itv(s_), lo, hi))
            self.kill_tree(st, dpl[0], dpl[1])
            self.havoc_mem_keep_len(st)
            return
        if callee.endswith("::split_at") or callee.endswith("::split_at_mut"):
            a = self.ev_len_of_ref(st, args[0])
            m = self.ev_operand(st, args[1])
            lo, hi = self.diff_bounds(st, m, a)
            self.oblige(b, "call", "split_at:mid<=len", hi <= 0, "mid %s <= len %s" % (fmt_itv(m), fmt_itv(a)))
            self.kill_tree(st, dpl[0], dpl[1])
            return
        if re.match(r"^core::slice::<impl \[T\]>::is_empty$", callee) and len(args) == 1 and dty == "bool":
            self.kill_tree(st, dpl[0], dpl[1])
            pj = args[0].get("mv") or args[0].get("cp")
            lv = len_var(mk_place(pj)) if pj is not None else None
            dv = place_var(dpl)
            if lv is not None and dv is not None:
                st.z.set_interval(lv, max(0, st.z.lo(lv)), st.z.hi(lv))
                st.bools[dv] = ("Eq", lv, ("c", 0))
            return
        m_sl = re.match(r"^core::slice::<impl \[T\]>::(get|first|last|split_first|split_last)(?:_mut)?$", callee)
        if m_sl and args and discr_var(dpl) is not None:
            return self.slice_option_call(st, b, c, m_sl.group(1), args, dpl)
        if re.search(r"^<std::option::Option<T> as std::ops::Try>::branch$", callee) and len(args) == 1:
            # ControlFlow: Continue = 0 (from Some = 1, payload copied), Break = 1 (from None = 0)
            pj = args[0].get("mv") or args[0].get("cp")
            self.kill_tree(st, dpl[0], dpl[1])
            dv = discr_var(dpl)
            if pj is not None and dv is not None and discr_var(mk_place(pj)) is not None:
                spl = mk_place(pj)
                sd = discr_var(spl)
                # dv = 1 - sd
                some = st.copy()
                self.refine_cmp(some, "Eq", sd, ("c", 1), True)
                self.refine_cmp(st, "Eq", sd, ("c", 0), True)
                st.z.set_interval(dv, 1, 1)
                out = []
                if not some.z.bottom:
                    some.z.set_interval(dv, 0, 0)
                    self.copy_tree(some, (spl[0], spl[1] + (("dc", "Some"), ("f", "0"))), (dpl[0], dpl[1] + (("dc", "Continue"), ("f", "0"))))
                    out.append(some)
                return out
            return
        if re.search(r"as std::ops::FromResidual<std::option::Option<std::convert::Infallible>>>::from_residual$", callee):
            self.kill_tree(st, dpl[0], dpl[1])
            dv = discr_var(dpl)
            if dv is not None and dty.startswith("std::option::Option<"):
                st.z.set_interval(dv, 0, 0)
            return
        m_is = re.search(r"(?:Option::<T>::(is_some|is_none)|Result::<T, E>::(is_ok|is_err))$", callee)
        if m_is and len(args) == 1 and dty == "bool":
            self.kill_tree(st, dpl[0], dpl[1])
            pj = args[0].get("mv") or args[0].get("cp")
            root = self.ref_root_deep(mk_place(pj)) if pj is not None else None
            d = discr_var(root) if root is not None else None
            dv = place_var(dpl)
            if d is not None and dv is not None:
                which = m_is.group(1) or m_is.group(2)
                # Option: None=0 Some=1 ; Result: Ok=0 Err=1
                want = {"is_some": 1, "is_none": 0, "is_ok": 0, "is_err": 1}[which]
                st.z.set_interval(d, max(st.z.lo(d), 0), min(st.z.hi(d), 1))
                st.bools[dv] = ("Eq", d, ("c", want))
            return
        # integer conversions
        if re.search(r"impl std::convert::From<\w+> for \w+>::from$", callee) and len(args) == 1:
            if int_range(dty) is not None:
                aty = self.op_ty(args[0])
                if aty == "bool":
                    pj = args[0].get("mv") or args[0].get("cp")
                    bv = place_var(mk_place(pj)) if pj is not None else None
                    val = dict(lo=0, hi=1, rel=[])
                    if bv in st.bools:
                        op, a_, b_ = st.bools[bv]
                        if op == "Eq" and isinstance(b_, tuple) and b_[0] == "c" and isinstance(a_, tuple) and a_[0] == "v":
                            lo_, hi_ = st.z.lo(a_), st.z.hi(a_)
                            if b_[1] == 1 and lo_ >= 0 and hi_ <= 1:
                                val = dict(lo=lo_, hi=hi_, rel=[(a_, 0, 0)])
                            elif lo_ == hi_:
                                val = dict(lo=int(lo_ == b_[1]), hi=int(lo_ == b_[1]), rel=[(Z, int(lo_ == b_[1]), int(lo_ == b_[1]))])
                    set_dest_int(val)
                elif int_range(aty) is not None:
                    set_dest_int(self.ev_operand(st, args[0]))
                else:
                    set_dest_int(self.top(dty))
                return
        if callee in ("<T as std::convert::Into<U>>::into", "<T as std::convert::From<T>>::from", "std::convert::Into::into") and len(args) == 1 and int_range(dty) is not None and int_range(self.op_ty(args[0])) is not None:
            a = self.ev_operand(st, args[0])
            r = int_range(dty)
            set_dest_int(a if a["lo"] >= r[0] and a["hi"] <= r[1] else self.top(dty))
            return
        # try_from / try_into producing Result: remember the condition for the unwrap
        if ("std::convert::TryFrom" in callee and callee.endswith("::try_from")) or callee.endswith("std::convert::TryInto<U>>::try_into") or callee == "std::convert::TryInto::try_into":
            self.kill_tree(st, dpl[0], dpl[1])
            aty = self.op_ty(args[0])
            m = re.match(r"^std::result::Result<(.+?), ", dty)
            tgt = m.group(1) if m else None
            if tgt and int_range(tgt) is not None and int_range(aty) is not None and not dpl[1]:
                a = self.ev_operand(st, args[0])
                r = int_range(tgt)
                st.pend[dpl[0]] = ("int", a["lo"] >= r[0] and a["hi"] <= r[1], "%s fits %s" % (fmt_itv(a), tgt), self._freeze(a), tgt)
            elif tgt and array_len(tgt) is not None and not dpl[1]:
                ln = self.ev_len_of_ref(st, args[0])
                n = array_len(tgt)
                st.pend[dpl[0]] = ("arr", ln["lo"] == n and ln["hi"] == n, "len %s == %d" % (fmt_itv(ln), n), None, tgt)
            return
        if (callee.endswith("Option::<T>::unwrap") or callee.endswith("Option::<T>::expect")) and args:
            src = args[0].get("mv") or args[0].get("cp")
            if src is not None and mk_place(src)[0] in st.pend and not mk_place(src)[1] and st.pend[mk_place(src)[0]][0] == "opt":
                kind, ok, detail, frozen, tgt = st.pend[mk_place(src)[0]]
                self.oblige(b, "call", "option-unwrap:" + kind, ok, detail)
                self.kill_tree(st, dpl[0], dpl[1])
                return
        if (callee.endswith("Result::<T, E>::unwrap") or callee.endswith("Result::<T, E>::expect")) and args:
            src = args[0].get("mv") or args[0].get("cp")
            if src is not None and mk_place(src)[0] in st.pend and not mk_place(src)[1]:
                kind, ok, detail, frozen, tgt = st.pend[mk_place(src)[0]]
                self.oblige(b, "call", "try_from-unwrap:" + kind, ok, detail)
                self.kill_tree(st, dpl[0], dpl[1])
                if kind == "int" and frozen is not None and int_range(dty) is not None:
                    set_dest_int(frozen)
                return
            self.oblige(b, "call", "unwrap", None, "Result::unwrap on a value not produced by a tracked try_from")
            self.kill_tree(st, dpl[0], dpl[1])
            return
        # min / max
        if callee in ("std::cmp::Ord::min", "std::cmp::min", "core::cmp::Ord::min") and len(args) == 2 and int_range(dty) is not None:
            a, bb = self.ev_operand(st, args[0]), self.ev_operand(st, args[1])
            set_dest_int(dict(lo=min(a["lo"], bb["lo"]), hi=min(a["hi"], bb["hi"]),
                              rel=[(v, None, hi) for v, lo, hi in a["rel"] + bb["rel"] if hi is not None]))
            return
        if callee in ("std::cmp::Ord::max", "std::cmp::max", "core::cmp::Ord::max") and len(args) == 2 and int_range(dty) is not None:
            a, bb = self.ev_operand(st, args[0]), self.ev_operand(st, args[1])
            set_dest_int(dict(lo=max(a["lo"], bb["lo"]), hi=max(a["hi"], bb["hi"]),
                              rel=[(v, lo, None) for v, lo, hi in a["rel"] + bb["rel"] if lo is not None]))
            return
        # by-value getters of local types: `fn x(self) -> T { self.x }` / `fn x(&self) -> T { self.x }`
        if int_range(dty) is not None and len(args) == 1 and self.prog is not None:
            gp = getter_projection(self.prog, self.fn.crate, callee)
            if gp is not None:
                pj = args[0].get("mv") or args[0].get("cp")
                src = None
                if pj is not None:
                    apl = mk_place(pj)
                    if gp[0]:  # by reference: resolve what the reference points to
                        root = self.ref_root_deep(apl) if not apl[1] else None
                        if root is not None:
                            src = (root[0], root[1] + gp[1])
                    else:
                        src = (apl[0], apl[1] + gp[1])
                if src is not None and place_var(src) is not None:
                    v = place_var(src)
                    r = int_range(dty)
                    self.kill_tree(st, dpl[0], dpl[1])
                    set_dest_int(dict(lo=max(st.z.lo(v), r[0]), hi=min(st.z.hi(v), r[1]), rel=[(v, 0, 0)]))
                    return
        # everything else: destination unknown, memory possibly changed
        self.kill_tree(st, dpl[0], dpl[1])
        if self.local_inv is not None and not dpl[1]:
            self.local_inv(self, st, dpl[0], dty)
        if int_range(dty) is not None:
            rs = self.ret_summary(callee) if self.ret_summary is not None else None
            if rs is not None:
                r = int_range(dty)
                set_dest_int(dict(lo=max(rs[0], r[0]), hi=min(rs[1], r[1]), rel=[]))
            else:
                set_dest_int(self.top(dty))
        elif is_slice_ref(dty):
            set_dest_len(self.result_len(st, c))
        if not any(callee.startswith(p) for p in PURE_PREFIXES + self.pure_calls):
            for a, t in zip(c["args"], c["argtys"]):
                if "closure" in t:
                    if self.closure_captures_mut(a):
                        self.havoc_mem(st)
                        break
                    continue
                if t.startswith("&mut"):
                    if is_slice_ref(t):
                        continue  # a `&mut [T]` can change elements only: no tracked integer or length is reachable through it
                    pj = a.get("mv") or a.get("cp")
                    root = self.ref_root_deep(mk_place(pj)) if pj is not None else None
                    if root is not None and self._havoc_by_modset(st, c, a, root):
                        continue
                    if root is None or not any(e == ("deref",) for e in root[1]):
                        if root is None:
                            self.havoc_mem(st)
                            break
                        self.kill_tree(st, root[0], root[1])
                    else:
                        self.havoc_prefix(st, root)

    def _havoc_by_modset(self, st, c, a, root):
        """`&mut` argument of a *local* callee: forget only what the callee (transitively) writes below that parameter"""
        if self.prog is None or c.get("via") not in ("direct", "trait_impl", "trait_default"):
            return False
        target = self.prog.get(self.fn.crate, c.get("callee") or "")
        if target is None:
            return False
        if not hasattr(self.prog, "_numdom_modsets"):
            from .modset import ModSets
            self.prog._numdom_modsets = ModSets(self.prog)
        tm = self.prog._numdom_modsets.of(target)
        if tm is None:
            return False
        n = c["args"].index(a)
        if n + 1 > target.argc:
            return False
        pname = str(target.locals[n + 1].get("name") or (n + 1))

        def names(proj):
            return tuple(e[1] for e in proj if e[0] == "f")
        base = names(root[1])
        chains = [base + tuple(m[1:]) for m in tm if m and str(m[0]) == pname]
        l = root[0]

        def pred(v):
            if not (isinstance(v, tuple) and len(v) == 3 and v[0] in ("v", "len", "mlen") and v[1] == l):
                return False
            vn = names(v[2])
            for ch in chains:
                k = min(len(vn), len(ch))
                if vn[:k] == ch[:k]:
                    return True
            return False
        st.z.forget_many(pred)
        for k in [k for k, (op, x, y) in st.bools.items() if pred(x) or pred(y)]:
            del st.bools[k]
        return True

    def havoc_mem_keep_len(self, st):
        # copying bytes does not change lengths; integer fields cannot be reached through a byte slice
        pass

    def result_len(self, st, c):
        """length of a slice returned by a call: stable pseudo-variable for Deref on the same place"""
        callee = c.get("callee") or ""
        if callee.endswith("as std::ops::Deref>::deref") or callee.endswith("as std::ops::DerefMut>::deref_mut"):
            a = c["args"][0]
            pj = a.get("mv") or a.get("cp")
            if pj is not None:
                root = self.ref_root_deep(mk_place(pj))
                if root is not None:
                    v = ("mlen", root[0], root[1])
                    return dict(lo=max(0, st.z.lo(v)), hi=min(LEN_MAX, st.z.hi(v)), rel=[(v, 0, 0)])
        return dict(lo=0, hi=LEN_MAX, rel=[])

    def closure_captures_mut(self, a):
        """does the closure operand capture any `&mut` reference (looked up at its aggregate construction)?"""
        pj = a.get("mv") or a.get("cp")
        if pj is None or pj.get("p"):
            return True
        for blk in self.fn.blocks:
            for s in blk.stmts:
                if "a" in s and s["a"]["l"] == pj["l"] and not s["a"].get("p") and s["rv"].get("agg") == "closure":
                    return any(self.op_ty(f).startswith("&mut") for f in s["rv"]["fields"])
        return True

    def havoc_prefix(self, st, root):
        l, proj = root
        n = len(proj)

        def pred(v):
            return isinstance(v, tuple) and len(v) == 3 and v[0] in ("v", "len", "mlen") and v[1] == l and (v[2][:n] == proj or proj[:len(v[2])] == v[2])
        st.z.forget_many(pred)
        for k in [k for k, (op, a, b) in st.bools.items() if pred(a) or pred(b)]:
            del st.bools[k]

    def ref_root_deep(self, pl, depth=0):
        """follow reborrows `_x = &mut *_y` down to the place the reference was created from"""
        r = self.ref_root(pl)
        if r is None:
            return None
        if depth < 5 and r[1] == (("deref",),):
            deeper = self.ref_root_deep((r[0], ()), depth + 1)
            if deeper is not None:
                return deeper
            if 1 <= r[0] <= self.fn.argc:
                return r
        return r

    def ref_root(self, pl):
        """place a reference local was created from (`_x = &P` / `&mut P`), following one level"""
        l, proj = pl
        if proj:
            return None
        for blk in self.fn.blocks:
            for s in blk.stmts:
                if "a" in s and mk_place(s["a"]) == (l, ()) and "ref" in s["rv"]:
                    r = mk_place(s["rv"]["ref"])
                    if all(e[0] in ("deref", "f", "dc") for e in r[1]):
                        return r
                if "a" in s and mk_place(s["a"]) == (l, ()) and "use" in s["rv"] and ("cp" in s["rv"]["use"] or "mv" in s["rv"]["use"]):
                    # `_x = copy P` where P holds a reference (a captured `&T` in a closure environment): _x points to *P
                    pj = s["rv"]["use"].get("cp") or s["rv"]["use"].get("mv")
                    r = mk_place(pj)
                    if r[1] and self.place_ty(pj).startswith("&") and all(e[0] in ("deref", "f", "dc") for e in r[1]):
                        return (r[0], r[1] + (("deref",),))
        return None

    def _freeze(self, a):
        return dict(lo=a["lo"], hi=a["hi"], rel=list(a["rel"]))

    def index_call(self, st, b, c, args, set_dest_len, base=None):
        base = self.ev_len_of_ref(st, args[0]) if base is None else base
        rty = c["argtys"][1]
        rj = args[1].get("mv") or args[1].get("cp")
        dpl = mk_place(c["dest"])
        if rj is None or not re.match(r"^std::ops::Range", rty):
            self.oblige(b, "call", "index:unknown-range", None, "slice index with " + rty)
            self.kill_tree(st, dpl[0], dpl[1])
            set_dest_len(dict(lo=0, hi=base["hi"], rel=[]))
            return
        rpl = mk_place(rj)

        def fld(name):
            v = ("v", rpl[0], rpl[1] + (("f", name),))
            return dict(lo=max(0, st.z.lo(v)), hi=min(2**64 - 1, st.z.hi(v)), rel=[(v, 0, 0)])
        kind = rty.split("<")[0].split("::")[-1]
        self.kill_tree(st, dpl[0], dpl[1])
        if kind == "RangeFrom":
            s_ = fld("start")
            lo, hi = self.diff_bounds(st, s_, base)
            self.oblige(b, "call", "index:start<=len", hi <= 0, "start %s <= len %s" % (fmt_itv(s_), fmt_itv(base)))
            dlo, dhi = self.diff_bounds(st, base, s_)
            rel = []
            if s_["lo"] == s_["hi"]:
                rel = [(v, (lo_ - s_["lo"]) if lo_ is not None else None, (hi_ - s_["lo"]) if hi_ is not None else None) for v, lo_, hi_ in base["rel"]]
            else:
                rel = [(v, None, (hi_ - s_["lo"]) if hi_ is not None else None) for v, lo_, hi_ in base["rel"]]
            set_dest_len(dict(lo=max(0, dlo), hi=dhi, rel=rel))
        elif kind == "RangeTo":
            e = fld("end")
            lo, hi = self.diff_bounds(st, e, base)
            self.oblige(b, "call", "index:end<=len", hi <= 0, "end %s <= len %s" % (fmt_itv(e), fmt_itv(base)))
            set_dest_len(e)
        elif kind == "Range":
            s_, e = fld("start"), fld("end")
            lo, hi = self.diff_bounds(st, s_, e)
            self.oblige(b, "call", "index:start<=end", hi <= 0, "start %s <= end %s" % (fmt_itv(s_), fmt_itv(e)))
            lo2, hi2 = self.diff_bounds(st, e, base)
            self.oblige(b, "call2", "index:end<=len", hi2 <= 0, "end %s <= len %s" % (fmt_itv(e), fmt_itv(base)))
            dlo, dhi = self.diff_bounds(st, e, s_)
            rel = []
            if s_["lo"] == s_["hi"]:
                rel = [(v, (lo_ - s_["lo"]) if lo_ is not None else None, (hi_ - s_["lo"]) if hi_ is not None else None) for v, lo_, hi_ in e["rel"]]
            set_dest_len(dict(lo=max(0, dlo), hi=dhi, rel=rel))
        elif kind == "RangeFull":
            set_dest_len(base)
        else:
            self.oblige(b, "call", "index:unknown-range", None, "slice index with " + rty)
            set_dest_len(dict(lo=0, hi=base["hi"], rel=[]))

    def saturate(self, st):
        """exchange bounds between a length defined as a difference (`len(&s[i..]) == len(s) - i`, kept symbolically as a "Diff"
        entry because a zone cannot relate three variables) and the difference itself"""
        for k, (op, a, b) in list(st.bools.items()):
            if op != "Diff" or st.z.bottom:
                continue
            hi, lo = st.z.hi(k), st.z.lo(k)
            if hi != INF:
                st.z.add(a, b, hi)
            if lo != -INF:
                st.z.add(b, a, -lo)
            d_hi, d_lo = st.z.get(a, b), -st.z.get(b, a)
            if d_hi != INF:
                st.z.add(k, Z, d_hi)
            if d_lo != -INF:
                st.z.add(Z, k, -d_lo)

    def assume_le(self, st, a, b, k=0):
        """refine st with a - b <= k for abstract values (exact relations only); intervals are refined through Z"""
        for (va, alo, ahi) in a["rel"]:
            for (vb, blo, bhi) in b["rel"]:
                # a >= va + alo, b <= vb + bhi  =>  va - vb <= k - alo + bhi
                if alo is not None and bhi is not None:
                    st.z.add(va, vb, k - alo + bhi)
        if a["lo"] - b["hi"] > k:
            st.z.bottom = True
        self.saturate(st)

    def slice_option_call(self, st, b, c, which, args, dpl):
        """`[T]::get(i | range)`, `first()`, `last()`: the result is `Some` exactly when the index is in bounds; the None outcome is a
        separate state refined with the negated condition"""
        base = self.ev_len_of_ref(st, args[0])
        self.kill_tree(st, dpl[0], dpl[1])
        dv = discr_var(dpl)
        pay = (dpl[0], dpl[1] + (("dc", "Some"), ("f", "0")))
        one = dict(lo=1, hi=1, rel=[(Z, 1, 1)])
        none = st.copy()
        res_len = None
        diff_of = None
        if which in ("first", "last", "split_first", "split_last"):
            self.assume_le(st, one, base, 0)        # Some: 1 <= len
            self.assume_le(none, base, one, -1)     # None: len <= 0
        else:
            aty = c["argtys"][1]
            rj = args[1].get("mv") or args[1].get("cp")
            if int_range(aty) is not None:
                ix = self.ev_operand(st, args[1])
                self.assume_le(st, ix, base, -1)    # Some: i < len
                self.assume_le(none, base, self.ev_operand(none, args[1]), 0)
            elif rj is not None and aty.split("<")[0] == "std::ops::Range":
                # `get(a..b)`: Some exactly when a <= b and b <= len; the None outcome is one state per violated condition
                rpl = mk_place(rj)

                def fld2(s_, name):
                    v = ("v", rpl[0], rpl[1] + (("f", name),))
                    return dict(lo=max(0, s_.z.lo(v)), hi=min(2**64 - 1, s_.z.hi(v)), rel=[(v, 0, 0)])
                none2 = none.copy()
                s0, e0 = fld2(st, "start"), fld2(st, "end")
                self.assume_le(st, s0, e0, 0)
                self.assume_le(st, e0, base, 0)
                self.assume_le(none, fld2(none, "end"), fld2(none, "start"), -1)      # end < start
                self.assume_le(none2, self.ev_len_of_ref(none2, args[0]), fld2(none2, "end"), -1)  # len < end
                dlo, dhi = self.diff_bounds(st, e0, s0)
                rel = []
                if s0["lo"] == s0["hi"]:
                    rel = [(v, (lo_ - s0["lo"]) if lo_ is not None else None, (hi_ - s0["lo"]) if hi_ is not None else None) for v, lo_, hi_ in e0["rel"]]
                res_len = dict(lo=max(0, dlo), hi=dhi, rel=rel)
                st.z.set_interval(dv, 1, 1)
                if is_slice_ref(_option_payload(self.place_ty(c["dest"])) or ""):
                    self.assign_int(st, ("len",) + pay, res_len, None, clamp=False)
                out = []
                for n_ in (none, none2):
                    n_.z.set_interval(dv, 0, 0)
                    if not n_.z.bottom:
                        out.append(n_)
                if st.z.bottom and out:
                    n_ = out.pop()
                    st.z, st.bools, st.pend = n_.z, n_.bools, n_.pend
                return out
            elif rj is not None and re.match(r"^std::ops::Range(From|To|Full)?<?", aty) and aty.split("<")[0].split("::")[-1] in ("RangeFrom", "RangeTo", "RangeFull"):
                kind = aty.split("<")[0].split("::")[-1]
                rpl = mk_place(rj)

                def fld(s_, name):
                    v = ("v", rpl[0], rpl[1] + (("f", name),))
                    return dict(lo=max(0, s_.z.lo(v)), hi=min(2**64 - 1, s_.z.hi(v)), rel=[(v, 0, 0)])
                if kind == "RangeFrom":
                    s0 = fld(st, "start")
                    self.assume_le(st, s0, base, 0)                    # Some: start <= len
                    self.assume_le(none, base, fld(none, "start"), -1)  # None: len < start
                    dlo, dhi = self.diff_bounds(st, base, s0)
                    rel = []
                    if s0["lo"] == s0["hi"]:
                        rel = [(v, (lo_ - s0["lo"]) if lo_ is not None else None, (hi_ - s0["lo"]) if hi_ is not None else None) for v, lo_, hi_ in base["rel"]]
                    else:
                        rel = [(v, None, (hi_ - s0["lo"]) if hi_ is not None else None) for v, lo_, hi_ in base["rel"]]
                    res_len = dict(lo=max(0, dlo), hi=dhi, rel=rel)
                    bx = [v for v, lo_, hi_ in base["rel"] if lo_ == 0 and hi_ == 0 and v != Z]
                    sx = [v for v, lo_, hi_ in s0["rel"] if lo_ == 0 and hi_ == 0 and v != Z]
                    if bx and sx:
                        diff_of = (bx[0], sx[0])
                elif kind == "RangeTo":
                    e0 = fld(st, "end")
                    self.assume_le(st, e0, base, 0)
                    self.assume_le(none, base, fld(none, "end"), -1)
                    res_len = e0
                else:
                    none.z.bottom = True
                    res_len = base
            else:
                # two-ended or unknown index kinds: outcome not decided (both possible, nothing learned)
                st.z.set_interval(dv, 0, 1)
                return None
        st.z.set_interval(dv, 1, 1)
        none.z.set_interval(dv, 0, 0)
        if res_len is not None and is_slice_ref(_option_payload(self.place_ty(c["dest"])) or ""):
            self.assign_int(st, ("len",) + pay, res_len, None, clamp=False)
            if diff_of is not None:
                st.bools[("len",) + pay] = ("Diff",) + diff_of
        out = []
        if not none.z.bottom:
            out.append(none)
        if st.z.bottom:
            # the Some outcome is impossible: continue with the None state in place of st
            if out:
                n_ = out.pop()
                st.z, st.bools, st.pend = n_.z, n_.bools, n_.pend
        return out

    # ------------------------------------------------------------------ driver
    def init_state(self):
        st = St()
        fn = self.fn
        for l in range(1, fn.argc + 1):
            ty = fn.locals[l]["ty"]
            r = int_range(ty)
            if r:
                st.z.set_interval(("v", l, ()), r[0], r[1])
            if is_slice_ref(ty):
                v = ("len", l, ())
                st.z.set_interval(v, 0, LEN_MAX)
                g = ("ghost_len", l)
                st.z.add(v, g, 0)
                st.z.add(g, v, 0)
        for (x, y, c) in self.hyps:
            st.z.add(x, y, c)
        if self.entry_hook:
            self.entry_hook(self, st)
        return st

    def _entry_states(self):
        st0 = self.init_state()
        if not self.partition_discr:
            return [st0]
        cands = []
        fn = self.fn
        for blk in fn.blocks:
            if blk.cleanup:
                continue
            for s in blk.stmts:
                if "a" in s and "discr" in s["rv"]:
                    pl = mk_place(s["rv"]["discr"])
                    n = max([int(k) for k in (s["rv"].get("variants") or {}).keys()] or [0])
                    cands.append((pl, n))
            t = blk.term
            if "call" in t and re.search(r"(?:Option::<T>::(is_some|is_none)|Result::<T, E>::(is_ok|is_err))$", t["call"].get("callee") or "") and t["call"]["args"]:
                pj = t["call"]["args"][0].get("mv") or t["call"]["args"][0].get("cp")
                root = self.ref_root_deep(mk_place(pj)) if pj is not None else None
                if root is not None:
                    cands.append((root, 1))
        chosen = []
        for pl, n in cands:
            if not (1 <= pl[0] <= fn.argc) or not any(e == ("deref",) for e in pl[1]) and not pl[1]:
                continue
            d = discr_var(pl)
            if d is None or n > 3 or any(d == c[0] for c in chosen):
                continue
            chosen.append((d, n))
            if len(chosen) == 3:
                break
        sts = [st0]
        for d, n in chosen:
            nxt = []
            for st in sts:
                for v in range(n + 1):
                    s2 = st.copy()
                    s2.z.set_interval(d, v, v)
                    if not s2.z.bottom:
                        nxt.append(s2)
            sts = nxt
        return sts

    def _cap(self, sts):
        # dedupe (cheap signature first, then mutual entailment)
        buckets = {}
        out = []
        for s in sts:
            if s.z.bottom:
                continue
            sig = (sum(len(r) for r in s.z.rows.values()), len(s.bools), len(s.pend))
            dup = False
            for o in buckets.get(sig, ()):
                if o.bools == s.bools and repr(sorted(o.pend.items())) == repr(sorted(s.pend.items())) and o.z.leq(s.z) and s.z.leq(o.z):
                    dup = True
                    break
            if not dup:
                buckets.setdefault(sig, []).append(s)
                out.append(s)
        sts = out
        if len(sts) <= self.max_disj:
            return sts
        # merge: join all into one
        acc = sts[0].copy()
        for s in sts[1:]:
            acc = self._join(acc, s)
        return [acc]

    def _join(self, a, b):
        z = a.z.join(b.z)
        bools = {k: v for k, v in a.bools.items() if b.bools.get(k) == v}
        pend = {k: v for k, v in a.pend.items() if b.pend.get(k) == v}
        return St(z, bools, pend)

    def _widen(self, old, new):
        bools = {k: v for k, v in old.bools.items() if new.bools.get(k) == v}
        return St(old.z.restrict_to_stable(new.z), bools, {})

    def _leq_set(self, news, olds):
        for n in news:
            if not any(n.z.leq(o.z) and all(n.bools.get(k) == v for k, v in o.bools.items()) for o in olds):
                return False
        return True

    def _run(self):
        fn = self.fn
        heads = {h for (_, h) in fn.back_edges()}
        entry = {0: self._entry_states()}
        work = [0]
        while work:
            b = work.pop(0)
            sts = [s.copy() for s in entry[b]]
            outs = self.block_transfer(b, sts)
            for tgt, tsts in outs.items():
                tsts = [s for s in tsts if not s.z.bottom]
                if not tsts:
                    continue
                old = entry.get(tgt)
                if old is None:
                    entry[tgt] = self._cap(tsts)
                    work.append(tgt)
                    continue
                if self._leq_set(tsts, old):
                    continue
                self.visits[tgt] = self.visits.get(tgt, 0) + 1
                if tgt in heads and self.visits[tgt] > 3:
                    acc = old[0]
                    for s in old[1:] + tsts:
                        acc = self._join(acc, s)
                    oldj = old[0]
                    for s in old[1:]:
                        oldj = self._join(oldj, s)
                    new = [self._widen(oldj, acc)]
                else:
                    new = self._cap([s.copy() for s in old] + tsts)
                entry[tgt] = new
                if tgt not in work:
                    work.append(tgt)
        self.entry = entry

    def block_transfer(self, b, sts):
        fn = self.fn
        blk = fn.blocks[b]
        for s in blk.stmts:
            for st in sts:
                self.do_stmt(st, s)
        t = blk.term
        outs = {}

        def emit(tgt, st):
            self.saturate(st)
            if not st.z.bottom:
                outs.setdefault(tgt, []).append(st)
        if "goto" in t:
            for st in sts:
                emit(t["goto"], st)
        elif "switch" in t:
            oj = t["switch"]
            pj = oj.get("cp") or oj.get("mv")
            var = place_var(mk_place(pj)) if pj is not None else None
            for st in sts:
                if t["sty"] == "bool" and var in st.bools:
                    op, a, bb = st.bools[var]
                    for v, tgt in t["targets"]:
                        s2 = st.copy()
                        self.refine_cmp(s2, op, a, bb, int(v) != 0)
                        emit(tgt, s2)
                    listed = [int(v) for v, _ in t["targets"]]
                    s2 = st.copy()
                    self.refine_cmp(s2, op, a, bb, 0 in listed)
                    emit(t["otherwise"], s2)
                elif int_range(t["sty"]) is not None and var is not None:
                    vals = []
                    for v, tgt in t["targets"]:
                        s2 = st.copy()
                        self.refine_cmp(s2, "Eq", var, ("c", int(v)), True)
                        vals.append(int(v))
                        emit(tgt, s2)
                    s2 = st.copy()
                    for v in sorted(vals) + sorted(vals, reverse=True):
                        self.refine_cmp(s2, "Ne", var, ("c", v), True)
                    emit(t["otherwise"], s2)
                else:
                    for v, tgt in t["targets"]:
                        emit(tgt, st.copy())
                    emit(t["otherwise"], st.copy())
        elif "assert" in t:
            oj = t["assert"]
            pj = oj.get("cp") or oj.get("mv")
            for st in sts:
                self.check_assert(st, b, t)
                s2 = st
                var = place_var(mk_place(pj)) if pj is not None else None
                if var in st.bools:
                    op, a, bb = st.bools[var]
                    self.refine_cmp(s2, op, a, bb, t["expected"])
                # overflow asserts: the checked result is in range afterwards
                if t["kind"].startswith("Overflow(") and pj is not None:
                    pl = mk_place(pj)
                    if pl[1] and pl[1][-1] == ("f", "1"):
                        rv = ("v", pl[0], pl[1][:-1] + (("f", "0"),))
                        r = int_range(self.op_ty(t["ops"][0]))
                        if r:
                            s2.z.set_interval(rv, r[0], r[1])
                if t["kind"] == "BoundsCheck":
                    ln = self.ev_operand(s2, t["ops"][0])
                    ix = self.ev_operand(s2, t["ops"][1])
                    for (vi, ilo, ihi) in ix["rel"]:
                        for (vl, llo, lhi) in ln["rel"]:
                            if ihi is not None and llo is not None:
                                pass
                emit(t["target"], s2)
        elif "call" in t:
            c = t["call"]
            for st in sts:
                extra = self.do_call(st, b, c)
                if self.call_hook is not None:
                    for s_ in [st] + list(extra or []):
                        self.call_hook(self, s_, b, c)
                if c["target"] is not None:
                    emit(c["target"], st)
                    for s_ in extra or []:
                        emit(c["target"], s_)
        elif "drop" in t:
            for st in sts:
                emit(t["target"], st)
        return outs

    # ------------------------------------------------------------------ queries
    def states_at_term(self, b):
        sts = [s.copy() for s in self.entry.get(b, [])]
        for s in self.fn.blocks[b].stmts:
            for st in sts:
                self.do_stmt(st, s)
        return sts

    def states_before(self, b, i):
        sts = [s.copy() for s in self.entry.get(b, [])]
        for s in self.fn.blocks[b].stmts[:i]:
            for st in sts:
                self.do_stmt(st, s)
        return sts


NEG = {"Lt": "Ge", "Le": "Gt", "Gt": "Le", "Ge": "Lt", "Eq": "Ne", "Ne": "Eq"}
PURE_PREFIXES = ("core::fmt::", "std::fmt::", "log::", "core::panicking::", "std::cmp::", "core::cmp::", "std::ops::Deref",
                 "core::slice::", "<managed::ManagedSlice")


def _option_payload(ty):
    m = re.match(r"^std::option::Option<(.*)>$", ty or "")
    return m.group(1) if m else None


def fmt_itv(a):
    lo, hi = a["lo"], a["hi"]
    if lo == hi:
        return str(lo)
    return "[%s,%s]" % ("-inf" if lo == -INF else lo, "+inf" if hi == INF else hi)
