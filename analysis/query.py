"""Small query helpers over the IR (call sites, stores, who-writes, constructions)."""
from .ir import mk_place, mk_operand
from .terms import TermBuilder, subterms, field_path


def call_sites(fn, pred=None):
    """yield (block idx, call json) for normal (non-cleanup, reachable) blocks"""
    for b in fn.blocks:
        if b.cleanup or b.idx not in fn.reachable:
            continue
        t = b.term
        if "call" in t:
            c = t["call"]
            if pred is None or pred(c):
                yield b.idx, c


def callee_is(c, *names):
    """match resolved callee or declared callee against def-paths (generic segments ignored)"""
    from .ir import norm_path
    cands = {norm_path(c.get("callee") or ""), norm_path(c.get("decl") or "")}
    for n in names:
        n = norm_path(n)
        for x in cands:
            if x == n or x.endswith("::" + n):
                return True
    return False


def stmts(fn):
    for b in fn.blocks:
        if b.cleanup or b.idx not in fn.reachable:
            continue
        for i, s in enumerate(b.stmts):
            yield b.idx, i, s


def place_fields(pj):
    """list of (field name, field type) along a JSON place"""
    out = []
    for e in pj.get("p", []):
        if isinstance(e, dict) and "f" in e:
            out.append((e["f"], e.get("ty")))
    return out


def has_field(pj, name, ty_contains=None):
    for f, ty in place_fields(pj):
        if f == name and (ty_contains is None or (ty and ty_contains in ty)):
            return True
    return False


def mut_uses_of_field(prog, crate, name, ty_contains=None):
    """All mutable uses (assign through / &mut borrow / set-discriminant / call dest) of places going
    through field `name` (disambiguated by the field's type) in every function of the crate.
    Returns list of dict(fn, b, i, kind, place)."""
    out = []
    for f in prog.crate_fns(crate):
        for b, i, s in stmts(f):
            if "a" in s:
                if has_field(s["a"], name, ty_contains):
                    out.append(dict(fn=f, b=b, i=i, kind="assign", place=s["a"], rv=s["rv"]))
                rv = s["rv"]
                if ("ref" in rv and rv.get("mut") and has_field(rv["ref"], name, ty_contains)) and not s.get("dead_capture"):
                    out.append(dict(fn=f, b=b, i=i, kind="refmut", place=rv["ref"], dest=mk_place(s["a"])))
                if "rawptr" in rv and has_field(rv["rawptr"], name, ty_contains):
                    out.append(dict(fn=f, b=b, i=i, kind="rawptr", place=rv["rawptr"], dest=mk_place(s["a"])))
            elif "sd" in s and has_field(s["sd"], name, ty_contains):
                out.append(dict(fn=f, b=b, i=i, kind="setdiscr", place=s["sd"]))
        for b, c in call_sites(f):
            if has_field(c["dest"], name, ty_contains):
                out.append(dict(fn=f, b=b, i=None, kind="calldest", place=c["dest"], call=c))
    return out


def whole_object_writes(prog, crate, ty):
    """assignments `*p = ..` where p: &mut ty (whole-object replacement)"""
    out = []
    for f in prog.crate_fns(crate):
        for b, i, s in stmts(f):
            if "a" in s:
                l, proj = mk_place(s["a"])
                if proj == (("deref",),):
                    lt = f.locals[l]["ty"]
                    if lt.startswith("&mut ") and _ty_is(lt[5:], ty):
                        out.append(dict(fn=f, b=b, i=i, kind="whole", rv=s["rv"]))
        for b, c in call_sites(f):
            l, proj = mk_place(c["dest"])
            if proj == (("deref",),):
                lt = f.locals[l]["ty"]
                if lt.startswith("&mut ") and _ty_is(lt[5:], ty):
                    out.append(dict(fn=f, b=b, i=None, kind="whole", call=c))
    return out


def _ty_is(t, ty):
    import re
    t = re.sub(r"<.*>$", "", t)
    return t == ty or t.endswith("::" + ty)


def constructions(prog, crate, adt, variant=None, fns=None):
    """aggregate constructions of adt (optionally of a given variant): list of dict(fn,b,i,rv)"""
    out = []
    for f in (fns if fns is not None else prog.crate_fns(crate)):
        for b, i, s in stmts(f):
            if "a" in s and "agg" in s["rv"] and s["rv"].get("adt") == adt:
                if variant is None or s["rv"].get("variant") == variant:
                    out.append(dict(fn=f, b=b, i=i, rv=s["rv"], dest=s["a"]))
    return out


def const_uses(prog, crate, adt, variant, fns=None):
    """uses of a field-less enum variant as a *constant operand* (MIR represents unit variants in
    operand position as constants, not aggregates)"""
    out = []
    def isk(o):
        return "k" in o and o["k"].get("adt") == adt and o["k"].get("variant") == variant
    for f in (fns if fns is not None else prog.crate_fns(crate)):
        for b, i, s in stmts(f):
            if "a" in s:
                rv = s["rv"]
                ops = []
                if "use" in rv: ops.append(rv["use"])
                if "fields" in rv: ops += rv["fields"]
                if any(isk(o) for o in ops):
                    out.append(dict(fn=f, b=b, i=i, rv=rv, dest=s["a"]))
        for b, c in call_sites(f):
            if any(isk(a) for a in c["args"]):
                out.append(dict(fn=f, b=b, i=None, call=c))
    return out


def variant_uses(prog, crate, adt, variant, fns=None):
    """every place a field-less variant value is produced: aggregate statements and constant operands"""
    return constructions(prog, crate, adt, variant, fns) + const_uses(prog, crate, adt, variant, fns)


def flows_to_calls(fn, local, _seen=None):
    """calls that (transitively through moves / reborrows `&mut *x` / `&*x`) receive `local` as an argument.
    Returns list of (block, call json, arg index)."""
    seen = _seen if _seen is not None else set()
    if local in seen:
        return []
    seen.add(local)
    out = []
    for b, c in call_sites(fn):
        for n, a in enumerate(c["args"]):
            for k in ("mv", "cp"):
                if k in a and mk_place(a[k]) == (local, ()):
                    out.append((b, c, n))
    for b, i, s in stmts(fn):
        if "a" not in s:
            continue
        dl, dproj = mk_place(s["a"])
        if dproj:
            continue
        rv = s["rv"]
        src = None
        if "use" in rv:
            for k in ("mv", "cp"):
                if k in rv["use"]:
                    src = mk_place(rv["use"][k])
        elif "ref" in rv:
            pl = mk_place(rv["ref"])
            if pl[1] == (("deref",),):
                src = (pl[0], ())
        elif "cast" in rv and ("mv" in rv["a"] or "cp" in rv["a"]):
            src = mk_place(rv["a"].get("mv") or rv["a"].get("cp"))
        if src == (local, ()):
            out += flows_to_calls(fn, dl, seen)
    return out


def return_terms(fn, tb):
    """terms of every value assigned to the return place (statements and call destinations): [(b, i|None, term)]"""
    out = []
    for b, i, s in stmts(fn):
        if "a" in s and mk_place(s["a"]) == (0, ()):
            out.append((b, i, tb.rvalue(s["rv"])))
    for b, c in call_sites(fn):
        if mk_place(c["dest"]) == (0, ()):
            out.append((b, None, tb.call_term(c)))
    return out
