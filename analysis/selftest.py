"""Thorough tier: run the quick check of a property against scratch copies of /repo carrying the seeded changes of
/verif/seeded/<ID>-n (patch_rebased.diff when the original no longer applies to the tree with the fix: commits).  Informational:
the result (which seeded changes are reported) goes to the evidence; it never changes the verdict on /repo's tree."""
import json
import os
import shutil
import subprocess
import tempfile

from . import facts

VERIF = facts.VERIF


def run_seeds(pid):
    sdir = os.path.join(VERIF, "seeded")
    out = {"seeds": {}, "fired": 0, "silent": 0, "skipped": 0}
    if not os.path.isdir(sdir) or os.environ.get("VERIF_NO_SELFTEST"):
        return out
    for name in sorted(os.listdir(sdir)):
        if not name.startswith(pid + "-"):
            continue
        d = os.path.join(sdir, name)
        cands = [os.path.join(d, "patch_rebased.diff"), os.path.join(d, "patch.diff")]
        tmp = tempfile.mkdtemp(prefix="verif-selftest-")
        try:
            repo = os.path.join(tmp, "repo")
            subprocess.run(["rsync", "-a", "--exclude", "target", "--exclude", ".git", facts.REPO.rstrip("/") + "/", repo + "/"], check=True)
            applied = None
            for p in cands:
                if os.path.exists(p) and subprocess.run(["patch", "-p1", "-s", "--dry-run", "-i", p], cwd=repo, capture_output=True).returncode == 0:
                    subprocess.run(["patch", "-p1", "-s", "--no-backup-if-mismatch", "-i", p], cwd=repo, check=True)
                    applied = os.path.basename(p)
                    break
            if applied is None:
                out["seeds"][name] = {"status": "skipped", "why": "patch does not apply to the current tree"}
                out["skipped"] += 1
                continue
            env = dict(os.environ, VERIF_REPO=repo, VERIF_EVIDENCE_DIR=os.path.join(tmp, "ev"), VERIF_TIER="quick", VERIF_NO_SELFTEST="1")
            r = subprocess.run([os.path.join(VERIF, "check"), pid, "--tier", "quick"], env=env, capture_output=True, text=True, cwd=VERIF)
            first = [l.strip() for l in r.stdout.splitlines() if l.startswith("  [")][:1]
            fired = r.returncode == 1 and "VIOLATION property=" + pid in r.stdout
            expected = None
            try:
                expected = json.load(open(os.path.join(d, "meta.json"))).get("expected")
            except Exception:
                pass
            out["seeds"][name] = {"status": "fired" if fired else "silent", "patch": applied, "first_report": first[0][:200] if first else "", "expected": expected}
            out["fired" if fired else "silent"] += 1
        finally:
            shutil.rmtree(tmp, ignore_errors=True)
    return out
