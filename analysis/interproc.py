"""Interprocedural, path-sensitive variant/flag analysis (the typestate engine, DESIGN "dom_variant").

Built on GuardAnalysis in mem-kill mode: facts describe the *current* value of enum-typed memory
paths (discriminants), booleans and small constants.  Calls to local functions are analysed in the
context of the caller's facts (translated into the callee's parameter space), memoised per
(callee, entry facts); the callee's exit facts are translated back.  Closures handed to the three
provided PHY helpers are analysed under their callback contracts:

  transmit_telegram(f)        f is called exactly once; the result is f's result;
  receive_telegram(f)         f is called at most once; result None, or Some(f's result);
  receive_all_telegrams(f)    f is called any number of times with is_last == false and then at most
                              once with is_last == true, after which it is not called again (A1);
                              result None, or Some(result of the is_last call).

(The contracts are properties of the provided trait-method bodies in src/phy/mod.rs and are checked
structurally by rules/C16.py.)  Everything the PHY or an application returns is unknown (top); they
cannot touch the station (`&mut PHY` is disjoint, applications get `&FdlActiveStation`).

Products: exit fact-sets per (function, entry), reachable panic sites with the call chain, and a
query interface for the facts at any program point of any analysed context.
"""
from .guards import GuardAnalysis, Facts, join_all, vs_meet
from .modset import ModSets, paths_in, overlaps
from .terms import TermBuilder, strip_refs, subterms, show, path_str
from .ir import mk_place, norm_path
from .query import call_sites, callee_is

PANIC_PREFIXES = ("core::panicking::", "std::rt::begin_panic", "core::option::unwrap_failed", "core::result::unwrap_failed",
                  "core::option::expect_failed", "std::rt::panic_fmt", "core::panicking::panic_fmt")

HOF = {
    "phy::ProfibusPhy::transmit_telegram": "once",
    "phy::ProfibusPhy::receive_telegram": "opt",
    "phy::ProfibusPhy::receive_all_telegrams": "many",
    # the PDU writer closure runs exactly once inside the call (DataTelegramHeader::serialize); its result is not the call's result
    "fdl::telegram::TelegramTx::send_data_telegram": "unit",
}


def subst(t, mapping):
    """replace sub-terms according to mapping {old: new}; simplify deref(ref(x)) and ref(deref(x))"""
    if not isinstance(t, tuple) or not t:
        return t
    if t in mapping:
        return mapping[t]
    new = []
    for x in t:
        if isinstance(x, tuple) and x and isinstance(x[0], str):
            new.append(subst(x, mapping))
        elif isinstance(x, tuple):
            new.append(tuple(subst(y, mapping) if isinstance(y, tuple) else y for y in x))
        else:
            new.append(x)
    t = tuple(new)
    if t[0] == "deref" and isinstance(t[1], tuple) and t[1] and t[1][0] == "ref":
        return t[1][1]
    if t[0] == "deref" and isinstance(t[1], tuple) and t[1] and t[1][0] == "upvar":
        return t[1]
    if t[0] == "ref" and isinstance(t[1], tuple) and t[1] and t[1][0] == "deref":
        return t[1][1]
    if t in mapping:
        return mapping[t]
    return t


def leaves(t):
    for s in subterms(t):
        if isinstance(s, tuple) and s and s[0] in ("arg", "upvar", "local", "env"):
            yield s


_TAGS = {"arg": "arg@", "upvar": "upvar@", "local": "local@", "env": "env@"}
_UNTAGS = {v: k for k, v in _TAGS.items()}


def _retag(t, table):
    if not isinstance(t, tuple) or not t:
        return t
    if isinstance(t[0], str) and t[0] in table and (len(t) == 1 or not isinstance(t[1], tuple) or t[0] in ("local", "local@")):
        return (table[t[0]],) + t[1:]
    return tuple(_retag(x, table) if isinstance(x, tuple) else x for x in t)


def _tag(t):
    return _retag(t, _TAGS)


def _untag(t):
    return _retag(t, _UNTAGS)


class Ctx:
    """result of analysing one function in one entry context"""
    __slots__ = ("fn", "entry", "ga", "exits", "panics", "sub")

    def __init__(self, fn, entry):
        self.fn = fn
        self.entry = entry
        self.ga = None
        self.exits = frozenset()
        self.panics = []
        self.sub = []  # (block, callee Ctx) for diagnostics / queries


class Interproc:
    def __init__(self, prog, crate, keep_key=None, max_disj=64, max_depth=12, hof_cap=48):
        self.prog = prog
        self.crate = crate
        self.ms = ModSets(prog)
        self.memo = {}
        self.stack = []
        self.keep_key = keep_key  # filter applied to facts crossing function boundaries
        self.max_disj = max_disj
        self.max_depth = max_depth
        self.hof_cap = hof_cap
        self.contexts = []  # all Ctx objects, for site queries
        self.unknown_calls = {}

    # ------------------------------------------------------------------ helpers
    def local_fn(self, c):
        if c.get("via") in ("direct", "trait_impl", "trait_default"):
            return self.prog.get(self.crate, c.get("callee") or "")
        return None

    def param_terms(self, callee):
        out = []
        for i in range(1, callee.argc + 1):
            name = callee.locals[i].get("name")
            if callee.kind == "closure" and i == 1:
                out.append(("env",))
            else:
                out.append(("arg", name if name else i))
        return out

    def arg_maps(self, ga, c, callee):
        """(caller->callee, callee->caller) substitution maps for a direct call"""
        into, back = {}, {}
        pts = self.param_terms(callee)
        consts = []
        for pt, a in zip(pts, c["args"]):
            A = ga.tb.joperand(a)
            if A[0] == "ref":
                X = A[1]
                into[X] = ("deref", pt)
                back[("deref", pt)] = X
                back[pt] = A
            elif A[0] == "const":
                consts.append((pt, A))
            elif A[0] == "agg" and A[2] is not None and not A[3]:
                consts.append((pt, A))
            else:
                into[A] = pt
                into[("deref", A)] = ("deref", pt)
                back[pt] = A
        return into, back, consts

    def keep(self, key):
        if self.keep_key is not None:
            return self.keep_key(key)
        # default: variant / flag / small-constant facts about places; comparison results do not cross calls
        if key[0] == "discr":
            return True
        if key[0] in ("cmp", "bin", "index", "cidx", "un", "cast", "len"):
            return False
        return True

    def translate(self, fs, mapping, allowed_leaf=None, extra=()):
        """rewrite every fact key through `mapping` (old sub-term -> new sub-term).  A key survives only if
        *all* of its variable leaves were rewritten (name clashes between caller and callee parameters such
        as `self` must not leak facts across the boundary)."""
        tagged = {k: _tag(v) for k, v in mapping.items()}
        d = {}
        for k, vs in fs.items():
            if k[0] == "count":
                continue
            nk = subst(k, tagged)
            if any(True for _ in leaves(nk)):
                continue  # an untranslated leaf of the source namespace remains
            nk = _untag(nk)
            if not self.keep(nk) or not all(isinstance(v, (str, bool)) for v in vs[1]):
                continue
            cur = d.get(nk)
            if cur is not None:
                vs2 = vs_meet(cur, vs)
                if vs2 is None:
                    return None
                vs = vs2
            d[nk] = vs
        for k, vs in extra:
            d[k] = vs
        return Facts(d)

    # ------------------------------------------------------------------ analysis of one function in one context
    def analyze(self, fn, entry_facts):
        entry_facts = frozenset(entry_facts)
        key = (fn.name, entry_facts)
        if key in self.memo:
            return self.memo[key]
        if key in self.stack or len(self.stack) > self.max_depth:
            return None
        self.stack.append(key)
        cx = Ctx(fn, entry_facts)
        ga = GuardAnalysis(fn, self.prog, mem_kill=True, modsets=self.ms, entry_facts=entry_facts,
                           call_hook=lambda g, b, S, cx=cx: self.call_hook(cx, g, b, S), max_disj=self.max_disj)
        cx.ga = ga
        # exits: keep what the caller can use – facts it passed in, facts about memory this function
        # (transitively) writes, and facts about the return value; case splits learnt by merely *reading*
        # other memory are dropped (always sound) so that they do not multiply contexts
        written = self.ms.of(fn) or set()
        entry_keys = set(k for e in entry_facts for k in e.d)
        # tiny predicates on a by-value enum parameter (`fn is_stop(self) -> bool { matches!(self, Stop) }`): the variant test *is* the
        # result, keep it so that the caller learns the variant from the returned bool
        small_pred = len(fn.blocks) <= 12 and fn.locals[0]["ty"] == "bool" and fn.argc == 1 and not fn.locals[1]["ty"].startswith("&")
        ex = set()
        for rb in fn.return_blocks:
            for fs in ga.at(rb):
                d = {}
                for k, vs in fs.items():
                    if k[0] == "count":
                        continue
                    if k in entry_keys or any(l[0] == "local" and l[1] == 0 for l in leaves(k)) \
                            or any(p[:len(w)] == w or w[:len(p)] == p for p in ga.key_paths(k) for w in written) \
                            or (small_pred and k[0] == "discr" and k[1][0] == "arg"):
                        d[k] = vs
                ex.add(Facts(d))
        # a boolean result that *is* a variant / comparison test of parameters (`fn is_stop(self) -> bool { self == Stop }`):
        # split the exits on the result so that the caller learns the tested fact from the returned bool
        if small_pred and len(ga.tb.defs.get(0, ())) == 1:
            d0 = ga.tb.defs[0][0]
            t0 = ga.tb.call_term(fn.blocks[d0[1]].term["call"]) if d0[0] == "call" else ga.tb.rvalue(fn.blocks[d0[1]].stmts[d0[2]]["rv"])
            from .guards import canon_bool
            kt, vt = canon_bool(t0, True)
            kf, vf = canon_bool(t0, False)
            if kt != t0 and kt[0] in ("discr", "cmp") and all(l[0] == "arg" for l in leaves(kt)):
                if kt[0] == "discr" and kt[1][0] == "arg":
                    # complement within the enum's variants, so that chains of negative tests can become infeasible
                    vs_all = self.prog.enum_variants(self.crate, fn.locals[1]["ty"])
                    if vs_all:
                        def compl(v):
                            return ("in", frozenset(vs_all) - v[1]) if v[0] == "notin" else v
                        vt, vf = compl(vt), compl(vf)
                ex2 = set()
                r0 = ("local", 0, None)
                for e in ex:
                    for (rv_, (k_, v_)) in ((True, (kt, vt)), (False, (kf, vf))):
                        g = e.add(r0, ("in", frozenset([rv_])))
                        g = g.add(k_, v_) if g is not None else None
                        if g is not None:
                            ex2.add(g)
                ex = ex2
        cx.exits = frozenset(ex)
        # panic sites reachable in this context
        for b, c in call_sites(fn):
            S = ga.entry.get(b)
            if not S:
                continue
            cal = c.get("callee") or ""
            if cal.startswith(PANIC_PREFIXES):
                S2 = ga.at(b)
                if S2:
                    cx.panics.append(dict(fn=fn, b=b, kind="panic", callee=cal, mac=fn.blocks[b].term.get("mac") or [], facts=next(iter(S2)), chain=[fn.name]))
            elif cal.endswith("Option::<T>::unwrap") or cal.endswith("Option::<T>::expect") or cal.endswith("Result::<T, E>::unwrap") or cal.endswith("Result::<T, E>::expect"):
                S2 = ga.at(b)
                arg = strip_refs(ga.tb.joperand(c["args"][0]))
                good = "Some" if "Option" in cal else "Ok"
                bad = [fs for fs in S2 if not (fs.get(("discr", arg)) == ("in", frozenset([good])))]
                if bad:
                    cx.panics.append(dict(fn=fn, b=b, kind="unwrap", callee=cal, mac=fn.blocks[b].term.get("mac") or [], facts=bad[0], arg=arg, chain=[fn.name]))
        self.stack.pop()
        self.memo[key] = cx
        self.contexts.append(cx)
        return cx

    # ------------------------------------------------------------------ call handling
    def base_after_call(self, ga, b, fs):
        """caller fact-set after the call's side effects (mod-set kill, destination re-definition)"""
        c = ga.fn.blocks[b].term["call"]
        l, proj = mk_place(c["dest"])
        g = fs
        if not proj and not ga.tb.is_single(l):
            g = g.kill(lambda k, l=l: l in ga.key_locals(k))
        w = ga.call_written(b)
        if w:
            g = next(iter(ga._kill_paths(frozenset([g]), w)))
        return g

    def dest_term(self, ga, b):
        c = ga.fn.blocks[b].term["call"]
        l, proj = mk_place(c["dest"])
        if proj:
            return ga.tb.place((l, proj))
        if ga.tb.is_single(l):
            return ga.tb.call_term(c)
        return ga.tb.local_leaf(l)

    def call_hook(self, cx, ga, b, S):
        c = ga.fn.blocks[b].term["call"]
        if c["target"] is None:
            return None
        decl = norm_path(c.get("callee") or c.get("decl") or "")
        for name, mode in HOF.items():
            if decl == name or norm_path(c.get("decl") or "") == name:
                return self.hof_call(cx, ga, b, S, c, mode)
        callee = self.local_fn(c)
        if callee is None or callee.kind == "promoted":
            return None
        if (c.get("callee") or "").startswith(("core::", "std::", "alloc::")):
            return None
        out = set()
        into, back, consts = self.arg_maps(ga, c, callee)
        pts = set(self.param_terms(callee))
        dest = self.dest_term(ga, b)
        for fs in S:
            extra = []
            for pt, A in consts:
                if A[0] == "const":
                    extra.append((pt, ("in", frozenset([A[1]]))))
                else:
                    extra.append((("discr", pt), ("in", frozenset([A[2]]))))
            entry = self.translate(fs, into, lambda l: l in pts or l[0] == "arg" and l in pts, extra)
            if entry is None:
                continue
            sub = self.analyze(callee, [entry])
            base = self.base_after_call(ga, b, fs)
            if sub is None:
                out.add(base)
                continue
            cx.sub.append((b, sub))
            for p in sub.panics:
                q = dict(p)
                q["chain"] = [ga.fn.name] + p["chain"]
                cx.panics.append(q)
            back2 = dict(back)
            back2[("local", 0, None)] = dest
            caller_leaf_ok = lambda l: True
            for ex in sub.exits:
                tr = self.translate(ex, back2, lambda l, pts=pts: l not in pts and not (l[0] == "local" and l[1] == 0), ())
                if tr is None:
                    continue
                g = base
                for k, vs in tr.items():
                    g = g.add(k, vs)
                    if g is None:
                        break
                if g is not None:
                    out.add(g)
        return self._cap(out)

    def _caller_local(self, ga, leaf):
        return leaf[0] == "local" and leaf[1] < len(ga.fn.locals)

    def _cap(self, S):
        S = frozenset(S)
        if len(S) > self.max_disj:
            return frozenset([join_all(S)])
        return S

    # ------------------------------------------------------------------ closures under callback contracts
    def closure_maps(self, ga, clo_term, cf, clo_local=None):
        """closure upvar <-> captured caller term.  Inside closures the term builder identifies a captured
        reference with its pointee (`(*upvar).f` == `upvar.f`), so a captured *pointer value* (e.g. `self`)
        corresponds to its pointee in the caller."""
        into, back = {}, {}
        optys = self.capture_types(ga, clo_local, len(clo_term[3]))
        for idx, cap in enumerate(clo_term[3]):
            name = cf.upvars.get(idx, idx)
            X = cap
            nrefs = 0
            while X[0] == "ref":
                X = X[1]
                nrefs += 1
            ty = optys[idx] if optys else ""
            depth = 0
            while ty.startswith("&"):
                depth += 1
                ty = ty[1:].lstrip()
                if ty.startswith("mut "):
                    ty = ty[4:]
            obj = ("deref", X) if depth - nrefs >= 1 else X
            into[obj] = ("upvar", name)
            into[X] = ("upvar", name)
            back[("upvar", name)] = obj
        return into, back

    def capture_types(self, ga, clo_local, n):
        if clo_local is None:
            return None
        for blk in ga.fn.blocks:
            for st in blk.stmts:
                if "a" in st and st["a"]["l"] == clo_local and not st["a"].get("p") and st["rv"].get("agg") == "closure":
                    out = []
                    for f in st["rv"]["fields"]:
                        pj = f.get("mv") or f.get("cp")
                        out.append(ga.fn.locals[pj["l"]]["ty"] if pj is not None and not pj.get("p") else "")
                    return out
        return None

    def run_closure(self, cx, ga, b, fs, cf, into, back, flag=None, dest_inner=None):
        """analyse closure cf entered with caller facts fs; returns set of caller fact-sets after one invocation"""
        extra = []
        if flag is not None:
            pn = cf.locals[cf.argc].get("name") or cf.argc
            extra.append((("arg", pn), ("in", frozenset([flag]))))
        ok_leaf = lambda l: l[0] == "upvar" or (l[0] == "arg" and flag is not None and l == ("arg", cf.locals[cf.argc].get("name") or cf.argc))
        entry = self.translate(fs, into, ok_leaf, extra)
        if entry is None:
            return set()
        sub = self.analyze(cf, [entry])
        # what the closure may write in the caller (through its captures)
        base = fs
        cm = self.ms.of(cf) or set()
        written = set()
        for m in cm:
            for idx, name in cf.upvars.items():
                if m and m[0] == str(name):
                    X = back.get(("upvar", name))
                    if X is not None:
                        for r in paths_in(X) or []:
                            written.add(r + m[1:])
                        fp = paths_in(X)
        if written:
            base = next(iter(ga._kill_paths(frozenset([base]), written)))
        # locals of the caller captured by reference and written by the closure
        for idx, name in cf.upvars.items():
            X = back.get(("upvar", name))
            if X is not None and X[0] == "local" and any(m and m[0] == str(name) for m in cm):
                base = base.kill(lambda k, l=X[1]: l in ga.key_locals(k))
        if sub is None:
            return {base}
        cx.sub.append((b, sub))
        for p in sub.panics:
            q = dict(p)
            q["chain"] = [ga.fn.name] + p["chain"]
            cx.panics.append(q)
        out = set()
        back2 = dict(back)
        if dest_inner is not None:
            back2[("local", 0, None)] = dest_inner
        for ex in sub.exits:
            tr = self.translate(ex, back2, lambda l: l[0] not in ("upvar", "env") and not (l[0] == "arg") and not (l[0] == "local" and l[1] == 0 and dest_inner is None), ())
            if tr is None:
                continue
            g = base
            for k, vs in tr.items():
                g = g.add(k, vs)
                if g is None:
                    break
            if g is not None:
                out.add(g)
        return out

    def hof_call(self, cx, ga, b, S, c, mode):
        clo = ga.tb.joperand(c["args"][-1])
        if not (clo[0] == "agg" and str(clo[1]).startswith("closure:")):
            return None
        cf = self.prog.get(self.crate, clo[1][len("closure:"):])
        if cf is None:
            return None
        aj = c["args"][-1]
        pj = aj.get("mv") or aj.get("cp")
        into, back = self.closure_maps(ga, clo, cf, pj["l"] if pj is not None and not pj.get("p") else None)
        dest = self.dest_term(ga, b)
        out = set()
        for fs in S:
            base0 = self.base_after_call_keep_mem(ga, b, fs)
            if mode == "once":
                out |= self.run_closure(cx, ga, b, base0, cf, into, back, None, dest)
            elif mode == "unit":
                out |= self.run_closure(cx, ga, b, base0, cf, into, back, None, None)
            elif mode == "opt":
                g = base0.add(("discr", dest), ("in", frozenset(["None"])))
                if g is not None:
                    out.add(g)
                inner = ("field", ("dc", dest, "Some"), "0")
                for r in self.run_closure(cx, ga, b, base0, cf, into, back, None, inner):
                    g = r.add(("discr", dest), ("in", frozenset(["Some"])))
                    if g is not None:
                        out.add(g)
            else:  # many
                reach = {base0}
                frontier = {base0}
                it = 0
                while frontier and it < 8:
                    it += 1
                    new = set()
                    for e in frontier:
                        for r in self.run_closure(cx, ga, b, e, cf, into, back, False, None):
                            r = self.project_persistent(ga, r)
                            if r not in reach:
                                new.add(r)
                    reach |= new
                    frontier = new
                    if len(reach) > self.hof_cap:
                        reach = {join_all(reach)}
                        frontier = set(reach)
                inner = ("field", ("dc", dest, "Some"), "0")
                for e in reach:
                    g = e.add(("discr", dest), ("in", frozenset(["None"])))
                    if g is not None:
                        out.add(g)
                    for r in self.run_closure(cx, ga, b, e, cf, into, back, True, inner):
                        g = r.add(("discr", dest), ("in", frozenset(["Some"])))
                        if g is not None:
                            out.add(g)
        return self._cap(out)

    def base_after_call_keep_mem(self, ga, b, fs):
        """destination re-definition and the PHY argument only (the closure's own effects are applied by run_closure)"""
        c = ga.fn.blocks[b].term["call"]
        l, proj = mk_place(c["dest"])
        g = fs
        if not proj and not ga.tb.is_single(l):
            g = g.kill(lambda k, l=l: l in ga.key_locals(k))
        phy = ga.tb.joperand(c["args"][0])
        w = paths_in(phy)
        if w:
            g = next(iter(ga._kill_paths(frozenset([g]), w)))
        return g

    def project_persistent(self, ga, fs):
        """between callback invocations only facts about memory / captured state persist"""
        return fs

    # ------------------------------------------------------------------ queries
    def contexts_of(self, fn_name):
        return [cx for cx in self.contexts if cx.fn.name == fn_name]

    def facts_at(self, fn_name, b, i=None):
        """union over all analysed contexts of the DNF at a program point"""
        out = set()
        for cx in self.contexts_of(fn_name):
            out |= set(cx.ga.at(b, i))
        return frozenset(out)
