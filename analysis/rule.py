"""Rule runner: obligations, anchors/floors, known findings, evidence, VIOLATION lines."""
import json
import os
import sys
import time
import traceback

from . import facts
from .ir import Program

VERIF = facts.VERIF
EVID = os.environ.get("VERIF_EVIDENCE_DIR") or os.path.join(VERIF, "evidence")
REPLAY = os.path.join(EVID, "replay")
KNOWN = os.path.join(VERIF, "known_findings.json")


class AnchorMissing(Exception):
    pass


class Ctx:
    def __init__(self, pid, tier, config, prog):
        self.pid = pid
        self.tier = tier
        self.config = config
        self.prog = prog
        self.obligations = []  # (key, ok, detail, loc, clause)
        self.anchors = []  # (name, found, floor)
        self.samples = []
        self.assumptions = []
        self.notes = []
        self.analysed_fns = set()

    # an obligation of the rule; key must be stable (no line numbers)
    def ob(self, clause, key, ok, detail="", loc=""):
        self.obligations.append({"clause": clause, "key": "%s|%s|%s" % (self.pid, clause, key), "ok": bool(ok),
                                 "detail": detail, "loc": loc, "config": self.config})
        return ok

    def anchor(self, name, found, floor):
        self.anchors.append({"name": name, "found": found, "floor": floor, "config": self.config})
        if found < floor:
            self.ob("anchor", "anchor:" + name, False,
                    "anchor missing / rule went vacuous: %s (floor %d, found %d)" % (name, floor, found))
            return False
        return True

    def need_fn(self, crate, name, expand=False, keep=()):
        try:
            f = self.prog.fn(crate, name)
        except KeyError as e:
            self.ob("anchor", "fn:" + name, False, "anchor missing: function %s not found in crate %s" % (name, crate))
            return None
        self.analysed_fns.add(f.name)
        if expand:
            # private single-call-site helpers (a function split into phases) are read as part of their only caller
            from .inline import expand as _expand
            g = _expand(self.prog, f, keep=keep)
            for h in getattr(g, "inlined", []):
                self.analysed_fns.add(h)
            return g
        return f

    def sample(self, s):
        if len(self.samples) < 12:
            self.samples.append(s)

    def assume(self, s):
        if s not in self.assumptions:
            self.assumptions.append(s)


def import_clauses(ctx, module_pid, runner, clauses=None, as_clause=None):
    """Re-run (part of) another rule in a sub-context and import its obligations (optionally only some clauses) under this
    property.  Returns True when all imported obligations hold."""
    sub = Ctx(module_pid, ctx.tier, ctx.config, ctx.prog)
    runner(sub)
    ok = True
    for o in sub.obligations:
        if clauses is not None and o["clause"] not in clauses and o["clause"] != "anchor":
            continue
        k = o["key"].split("|", 2)[2]
        ctx.ob(as_clause or ("%s.%s" % (module_pid, o["clause"])), k, o["ok"], o["detail"], o["loc"])
        ok = ok and o["ok"]
    ctx.analysed_fns |= sub.analysed_fns
    for a in sub.assumptions:
        ctx.assume("[%s] %s" % (module_pid, a))
    return ok


def load_known():
    if not os.path.exists(KNOWN):
        return []
    with open(KNOWN) as fh:
        return json.load(fh).get("findings", [])


def run(pid, check_fn, level, explanation, trusted_base=(), crates=("profirust",), thorough_configs=(), selftest=None):
    """Entry point used by every rules/<ID>.py."""
    t0 = time.time()
    tier = os.environ.get("VERIF_TIER", "quick")
    args = sys.argv[1:]
    if "--tier" in args:
        tier = args[args.index("--tier") + 1]
    if tier not in ("quick", "thorough"):
        tier = "quick"
    seed = int(os.environ.get("VERIF_SEED", "0") or 0)
    configs = ["default"] + (list(thorough_configs) if tier == "thorough" else [])
    all_obs, anchors, samples, assumptions, notes, analysed = [], [], [], [], [], set()
    crashed = None
    for cfg in configs:
        try:
            cr = crates if cfg == "default" else tuple(c for c in crates if c == "profirust")
            if not cr:
                continue
            prog = Program({c: facts.load(c, cfg) for c in cr})
            ctx = Ctx(pid, tier, cfg, prog)
            for c_, names_ in prog.folded.items():
                ctx.notes.append("normalisation (%s, %s): new private helper(s) read as part of their callers: %s" % (cfg, c_, ", ".join(names_)))
            if getattr(prog, "desugared", 0):
                ctx.notes.append("normalisation (%s): %d Option/Result/bool combinator call(s) with a local closure read as the match they stand for" % (cfg, prog.desugared))
            for c_, n_ in getattr(prog, "renamed_params", {}).items():
                ctx.notes.append("normalisation (%s, %s): %d renamed parameter(s) of known functions read under their pinned names" % (cfg, c_, n_))
            check_fn(ctx)
        except SystemExit:
            raise
        except Exception as e:  # fail closed: an analysis crash is never a pass
            crashed = "%s: %s" % (type(e).__name__, e)
            tb = traceback.format_exc()
            ctx_ob = {"clause": "internal", "key": "%s|internal|analysis-crash|%s" % (pid, cfg), "ok": False,
                      "detail": "analysis crashed (fail closed): %s\n%s" % (crashed, tb), "loc": "", "config": cfg}
            all_obs.append(ctx_ob)
            continue
        all_obs += ctx.obligations
        anchors += ctx.anchors
        for s in ctx.samples:
            if len(samples) < 12:
                samples.append(s)
        for a in ctx.assumptions:
            if a not in assumptions:
                assumptions.append(a)
        notes += ctx.notes
        analysed |= ctx.analysed_fns

    selftest_res = None
    if tier == "thorough" and selftest is not None:
        selftest_res = selftest()
    seeds_res = None
    if tier == "thorough" and not os.environ.get("VERIF_NO_SELFTEST"):
        from . import selftest as _st
        try:
            seeds_res = _st.run_seeds(pid)
        except Exception as e:  # informational only
            seeds_res = {"error": str(e)}

    known = [k for k in load_known() if k.get("property") == pid]
    known_keys = {k["key"]: k for k in known if k.get("status") == "known"}
    failed = [o for o in all_obs if not o["ok"]]
    # de-duplicate identical keys across configs
    seen = set()
    viol, knownhits = [], []
    for o in failed:
        if o["key"] in seen:
            continue
        seen.add(o["key"])
        if o["key"] in known_keys:
            knownhits.append((o, known_keys[o["key"]]))
        else:
            viol.append(o)
    os.makedirs(REPLAY, exist_ok=True)
    for old_rp in os.listdir(REPLAY):  # replay files of an earlier run of this property are stale
        if old_rp.startswith(pid + "-"):
            try:
                os.remove(os.path.join(REPLAY, old_rp))
            except OSError:
                pass
    for o, k in knownhits:
        print("KNOWN-FINDING: property=%s %s" % (pid, k.get("what", o["detail"].splitlines()[0] if o["detail"] else o["key"])))
    n = 0
    for o in viol:
        n += 1
        rp = os.path.join(REPLAY, "%s-%d.txt" % (pid, n))
        with open(rp, "w") as fh:
            fh.write("property: %s\nclause:   %s\nkey:      %s\nconfig:   %s\nlocation: %s\n\n%s\n" % (
                pid, o["clause"], o["key"], o["config"], o["loc"], o["detail"]))
        print("VIOLATION property=%s replay=%s" % (pid, rp))
        first = o["detail"].splitlines()[0] if o["detail"] else ""
        print("  [%s] %s %s" % (o["clause"], o["loc"], first))
    nob = len(all_obs)
    ndis = len([o for o in all_obs if o["ok"]])
    distinct = len({o["key"] for o in all_obs})
    cov = {
        "explanation": explanation,
        "obligations": nob,
        "discharged": ndis,
        "checker_cmd": "./check %s --tier %s" % (pid, tier),
        "trusted_base": list(trusted_base),
        "evaluations": max(nob, 1),
        "distinct_nontrivial": distinct,
        "rule": "one evaluation per rule instance (obligation) found in the MIR facts of /repo's current tree; distinct = distinct stable instance keys",
        "samples": samples if samples else [o["key"] for o in all_obs[:5]] or ["(no obligations)"],
        "exhaustive": True,
        "configs": configs,
        "anchors": anchors,
        "functions_analysed": sorted(analysed),
        "clauses": sorted({o["clause"] for o in all_obs}),
        "known_findings_hit": [k["key"] for _, k in knownhits],
        "tree_hash": facts.tree_hash(),
        "not_decided": notes,
    }
    if selftest_res is not None:
        cov["selftest"] = selftest_res
    if seeds_res is not None:
        cov["seeded_changes"] = seeds_res
    ev = {
        "property_id": pid,
        "tier": tier,
        "seed": seed,
        "level": level,
        "coverage": cov,
        "assumptions": assumptions,
        "wall_s": round(time.time() - t0, 2),
        "violations": len(viol),
    }
    os.makedirs(EVID, exist_ok=True)
    with open(os.path.join(EVID, pid + ".json"), "w") as fh:
        json.dump(ev, fh, indent=1, sort_keys=True)
    print("%s: %d obligations, %d discharged, %d known findings, %d violations, %d anchors, configs=%s, %.1fs" % (
        pid, nob, ndis, len(knownhits), len(viol), len(anchors), ",".join(configs), time.time() - t0))
    if selftest_res is not None and selftest_res.get("failed"):
        print("VIOLATION property=%s replay=%s" % (pid, os.path.join(REPLAY, pid + "-selftest.txt")))
        with open(os.path.join(REPLAY, pid + "-selftest.txt"), "w") as fh:
            json.dump(selftest_res, fh, indent=1)
        sys.exit(1)
    sys.exit(1 if viol else 0)
