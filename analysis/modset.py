"""Mod-sets: which memory paths (rooted at parameters / closure upvars) a function may write,
directly or through callees.  Paths are tuples of names as produced by terms.field_path, e.g.
('self','state').  A path P *covers* every path that has P as a prefix."""
from .ir import mk_place, mk_operand
from .terms import TermBuilder, field_path, subterms, strip_refs
from .query import call_sites, stmts

WHOLE = ()

# external functions known not to write through their &mut arguments' pointees beyond the obvious,
# or that take & only.  (Unknown externals with &mut args are assumed to write the pointee.)
PURE_EXTERNAL_PREFIXES = (
    "core::fmt::", "std::fmt::", "log::", "core::panicking::", "std::cmp::", "core::cmp::",
    "std::option::Option::<T>::is_", "std::result::Result::<T, E>::is_",
)


def _norm(p):
    return tuple(x for x in p if not (x.startswith("<") and x.endswith(">")))


def paths_in(term):
    out = []
    for s in subterms(term):
        if isinstance(s, tuple) and s and s[0] in ("field", "arg", "upvar"):
            fp = field_path(s)
            if fp:
                out.append(_norm(fp))
    # keep maximal paths only
    res = []
    for p in sorted(set(out), key=len, reverse=True):
        if not any(q[:len(p)] == p and len(q) > len(p) for q in res):
            res.append(p)
    return res


class ModSets:
    def __init__(self, prog):
        self.prog = prog
        self.cache = {}
        self.stack = set()

    def local_fn(self, crate, name):
        return self.prog.get(crate, name) if name else None

    def of(self, fn):
        """set of written paths rooted at this function's params / upvars (names as in field_path)"""
        if fn.name in self.cache:
            return self.cache[fn.name]
        if fn.name in self.stack:
            return None  # recursion: caller treats as unknown
        self.stack.add(fn.name)
        tb = TermBuilder(fn, self.prog)
        out = set()
        for b, i, s in stmts(fn):
            if "a" in s:
                pl = mk_place(s["a"])
                if pl[1]:
                    out |= self._written(tb, tb.place(pl))
            elif "sd" in s:
                out |= self._written(tb, tb.place(mk_place(s["sd"])))
        for b, c in call_sites(fn):
            dl = mk_place(c["dest"])
            if dl[1]:
                out |= self._written(tb, tb.place(dl))
            out |= self.call_writes(fn, tb, c)
        self.stack.discard(fn.name)
        self.cache[fn.name] = out
        return out

    def _written(self, tb, placeterm):
        fp = field_path(placeterm)
        if fp is not None:
            fp = _norm(fp)
            if len(fp) >= 1 and not fp[0].startswith("_") :
                return {fp}
            return set()
        # write through a computed pointer: everything it may point into
        return set(paths_in(placeterm))

    def call_writes(self, fn, tb, c):
        """paths (in fn's namespace) that the call may write"""
        out = set()
        callee = c.get("callee") or ""
        if any(callee.startswith(p) for p in PURE_EXTERNAL_PREFIXES):
            return out
        target = self.local_fn(fn.crate, callee) if c.get("via") in ("direct", "trait_impl", "trait_default") else None
        tmods = self.of(target) if target is not None else None
        for n, (a, aty) in enumerate(zip(c["args"], c["argtys"])):
            t = tb.joperand(a)
            mutable = aty.startswith("&mut") or "closure@" in aty or aty.startswith("{closure")
            if not mutable:
                continue
            if t[0] == "agg" and str(t[1]).startswith("closure:"):
                # closure argument: what the closure body may write through its captures
                cf = self.prog.get(fn.crate, t[1][len("closure:"):])
                cm = self.of(cf) if cf is not None else None
                for idx, cap in enumerate(t[3]):
                    capn = cf.upvars.get(idx, idx) if cf is not None else idx
                    roots = paths_in(cap)
                    if cm is None:
                        out |= set(roots)
                    else:
                        for m in cm:
                            if m and m[0] == str(capn):
                                for r in roots:
                                    out.add(r + m[1:])
                continue
            roots = paths_in(t)
            if not roots:
                continue
            if tmods is None:
                out |= set(roots)
                continue
            # parameter name of the callee's n-th argument
            pname = target.locals[n + 1].get("name") or str(n + 1)
            for m in tmods:
                if m and m[0] == str(pname):
                    for r in roots:
                        out.add(r + m[1:])
        return out


def overlaps(p, q):
    n = min(len(p), len(q))
    return p[:n] == q[:n]
