"""dom_pest: grammar-shape typestate for code walking a pest parse tree.

From the pest grammar (dumped by engines/pestshape with pest's own meta parser) every non-silent rule R
gets the regular language L(R) of the *sequence of child pairs* a pair of rule R can have (silent rules
inlined, atomic rules have no children, predicates and literals produce nothing, EOI produces an `EOI`
pair).  The analysis is a flow-sensitive forward abstract interpretation of MIR with values

   PAIR(rules)  PAIRS(nfa states)  OPT(rules, may_none, may_some)  RULE(rules, source pair)  BOOL(values)

Transfer: Parser::parse(Rule::R, _) -> PAIRS over the one-word language [R]; Pair::into_inner -> start
states of L(r) for r in rules; Pairs::next -> OPT(labels of outgoing edges, None iff an accepting state
is present, successor states); Pair::as_rule + SwitchInt / == refine the pair's rule set and prune
infeasible arms; closures given to Iterator::map are analysed with the element rules.  Obligations:
`unwrap`/`expect` of an OPT that may be None, and every reachable panic call (`panic!`, `unreachable!`,
`assert!`) – reported with the call chain from the entry point.
"""
import json
import os
import subprocess

from .ir import mk_place
from .query import call_sites

NO_TOKEN_BUILTINS = {"SOI", "NEWLINE", "ANY", "ASCII_DIGIT", "ASCII_HEX_DIGIT", "ASCII_ALPHANUMERIC", "ASCII_ALPHA", "ASCII", "PEEK", "POP", "PUSH",
                     "ASCII_NONZERO_DIGIT", "ASCII_BIN_DIGIT", "ASCII_OCT_DIGIT", "ASCII_ALPHA_LOWER", "ASCII_ALPHA_UPPER", "DROP", "PEEK_ALL", "POP_ALL",
                     "WHITESPACE", "COMMENT"}
PANIC_PREFIXES = ("core::panicking::", "std::rt::begin_panic", "core::option::unwrap_failed", "core::result::unwrap_failed",
                  "core::option::expect_failed", "std::rt::panic_fmt")


class Grammar:
    def __init__(self, path, tool):
        out = subprocess.run([tool, path], capture_output=True, text=True)
        if out.returncode != 0:
            raise RuntimeError("pestshape failed: " + out.stderr[-2000:])
        self.rules = {r["name"]: r for r in json.loads(out.stdout)["rules"]}
        self.nfa = {}
        for name, r in self.rules.items():
            if r["ty"] != "silent":
                self.nfa[name] = self._build(name)
        self.nfa["EOI"] = self._empty()

    def _empty(self):
        return dict(start=frozenset([0]), trans={}, accept=frozenset([0]))

    def _build(self, name):
        r = self.rules[name]
        self._n = 0
        self._eps = {}
        self._tr = {}
        s, e = self._new(), self._new()
        if r["ty"] in ("atomic",):
            self._eps.setdefault(s, set()).add(e)
        else:
            self._expr(r["expr"], s, e, ())
        # epsilon closure
        def clos(S):
            S = set(S)
            st = list(S)
            while st:
                x = st.pop()
                for y in self._eps.get(x, ()):
                    if y not in S:
                        S.add(y)
                        st.append(y)
            return frozenset(S)
        trans = {}
        for x in range(self._n):
            for lab, ys in self._tr.get(x, {}).items():
                trans.setdefault(x, {}).setdefault(lab, set()).update(ys)
        closure = {x: clos([x]) for x in range(self._n)}
        return dict(start=closure[s], trans=trans, accept=frozenset(x for x in range(self._n) if e in closure[x]), closure=closure)

    def _new(self):
        self._n += 1
        return self._n - 1

    def _expr(self, e, s, t, stack):
        k = e["k"]
        if k in ("str", "insens", "range", "pos", "neg", "peek", "skip", "other"):
            self._eps.setdefault(s, set()).add(t)
        elif k == "ident":
            n = e["v"]
            if n == "EOI":
                self._tr.setdefault(s, {}).setdefault("EOI", set()).add(t)
            elif n in NO_TOKEN_BUILTINS and n not in self.rules or (n in self.rules and n in ("WHITESPACE", "COMMENT")):
                self._eps.setdefault(s, set()).add(t)
            elif n in self.rules and self.rules[n]["ty"] == "silent":
                if n in stack:
                    raise RuntimeError("recursive silent rule " + n)
                self._expr(self.rules[n]["expr"], s, t, stack + (n,))
            elif n in self.rules:
                self._tr.setdefault(s, {}).setdefault(n, set()).add(t)
            else:
                self._eps.setdefault(s, set()).add(t)
        elif k == "seq":
            m = self._new()
            self._expr(e["a"], s, m, stack)
            self._expr(e["b"], m, t, stack)
        elif k == "choice":
            self._expr(e["a"], s, t, stack)
            self._expr(e["b"], s, t, stack)
        elif k == "opt":
            self._eps.setdefault(s, set()).add(t)
            self._expr(e["e"], s, t, stack)
        elif k in ("rep", "rep1"):
            m = self._new()
            self._eps.setdefault(s, set()).add(m)
            n2 = self._new()
            self._expr(e["e"], m, n2, stack)
            self._eps.setdefault(n2, set()).add(m)
            self._eps.setdefault(n2, set()).add(t)
            if k == "rep":
                self._eps.setdefault(m, set()).add(t)
        elif k == "push":
            self._expr(e["e"], s, t, stack)
        elif k == "repn":
            # bounded repetition: over-approximate by `rep` when min == 0, else e{min} rep
            cur = s
            for _ in range(e.get("min") or 0):
                m = self._new()
                self._expr(e["e"], cur, m, stack)
                cur = m
            m = self._new()
            self._eps.setdefault(cur, set()).add(m)
            n2 = self._new()
            self._expr(e["e"], m, n2, stack)
            self._eps.setdefault(n2, set()).add(m)
            self._eps.setdefault(m, set()).add(t)
        else:
            self._eps.setdefault(s, set()).add(t)

    # ---- queries on PAIRS values: frozenset of (rule, state)
    def start(self, rules):
        out = set()
        for r in rules:
            a = self.nfa.get(r)
            if a is None:
                continue
            out |= {(r, x) for x in a["start"]}
        return frozenset(out)

    def step(self, states):
        """-> (labels, may_end, successor states)"""
        labels, succ = set(), set()
        may_end = False
        for (r, x) in states:
            a = self.nfa[r]
            if x in a["accept"]:
                may_end = True
            for lab, ys in a["trans"].get(x, {}).items():
                labels.add(lab)
                for y in ys:
                    succ |= {(r, z) for z in a["closure"][y]}
        return frozenset(labels), may_end, frozenset(succ)

    def reachable_labels(self, states):
        seen, st, labels = set(states), list(states), set()
        while st:
            (r, x) = st.pop()
            a = self.nfa[r]
            for lab, ys in a["trans"].get(x, {}).items():
                labels.add(lab)
                for y in ys:
                    for z in a["closure"][y]:
                        if (r, z) not in seen:
                            seen.add((r, z))
                            st.append((r, z))
        return frozenset(labels)

    def describe(self, rule):
        a = self.nfa[rule]
        return {"start": sorted(a["start"]), "accept": sorted(a["accept"]), "edges": {str(k): {l: sorted(v) for l, v in d.items()} for k, d in a["trans"].items()}}


def V_PAIR(rules):
    return ("pair", frozenset(rules))


def V_PAIRS(states):
    return ("pairs", frozenset(states))


def V_OPT(rules, none, some):
    return ("opt", frozenset(rules), bool(none), bool(some))


def join(a, b):
    if a is None:
        return b
    if b is None:
        return a
    if a[0] != b[0]:
        return ("top",)
    if a[0] == "pair":
        return ("pair", a[1] | b[1])
    if a[0] == "pairs":
        return ("pairs", a[1] | b[1])
    if a[0] == "opt":
        return ("opt", a[1] | b[1], a[2] or b[2], a[3] or b[3])
    if a[0] == "rule":
        return ("rule", a[1] | b[1], a[2] if a[2] == b[2] else None)
    if a[0] == "bool":
        return ("bool", a[1] | b[1], a[2] if a[2] == b[2] else None)
    if a[0] == "map":
        return ("map", a[1] | b[1], a[2]) if a[2] == b[2] else ("top",)
    if a[0] == "text":
        return ("text", a[1] | b[1], a[2] if a[2] == b[2] else False)
    if a[0] == "wrap":
        j = join(a[1], b[1])
        return ("wrap", j) if j is not None and j[0] != "top" else ("top",)
    if a[0] == "tuple":
        if len(a[1]) != len(b[1]):
            return ("top",)
        return ("tuple", tuple(join(x, y) if (x is not None and y is not None) else None for x, y in zip(a[1], b[1])))
    return a if a == b else ("top",)


def kind_of_type(ty):
    if "pest::iterators::Pairs<" in ty:
        return "pairs"
    if "pest::iterators::Pair<" in ty:
        return "opt" if ty.startswith("std::option::Option<") else "pair"
    if ty.endswith("::Rule") or ty.endswith("::Rule>") and "Option" not in ty:
        return "rule"
    if ty in ("&parser::gsd_parser::Rule", "parser::gsd_parser::Rule"):
        return "rule"
    return None


class PestAnalysis:
    def __init__(self, prog, crate, grammar, rule_enum="parser::gsd_parser::Rule"):
        self.prog = prog
        self.crate = crate
        self.g = grammar
        self.rule_enum = rule_enum
        self.all_rules = frozenset(grammar.nfa.keys())
        self.memo = {}
        self.stack = []
        self.obligations = {}  # key -> dict
        self.text_cmps = []  # comparisons of pair text against string literals
        self.contexts = 0

    # ------------------------------------------------------------------
    def analyze(self, fn, args, chain=()):
        """args: tuple of abstract values for the parameters (None = untracked)"""
        key = (fn.name, args)
        if key in self.memo:
            return self.memo[key]
        if key in self.stack or len(self.stack) > 20:
            return ("top",)
        self.stack.append(key)
        self.contexts += 1
        env0 = {}
        for i, a in enumerate(args):
            if a is not None:
                env0[i + 1] = a
        entry = {0: env0}
        work = [0]
        ret = None
        seen_iter = 0
        while work:
            b = work.pop(0)
            seen_iter += 1
            if seen_iter > 200000:
                raise RuntimeError("pestdom did not converge in " + fn.name)
            env = dict(entry[b])
            blk = fn.blocks[b]
            for s in blk.stmts:
                self.stmt(fn, env, s)
            outs = self.term(fn, env, b, blk.term, chain + (fn.name,))
            for tgt, e2 in outs:
                if tgt == "ret":
                    ret = join(ret, e2.get(0)) if (ret is not None or e2.get(0) is not None) else None
                    continue
                old = entry.get(tgt)
                if old is None:
                    entry[tgt] = dict(e2)
                    work.append(tgt)
                else:
                    new = dict(old)
                    changed = False
                    for l in set(old) | set(e2):
                        j = join(old.get(l), e2.get(l)) if (l in old and l in e2) else None
                        # a local known on only one incoming path is unknown at the merge (unless dead): keep conservative None
                        if l in old and l in e2:
                            if j != old.get(l):
                                new[l] = j
                                changed = True
                        elif l in old:
                            pass
                        else:
                            pass
                    for l in list(new):
                        if l not in e2:
                            # missing on the new path: becomes unknown unless it was never defined there (dead) – stay with old (sound for
                            # moved-from temporaries, which are not read again)
                            pass
                    if changed:
                        entry[tgt] = new
                        if tgt not in work:
                            work.append(tgt)
        self.stack.pop()
        self.memo[key] = ret
        return ret

    # ------------------------------------------------------------------
    def read(self, fn, env, pj):
        l = pj["l"]
        v = env.get(l)
        proj = pj.get("p") or []
        if v is None:
            return None
        if not proj:
            return v
        if v[0] == "tuple" and isinstance(proj[0], dict) and "i" in proj[0]:
            e = v[1][proj[0]["i"]] if proj[0]["i"] < len(v[1]) else None
            rest = proj[1:]
            while e is not None and rest and rest[0] == "deref" and e[0] in ("rule", "pair", "pairs", "opt"):
                rest = rest[1:]
            return e if not rest else None
        if v[0] == "refto" and proj[0] == "deref":
            return self.read(fn, env, {"l": v[1], "p": proj[1:]}) if v[1] in env else (v[2] if len(proj) == 1 else None)
        # projections: Option<Pair> -> Some payload ; wrappers -> same value
        if v[0] == "opt":
            if any(isinstance(e, dict) and e.get("dc") == "Some" for e in proj):
                return ("pair", v[1])
            return v
        if v[0] in ("pair", "pairs", "rule", "text") and all(e == "deref" for e in proj):
            return v
        if v[0] == "wrap":
            return v[1]
        if v[0] in ("pair", "pairs"):
            return v
        return None

    def operand(self, fn, env, oj):
        if "k" in oj:
            k = oj["k"]
            if k.get("adt") == self.rule_enum and "variant" in k:
                return ("rule", frozenset([k["variant"]]), None)
            if "bool" in k:
                return ("bool", frozenset([bool(k["bool"])]), None)
            if "promoted" in k:
                pf = self.prog.get(self.crate, k["promoted"])
                if pf is not None:
                    for blk in pf.blocks:
                        for s in blk.stmts:
                            if "a" in s and s["rv"].get("adt") == self.rule_enum:
                                return ("rule", frozenset([s["rv"]["variant"]]), None)
                            if "a" in s and "use" in s["rv"] and "k" in s["rv"]["use"] and s["rv"]["use"]["k"].get("adt") == self.rule_enum:
                                return ("rule", frozenset([s["rv"]["use"]["k"]["variant"]]), None)
            return None
        return self.read(fn, env, oj.get("cp") or oj.get("mv"))

    def stmt(self, fn, env, s):
        if "a" not in s:
            return
        dj = s["a"]
        if dj.get("p"):
            # write through a projection: `(*_x) = ..` etc. – only whole-local tracking; forget base unless deref of a ref to tracked
            return
        d = dj["l"]
        rv = s["rv"]
        v = None
        if "use" in rv:
            v = self.operand(fn, env, rv["use"])
        elif "ref" in rv:
            rj = rv["ref"]
            base = env.get(rj["l"])
            if base is not None and base[0] == "refto" and rj.get("p") == ["deref"]:
                v = base  # reborrow
            else:
                v = self.read(fn, env, rj)
                if v is not None and v[0] in ("pair", "pairs", "opt") and not rj.get("p"):
                    v = ("refto", rj["l"], v)
        elif rv.get("agg") == "tuple":
            vals = tuple(self.operand(fn, env, o) for o in rv["fields"])
            vals = tuple(x[2] if (x is not None and x[0] == "refto" and x[2][0] == "rule") else x for x in vals)
            v = ("tuple", vals) if any(x is not None for x in vals) else None
        elif "agg" in rv and rv.get("adt") == self.rule_enum:
            v = ("rule", frozenset([rv["variant"]]), None)
        elif "agg" in rv and rv["agg"] == "adt" and rv.get("variant") in ("Ok", "Continue") and rv["fields"]:
            inner = self.operand(fn, env, rv["fields"][0])
            if inner is not None and inner[0] in ("pair", "pairs", "opt"):
                v = ("wrap", inner)
        elif "agg" in rv and rv["agg"] == "adt" and rv.get("variant") in ("Some",) and rv["fields"]:
            inner = self.operand(fn, env, rv["fields"][0])
            if inner is not None and inner[0] == "pair":
                v = ("opt", inner[1], False, True)
        elif "agg" in rv and rv["agg"] == "adt" and rv.get("variant") == "None" and kind_of_type(fn.locals[d]["ty"]) == "opt":
            v = ("opt", frozenset(), True, False)
        elif "discr" in rv:
            src = self.read(fn, env, rv["discr"])
            if src is not None and src[0] == "rule":
                v = ("rule", src[1], src[2])
            elif src is not None and src[0] == "opt":
                v = ("optdiscr", rv["discr"]["l"], src)
            elif src is not None and src[0] == "refto" and src[2][0] == "rule":
                v = src[2]
        elif "cast" in rv:
            v = self.operand(fn, env, rv["a"])
        elif "un" in rv and rv["un"] == "Not":
            a = self.operand(fn, env, rv["a"])
            if a is not None and a[0] == "bool":
                ref = a[2]
                if ref is not None:
                    ref = ref[:-1] + (not ref[-1],)
                v = ("bool", frozenset(not x for x in a[1]), ref)
        if v is not None and v[0] == "refto" and v[2][0] == "rule":
            v = v[2]
        if v is None:
            k = kind_of_type(fn.locals[d]["ty"])
            if k == "pair":
                v = ("pair", self.all_rules)
            elif k == "opt":
                v = ("opt", self.all_rules, True, True)
        if v is None:
            env.pop(d, None)
        else:
            env[d] = v

    # ------------------------------------------------------------------
    def oblige(self, fn, b, kind, ok, detail, chain):
        key = (fn.name, b, kind)
        cur = self.obligations.get(key)
        if cur is None:
            self.obligations[key] = dict(fn=fn, b=b, kind=kind, ok=ok, detail=detail, chain=chain)
        elif not ok and cur["ok"]:
            cur.update(ok=False, detail=detail, chain=chain)

    def deref_val(self, env, v):
        """follow refto links to the current value of the referenced local"""
        while v is not None and v[0] == "refto":
            cur = env.get(v[1])
            v = cur if cur is not None else v[2]
        return v

    def term(self, fn, env, b, t, chain):
        outs = []
        if "goto" in t:
            return [(t["goto"], env)]
        if "ret" in t:
            return [("ret", env)]
        if "drop" in t:
            return [(t["target"], env)]
        if "assert" in t:
            return [(t["target"], env)]
        if "switch" in t:
            oj = t["switch"]
            v = self.deref_val(env, self.operand(fn, env, oj))
            variants = t.get("variants")
            if v is not None and v[0] == "rule" and variants:
                listed = set()
                for val, tgt in t["targets"]:
                    name = variants.get(str(val))
                    listed.add(name)
                    if name in v[1]:
                        e2 = dict(env)
                        self.refine_rule(e2, v, frozenset([name]))
                        outs.append((tgt, e2))
                rest = v[1] - listed
                if rest:
                    e2 = dict(env)
                    self.refine_rule(e2, v, frozenset(rest))
                    outs.append((t["otherwise"], e2))
                return outs
            if v is not None and v[0] == "optdiscr" and variants:
                src_l, opt = v[1], self.deref_val(env, env.get(v[1])) or v[2]
                for val, tgt in t["targets"]:
                    name = variants.get(str(val))
                    if name == "None" and opt[2]:
                        e2 = dict(env)
                        e2[src_l] = ("opt", opt[1], True, False)
                        outs.append((tgt, e2))
                    elif name == "Some" and opt[3]:
                        e2 = dict(env)
                        e2[src_l] = ("opt", opt[1], False, True)
                        outs.append((tgt, e2))
                listed = {variants.get(str(val)) for val, _ in t["targets"]}
                if ("None" not in listed and opt[2]) or ("Some" not in listed and opt[3]):
                    e2 = dict(env)
                    if "None" in listed:
                        e2[src_l] = ("opt", opt[1], False, True)
                    elif "Some" in listed:
                        e2[src_l] = ("opt", opt[1], True, False)
                    outs.append((t["otherwise"], e2))
                return outs
            if v is not None and v[0] == "bool" and t["sty"] == "bool":
                for val, tgt in t["targets"]:
                    bv = int(val) != 0
                    if bv in v[1]:
                        e2 = dict(env)
                        self.refine_bool(e2, v, bv)
                        outs.append((tgt, e2))
                listed = [int(val) != 0 for val, _ in t["targets"]]
                ob = not listed[0] if listed else True
                if ob in v[1]:
                    e2 = dict(env)
                    self.refine_bool(e2, v, ob)
                    outs.append((t["otherwise"], e2))
                return outs
            for val, tgt in t["targets"]:
                outs.append((tgt, env))
            outs.append((t["otherwise"], env))
            return outs
        if "call" in t:
            return self.call(fn, env, b, t, chain)
        return outs

    def refine_rule(self, env, v, rules):
        if v[2] is not None:
            cur = env.get(v[2])
            if cur is not None and cur[0] == "pair":
                env[v[2]] = ("pair", cur[1] & rules if cur[1] & rules else rules)

    def refine_bool(self, env, v, truth):
        ref = v[2]
        if ref is None:
            return
        if ref[0] == "rule_eq":
            _, src, name, pol = ref
            cur = env.get(src)
            if cur is not None and cur[0] == "pair":
                if truth == pol:
                    env[src] = ("pair", frozenset([name]) & cur[1] or frozenset([name]))
                else:
                    env[src] = ("pair", cur[1] - {name})
        elif ref[0] == "opt_none":
            _, src, pol = ref
            cur = env.get(src)
            if cur is not None and cur[0] == "opt":
                if truth == pol:
                    env[src] = ("opt", cur[1], True, False)
                else:
                    env[src] = ("opt", cur[1], False, True)

    # ------------------------------------------------------------------
    def call(self, fn, env, b, t, chain):
        c = t["call"]
        cal = c.get("callee") or ""
        args = c["args"]
        dest = c["dest"]
        tgt = c["target"]
        dl = dest["l"] if not dest.get("p") else None
        dty = fn.locals[dest["l"]]["ty"]

        def out(v):
            if tgt is None:
                return []
            e2 = dict(env)
            if dl is not None:
                if v is None:
                    e2.pop(dl, None)
                else:
                    e2[dl] = v
            return [(tgt, e2)]

        avs = [self.deref_val(env, self.operand(fn, env, a)) for a in args]
        raw = [self.operand(fn, env, a) for a in args]
        # ---- panics
        if cal.startswith(PANIC_PREFIXES):
            mac = t.get("mac") or []
            self.oblige(fn, b, "panic", False, "reachable %s (%s)" % (cal.split("::")[-1], ",".join(m for m in mac if not m.startswith("$"))), chain)
            return []
        # ---- pest API
        if cal.endswith("as pest::Parser<parser::gsd_parser::Rule>>::parse") or cal.endswith("::parse") and "pest::Parser" in (c.get("trait") or ""):
            r = avs[0]
            rules = r[1] if r is not None and r[0] == "rule" else self.all_rules
            # language: exactly one top-level pair of that rule
            return out(("wrap", ("pairs", frozenset(("#top:" + x, 0) for x in rules))))
        if cal.endswith("Pair::<'i, R>::into_inner"):
            p = avs[0]
            if p is not None and p[0] == "pair":
                return out(("pairs", self.g.start(p[1])))
            return out(("pairs", self.g.start(self.all_rules)))
        if cal.endswith("Pair::<'i, R>::as_rule"):
            p = avs[0]
            src = None
            r0 = raw[0]
            if r0 is not None and r0[0] == "refto":
                src = r0[1]
            else:
                aj = args[0].get("cp") or args[0].get("mv")
                if aj is not None and not aj.get("p"):
                    src = aj["l"]
            if p is not None and p[0] == "pair":
                return out(("rule", p[1], src))
            return out(("rule", self.all_rules, src))
        if (cal.endswith("as std::iter::Iterator>::next") or cal.endswith("as std::iter::DoubleEndedIterator>::next_back")) and avs and avs[0] is not None and avs[0][0] in ("pairs", "map"):
            it = avs[0]
            r0 = raw[0]
            if it[0] == "map":
                return out(None)
            labels, may_end, succ = self.step(it[1])
            # update the iterator local through the &mut
            if r0 is not None and r0[0] == "refto":
                e2 = dict(env)
                e2[r0[1]] = ("pairs", succ | (it[1] if False else frozenset()))
                # after a None the iterator stays exhausted; after Some it is at succ – join both
                e2[r0[1]] = ("pairs", succ) if labels else ("pairs", it[1])
                if dl is not None:
                    e2[dl] = ("opt", labels, may_end, bool(labels))
                return [(tgt, e2)] if tgt is not None else []
            return out(("opt", labels, may_end, bool(labels)))
        if cal.endswith("Option::<T>::unwrap") or cal.endswith("Option::<T>::expect"):
            o = avs[0]
            if o is not None and o[0] == "opt":
                self.oblige(fn, b, "unwrap", not o[2], "Option<Pair> may be None here: the grammar allows the child sequence to end (possible next rules: %s)" % sorted(o[1]), chain)
                return out(("pair", o[1]))
            if kind_of_type(c["argtys"][0]) == "opt":
                self.oblige(fn, b, "unwrap", False, "unwrap of an untracked Option<Pair>", chain)
                return out(("pair", self.all_rules))
            self.oblige(fn, b, "unwrap-other", None, "%s on %s" % (cal.split("::")[-1], c["argtys"][0]), chain)
            return out(None)
        if cal.endswith("Result::<T, E>::unwrap") or cal.endswith("Result::<T, E>::expect"):
            self.oblige(fn, b, "unwrap-other", None, "%s on %s" % (cal.split("::")[-1], c["argtys"][0]), chain)
            return out(avs[0][1] if avs[0] is not None and avs[0][0] == "wrap" else None)
        if cal.endswith("Option::<T>::is_none") or cal.endswith("Option::<T>::is_some"):
            o = avs[0]
            pol = cal.endswith("is_none")
            if o is not None and o[0] == "opt":
                vals = set()
                if o[2]:
                    vals.add(pol)
                if o[3]:
                    vals.add(not pol)
                src = raw[0][1] if raw[0] is not None and raw[0][0] == "refto" else None
                return out(("bool", frozenset(vals), ("opt_none", src, pol) if src is not None else None))
            return out(None)
        if cal in ("std::cmp::PartialEq::eq", "std::cmp::PartialEq::ne") or cal.endswith("as std::cmp::PartialEq>::eq") or cal.endswith("as std::cmp::PartialEq>::ne"):
            a, bb = avs[0], avs[1] if len(avs) > 1 else None
            neg = cal.endswith("::ne")
            if a is not None and bb is not None and a[0] == "rule" and bb[0] == "rule":
                for x, y in ((a, bb), (bb, a)):
                    if len(y[1]) == 1:
                        name = next(iter(y[1]))
                        vals = set()
                        if name in x[1]:
                            vals.add(not neg)
                        if x[1] - {name}:
                            vals.add(neg)
                        return out(("bool", frozenset(vals), ("rule_eq", x[2], name, not neg) if x[2] is not None else None))
            return out(None)
        # ---- text of a pair (case discipline of keyword comparisons)
        if cal.endswith("Pair::<'i, R>::as_str"):
            p = avs[0]
            return out(("text", p[1] if p is not None and p[0] == "pair" else self.all_rules, False))
        if avs and avs[0] is not None and avs[0][0] == "text":
            if cal.endswith(("str>::to_lowercase", "str>::to_ascii_lowercase", "str>::to_uppercase", "str>::to_ascii_uppercase")):
                return out(("text", avs[0][1], "lower" if "lower" in cal else "upper"))
            if cal.endswith(("String::as_str", "as std::ops::Deref>::deref", "as std::convert::AsRef<str>>::as_ref", "as std::borrow::Borrow<str>>::borrow",
                             "str>::trim", "String as std::clone::Clone>::clone", "str>::to_owned", "str>::to_string")):
                return out(avs[0])
        if cal.endswith("PartialEq for str>::eq") or cal.endswith("PartialEq<str> for std::string::String>::eq") or cal.endswith("str>::eq_ignore_ascii_case"):
            lit = None
            txt = None
            for a, v in zip(args, avs):
                if "k" in a and "str" in a["k"]:
                    lit = a["k"]["str"]
                elif v is not None and v[0] == "text":
                    txt = v
            if lit is not None and txt is not None:
                self.text_cmps.append(dict(fn=fn, b=b, lit=lit, rules=txt[1], norm=txt[2], ignore_case=cal.endswith("eq_ignore_ascii_case"), chain=chain))
            return out(None)
        # ---- wrappers that carry the tracked value through (`?`, clone, into_iter, by-ref adaptors)
        passthru = ("as std::ops::Try>::branch", "as std::iter::IntoIterator>::into_iter", "as std::clone::Clone>::clone", "std::clone::Clone::clone",
                    "std::iter::Iterator::by_ref", "Pairs::<'i, R>::peekable")
        if any(cal.endswith(p) for p in passthru) and avs and avs[0] is not None:
            v = avs[0]
            return out(v if v[0] != "wrap" else v)
        if cal.endswith("std::iter::Iterator::map") and avs and avs[0] is not None and avs[0][0] == "pairs":
            elems = self.g.reachable_labels(avs[0][1])
            # analyse the closure with the element rules (assumed to be consumed)
            cl = self.closure_of(fn, args[1])
            if cl is not None:
                self.analyze(cl, (None, ("pair", elems)), chain)
            return out(("map", avs[0][1], cl.name if cl else None))
        if cal.endswith("Option::<T>::ok_or_else") or cal.endswith("Option::<T>::ok_or"):
            o = avs[0]
            if o is not None and o[0] == "opt":
                return out(("wrap", ("pair", o[1])))
            return out(None)
        # ---- local callees taking tracked values
        callee = self.prog.get(self.crate, cal) if c.get("via") in ("direct", "trait_impl", "trait_default") else None
        if callee is not None and callee.kind != "promoted":
            ret = self.analyze(callee, tuple(v if (v is not None and v[0] in ("pair", "pairs", "opt", "rule")) else None for v in avs), chain)
            # an iterator lent by `&mut` may have been advanced arbitrarily by the callee
            for r, ty in zip(raw, c["argtys"]):
                if r is not None and r[0] == "refto" and ty.startswith("&mut"):
                    cur = env.get(r[1])
                    if cur is not None and cur[0] == "pairs":
                        env = dict(env)
                        env[r[1]] = ("pairs", self.all_states_from(cur[1]))
            v = ret if ret is not None and ret[0] != "top" else None
            if v is not None and v[0] in ("pair", "pairs", "opt") and kind_of_type(dty) is None:
                v = ("wrap", v)
            if tgt is None:
                return []
            e2 = dict(env)
            if dl is not None:
                if v is None:
                    e2.pop(dl, None)
                else:
                    e2[dl] = v
            return [(tgt, e2)]
        # calls that consume a &mut to a tracked iterator in unknown ways
        for r in raw:
            if r is not None and r[0] == "refto" and "&mut" in " ".join(c["argtys"]):
                env = dict(env)
                cur = env.get(r[1])
                if cur is not None and cur[0] == "pairs":
                    env[r[1]] = ("pairs", self.all_states_from(cur[1]))
        if tgt is None:
            return []
        e2 = dict(env)
        if dl is not None:
            # unknown result of a tracked kind: conservative top of that kind
            k = kind_of_type(dty)
            if k == "pair":
                e2[dl] = ("pair", self.all_rules)
            elif k == "opt":
                e2[dl] = ("opt", self.all_rules, True, True)
            else:
                e2.pop(dl, None)
        return [(tgt, e2)]

    def all_states_from(self, states):
        seen, st = set(states), list(states)
        while st:
            s = st.pop()
            _, _, succ = self.step(frozenset([s]))
            for z in succ:
                if z not in seen:
                    seen.add(z)
                    st.append(z)
        return frozenset(seen)

    def step(self, states):
        tops = [s for s in states if isinstance(s[0], str) and s[0].startswith("#top:")]
        labels, may_end, succ = set(), False, set()
        rest = frozenset(s for s in states if s not in tops)
        for (r, x) in tops:
            if x == 0:
                labels.add(r[len("#top:"):])
                succ.add((r, 1))
            else:
                may_end = True
        if rest:
            l2, e2, s2 = self.g.step(rest)
            labels |= l2
            may_end = may_end or e2
            succ |= s2
        return frozenset(labels), may_end, frozenset(succ)

    def closure_of(self, fn, oj):
        pj = oj.get("mv") or oj.get("cp")
        if pj is None:
            return None
        for blk in fn.blocks:
            for s in blk.stmts:
                if "a" in s and s["a"]["l"] == pj["l"] and not s["a"].get("p") and s["rv"].get("agg") == "closure":
                    return self.prog.get(self.crate, s["rv"]["closure"])
        return None
