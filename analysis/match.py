"""Matchers over canonical fact keys / terms, and DNF queries used by rule files."""
from .terms import path_str, strip_refs, strip_casts, subterms, show
from .ir import norm_path


def is_path(t, p):
    return path_str(t) == p


def key_discr(p):
    """key predicate: discr(<path p>)"""
    return lambda k: k[0] == "discr" and path_str(k[1]) == p


def key_discr_where(pred):
    return lambda k: k[0] == "discr" and pred(k[1])


def key_path(p):
    return lambda k: path_str(k) == p


def key_cmp(op, pa, pb):
    """key predicate for ('cmp', op, a, b); for 'eq' operands are unordered"""
    def m(k):
        if k[0] != "cmp" or k[1] != op:
            return False
        a, b = k[2], k[3]
        if pa(a) and pb(b):
            return True
        return op == "eq" and pa(b) and pb(a)
    return m


def t_path(p):
    return lambda t: path_str(strip_casts(strip_refs(t))) == p


def t_const(v):
    return lambda t: strip_casts(t) == ("const", v)


def t_any(t):
    return True


def t_len_of(p):
    """len(<path p>) possibly through Deref::deref calls / refs"""
    def m(t):
        t = strip_casts(t)
        if t[0] != "len":
            return False
        return mentions_path(t[1], p)
    return m


def t_call(name, *argpreds):
    def m(t):
        t = strip_refs(t)
        if t[0] != "call" or not callee_matches(t[1], name):
            return False
        if argpreds and (len(argpreds) != len(t[2]) or not all(p(a) for p, a in zip(argpreds, t[2]))):
            return False
        return True
    return m


def callee_matches(callee, name):
    c = norm_path(callee)
    n = norm_path(name)
    return c == n or c.endswith("::" + n)


def mentions_path(t, p):
    return any(path_str(s) == p for s in subterms(t) if isinstance(s, tuple))


def mentions(t, pred):
    return any(pred(s) for s in subterms(t) if isinstance(s, tuple))


def all_disj(S, keypred, allowed):
    """every disjunct has a fact whose key satisfies keypred with value-set ⊆ allowed.
    Returns (ok, witness-text)"""
    if not S:
        return False, "site unreachable in the guard analysis (no fact-set)"
    allowed = set(allowed)
    for fs in S:
        ok = False
        for k, vs in fs.items():
            if keypred(k) and vs[0] == "in" and vs[1] <= allowed:
                ok = True
                break
        if not ok:
            return False, "path class without the guard: {" + "; ".join("%s∈%s" % (show(k), fmt_vs(v)) for k, v in fs.items()) + "}"
    return True, ""


def disj_where(S, keypred, allowed):
    allowed = set(allowed)
    out = []
    for fs in S:
        for k, vs in fs.items():
            if keypred(k) and vs[0] == "in" and vs[1] <= allowed:
                out.append(fs)
                break
    return out


def fmt_vs(v):
    return ("" if v[0] == "in" else "¬") + "{" + ",".join(sorted(map(str, v[1]))) + "}"


def fmt_facts(fs):
    return "{" + "; ".join("%s∈%s" % (show(k), fmt_vs(v)) for k, v in fs.items()) + "}"


def mentions_through_defs(f, tb, t, pred, depth=0):
    """`t` mentions a sub-term satisfying pred - directly, or through a multi-definition local every definition of which is `None`
    (or a unit variant) or mentions it (`let x = match y { Some(v) if c => Some(v), _ => None }` written out from a combinator)"""
    if mentions(t, pred):
        return True
    if depth > 3:
        return False
    roots = [x for x in subterms(t) if isinstance(x, tuple) and x and x[0] == "local"]
    if not roots:
        return False
    for r in roots:
        some = 0
        ok = True
        for d in tb.defs.get(r[1], ()):
            dv = tb.rvalue(f.blocks[d[1]].stmts[d[2]]["rv"]) if d[0] == "stmt" else tb.call_term(f.blocks[d[1]].term["call"])
            if dv[0] == "agg" and not dv[3]:
                continue
            if not mentions_through_defs(f, tb, dv, pred, depth + 1):
                ok = False
                break
            some += 1
        if ok and some >= 1:
            return True
    return False
