"""IR layer over the mirfacts JSON: functions, places, operands, CFG, dominators."""
import functools
import re


def mk_place(j):
    proj = []
    for e in j.get("p", []):
        if e == "deref":
            proj.append(("deref",))
        elif isinstance(e, str):
            proj.append((e,))
        elif "f" in e:
            proj.append(("f", e["f"]))
        elif "dc" in e:
            proj.append(("dc", e["dc"]))
        elif "idx" in e:
            proj.append(("idx", e["idx"]))
        elif "cidx" in e:
            proj.append(("cidx", e["cidx"], e.get("from_end", False)))
        elif "sub" in e:
            proj.append(("sub", e["sub"][0], e["sub"][1], e.get("from_end", False)))
        else:
            proj.append(("?", str(e)))
    return (j["l"], tuple(proj))


def place_field_tys(j):
    """field name -> type string for Field projections of a JSON place (diagnostics / who-writes)."""
    out = []
    for e in j.get("p", []):
        if isinstance(e, dict) and "f" in e:
            out.append((e["f"], e.get("ty")))
    return out


def mk_operand(j):
    if "cp" in j:
        return ("cp", mk_place(j["cp"]))
    if "mv" in j:
        return ("mv", mk_place(j["mv"]))
    return ("k", j["k"])


class Block:
    __slots__ = ("idx", "stmts", "term", "cleanup")

    def __init__(self, idx, j):
        self.idx = idx
        self.stmts = j["s"]
        self.term = j["t"]
        self.cleanup = bool(j.get("cleanup"))


class Fn:
    def __init__(self, name, j, crate):
        self.name = name
        self.j = j
        self.crate = crate
        self.kind = j["kind"]
        self.module = j["module"]
        self.file = j["file"]
        self.line = j["line"]
        self.vis = j["vis"]
        self.parent = j["parent"]
        self.argc = j["argc"]
        self.locals = j["locals"]
        self.blocks = [Block(i, b) for i, b in enumerate(j["blocks"])]
        self.upvars = {i: n for i, n in j.get("upvars", [])}
        self._succ = None
        self._pred = None

    def __repr__(self):
        return "Fn(%s)" % self.name

    # ---- CFG (normal control flow only; cleanup blocks are not part of facts' targets) ----
    def term_succs(self, b):
        t = self.blocks[b].term
        if "goto" in t:
            return [t["goto"]]
        if "switch" in t:
            out = [x[1] for x in t["targets"]]
            out.append(t["otherwise"])
            return out
        if "call" in t:
            tg = t["call"]["target"]
            return [] if tg is None else [tg]
        if "assert" in t or "drop" in t:
            return [t["target"]]
        return []

    @property
    def succ(self):
        if self._succ is None:
            self._succ = [list(dict.fromkeys(self.term_succs(b.idx))) for b in self.blocks]
        return self._succ

    @property
    def pred(self):
        if self._pred is None:
            p = [[] for _ in self.blocks]
            for b, ss in enumerate(self.succ):
                for s in ss:
                    p[s].append(b)
            self._pred = p
        return self._pred

    @functools.cached_property
    def reachable(self):
        seen = {0}
        st = [0]
        while st:
            b = st.pop()
            for s in self.succ[b]:
                if s not in seen:
                    seen.add(s)
                    st.append(s)
        return seen

    @functools.cached_property
    def rpo(self):
        seen = set()
        order = []

        def dfs(b):
            stack = [(b, iter(self.succ[b]))]
            seen.add(b)
            while stack:
                n, it = stack[-1]
                adv = False
                for s in it:
                    if s not in seen:
                        seen.add(s)
                        stack.append((s, iter(self.succ[s])))
                        adv = True
                        break
                if not adv:
                    order.append(n)
                    stack.pop()

        dfs(0)
        order.reverse()
        return order

    @functools.cached_property
    def dom(self):
        """dom[b] = set of blocks dominating b (incl. b)."""
        rpo = self.rpo
        allb = set(rpo)
        dom = {b: set(allb) for b in rpo}
        dom[0] = {0}
        changed = True
        while changed:
            changed = False
            for b in rpo:
                if b == 0:
                    continue
                ps = [p for p in self.pred[b] if p in dom]
                new = set.intersection(*[dom[p] for p in ps]) if ps else set()
                new = new | {b}
                if new != dom[b]:
                    dom[b] = new
                    changed = True
        return dom

    @functools.cached_property
    def return_blocks(self):
        return [b.idx for b in self.blocks if "ret" in b.term and b.idx in self.reachable]

    @functools.cached_property
    def diverging_blocks(self):
        """reachable blocks that end the function abnormally (panic call w/o target, unreachable)."""
        out = []
        for b in self.blocks:
            if b.idx not in self.reachable:
                continue
            t = b.term
            if ("call" in t and t["call"]["target"] is None) or "unreachable" in t:
                out.append(b.idx)
        return out

    @functools.cached_property
    def pdom(self):
        """pdom[b] = blocks post-dominating b w.r.t. normal returns (virtual exit = all `ret`).
        Blocks that cannot reach a return (diverging) post-dominate nothing but themselves."""
        exits = self.return_blocks
        nodes = [b for b in self.reachable]
        EXIT = -1
        succ = {b: list(self.succ[b]) for b in nodes}
        for e in exits:
            succ[e] = [EXIT]
        # restrict to nodes that can reach EXIT
        can = {EXIT}
        changed = True
        while changed:
            changed = False
            for b in nodes:
                if b not in can and any(s in can for s in succ[b]):
                    can.add(b)
                    changed = True
        pd = {b: set(can) for b in can}
        pd[EXIT] = {EXIT}
        changed = True
        while changed:
            changed = False
            for b in can:
                if b == EXIT:
                    continue
                ss = [s for s in succ[b] if s in can]
                new = set.intersection(*[pd[s] for s in ss]) if ss else set()
                new = new | {b}
                if new != pd[b]:
                    pd[b] = new
                    changed = True
        for b in nodes:
            if b not in pd:
                pd[b] = {b}
        return pd

    def back_edges(self):
        out = []
        for b in self.reachable:
            for s in self.succ[b]:
                if s in self.dom.get(b, ()):  # s dominates b
                    out.append((b, s))
        return out

    def natural_loop(self, src, head):
        """blocks of the natural loop of the back edge src -> head"""
        body = {head, src}
        work = [src]
        pred = self.pred
        while work:
            x = work.pop()
            if x == head:
                continue
            for p_ in pred[x]:
                if p_ not in body:
                    body.add(p_)
                    work.append(p_)
        return body

    def loc(self, b, i=None):
        blk = self.blocks[b]
        if i is None or i >= len(blk.stmts):
            ln = blk.term.get("ln")
        else:
            ln = blk.stmts[i].get("ln")
        return "%s:%s" % (self.file, ln)


def norm_path(n):
    """strip generic-parameter segments: Peripheral::<'a>::new -> Peripheral::new"""
    prev = None
    while prev != n:
        prev = n
        n = re.sub(r"::<[^<>]*>", "", n)
    return n


class Program:
    """All analysed crates: functions, adts, impls."""

    def __init__(self, crates):
        self.fns = {}
        self.adts = {}
        self.impls = []
        self.traits = {}
        self.crates = crates
        self.folded = {}
        from .normalize import fold_new_helpers, restore_param_names
        self.renamed_params = {}
        for cname, j in crates.items():
            nr = restore_param_names(cname, j)
            if nr:
                self.renamed_params[cname] = nr
            # new private helpers (names the rules have never seen) are read as part of their callers
            got = fold_new_helpers(cname, j)
            if got:
                self.folded[cname] = got
            for n, fj in j["fns"].items():
                key = n if cname == "profirust" or n not in self.fns else cname + "::" + n
                self.fns[(cname, n)] = Fn(n, fj, cname)
            for n, a in j["adts"].items():
                self.adts[(cname, n)] = a
            for i in j["impls"]:
                i = dict(i, crate=cname)
                self.impls.append(i)
            for n, t in j["traits"].items():
                self.traits[(cname, n)] = t
        import os as _os
        self.desugared = 0
        if not _os.environ.get("VERIF_NO_DESUGAR"):
            self.desugar_all()

    def desugar_all(self):
        """write out every Option / Result / bool combinator call (with a closure created in the same body) as the `match` it stands for"""
        from .inline import desugar
        n = 0
        for key, f in list(self.fns.items()):
            if f.kind == "promoted":
                continue
            g = desugar(self, f)
            if g is not f:
                self.fns[key] = g
                self.crates[key[0]]["fns"][key[1]] = g.j
                n += getattr(g, "desugared", 1)
                # closures whose only use was the combinator call now live in the parent's body: drop the dead originals
                for cname in self._dead_closures(g):
                    ck = (key[0], cname)
                    if ck in self.fns and not any(k2 != ck and k2[1].startswith(cname + "::{closure#") for k2 in self.fns):
                        del self.fns[ck]
                        self.crates[key[0]]["fns"].pop(cname, None)
        self.desugared = n
        return n

    @staticmethod
    def _dead_closures(g):
        """closures created in g that are never handed to a call (directly or through moves / borrows of the closure value)"""
        created = {}
        for blk in g.blocks:
            for s in blk.stmts:
                rv = s.get("rv") if isinstance(s, dict) and "a" in s else None
                if rv and rv.get("agg") == "closure" and not s["a"].get("p"):
                    created[s["a"]["l"]] = rv["closure"]
        dead = []
        for l0, cname in created.items():
            alias = {l0}
            changed = True
            while changed:
                changed = False
                for blk in g.blocks:
                    for s in blk.stmts:
                        if "a" not in s or s["a"].get("p"):
                            continue
                        rv = s["rv"]
                        src = None
                        if "use" in rv:
                            src = rv["use"].get("mv") or rv["use"].get("cp")
                        elif "ref" in rv:
                            src = rv["ref"]
                        if src is not None and not (src.get("p") or []) and src["l"] in alias and s["a"]["l"] not in alias:
                            alias.add(s["a"]["l"])
                            changed = True
            used = False
            for blk in g.blocks:
                c = blk.term.get("call") if isinstance(blk.term, dict) else None
                if c is None:
                    continue
                for a in c["args"]:
                    pj = a.get("mv") or a.get("cp")
                    if pj is not None and pj["l"] in alias and not (pj.get("p") or []):
                        used = True
            # stored into an aggregate / field?  then it may escape: keep
            for blk in g.blocks:
                for s in blk.stmts:
                    rv = s.get("rv") if "a" in s else None
                    if rv and "fields" in rv and rv.get("agg") != "closure":
                        for o in rv["fields"]:
                            pj = o.get("mv") or o.get("cp")
                            if pj is not None and pj["l"] in alias:
                                used = True
            if not used:
                dead.append(cname)
        return dead

    def fn(self, crate, name):
        """lookup by exact def-path, or by def-path with generic segments (`::<'a>`) stripped"""
        if (crate, name) in self.fns:
            return self.fns[(crate, name)]
        if not hasattr(self, "_norm"):
            self._norm = {}
            for (c, n), f in self.fns.items():
                self._norm.setdefault((c, norm_path(n)), []).append(f)
        c = self._norm.get((crate, norm_path(name)), [])
        if len(c) == 1:
            return c[0]
        if not c:
            raise KeyError("anchor missing: function %s::%s not found in facts" % (crate, name))
        raise KeyError("ambiguous function %s::%s" % (crate, name))

    def get(self, crate, name):
        return self.fns.get((crate, name))

    def crate_fns(self, crate):
        return [f for (c, _), f in self.fns.items() if c == crate]

    def closures_of(self, fn):
        pre = fn.name + "::{closure#"
        out = [f for (c, n), f in self.fns.items() if c == fn.crate and n.startswith(pre) and f.kind == "closure"]
        # closures created in the body but named after another function (the body of a folded helper)
        for blk in fn.blocks:
            for s in blk.stmts:
                rv = s.get("rv") if isinstance(s, dict) else None
                if rv and rv.get("agg") == "closure":
                    g = self.fns.get((fn.crate, rv.get("closure")))
                    if g is not None and g not in out:
                        out.append(g)
        return out

    def adt(self, crate, name):
        return self.adts.get((crate, name))

    def enum_variants(self, crate, name):
        a = self.adts.get((crate, name))
        if not a:
            return None
        return [v["name"] for v in a["variants"]]


def load_program(config="default", crates=("profirust",)):
    from . import facts

    return Program({c: facts.load(c, config) for c in crates})
