"""Inventory of panic sources in MIR (shared by the R-PANIC rules C05 and C19).

Three kinds of site can unwind:
  * calls into the panic machinery (`panic!`, `unreachable!`, `assert!`, `unwrap_failed`, ...),
  * `Assert` terminators (overflow / bounds / division checks; the compiler-inserted pointer checks of
    debug builds guard raw-pointer dereferences written by std macros and are listed separately),
  * calls to *extern* functions whose contract includes a panic (table MAY_PANIC_EXTERN below).  Every other
    extern function of core/alloc/std is assumed not to panic (trusted base; allocation failure aborts, it
    does not unwind).
"""
import re

PANIC_PREFIXES = ("core::panicking::", "std::rt::begin_panic", "std::rt::panic_fmt", "core::option::unwrap_failed",
                  "core::result::unwrap_failed", "core::option::expect_failed", "core::slice::index::slice_",
                  "core::str::slice_error_fail", "std::panicking::begin_panic", "core::cell::panic_already")

# compiler-inserted debug checks on raw pointer dereferences (not value dependent in safe code)
UB_CHECK_KINDS = ("MisalignedPointerDereference", "NullPointerDereference", "InvalidEnumConstruction")

_INT = r"(?:u8|u16|u32|u64|u128|usize|i8|i16|i32|i64|i128|isize)"
_OPS = r"(?:Add|Sub|Mul|Div|Rem|Shl|Shr|Neg)"
MAY_PANIC_EXTERN = [
    # (kind, regex on the resolved callee path)
    ("unwrap", re.compile(r"(?:^|::)option::Option::<T>::(?:unwrap|expect)$")),
    ("unwrap", re.compile(r"(?:^|::)result::Result::<T, E>::(?:unwrap|expect|unwrap_err|expect_err)$")),
    ("arith", re.compile(r"^<&?(?:'\w+ )?" + _INT + r" as std::ops::" + _OPS + r"(?:Assign)?(?:<&?(?:'\w+ )?" + _INT + r">)?>::\w+$")),
    ("arith", re.compile(r"^core::num::<impl " + _INT + r">::(?:pow|abs|next_power_of_two|div_euclid|rem_euclid|ilog\w*|isqrt|div_ceil|next_multiple_of|strict_\w+|abs_diff_never)$")),
    ("arith", re.compile(r"as std::ops::" + _OPS + r"(?:Assign)?(?:<.*>)?>::\w+$")),  # Duration, Instant and friends
    ("index", re.compile(r"as std::ops::Index(?:Mut)?<.*>>::index(?:_mut)?$")),
    ("index", re.compile(r"<impl std::ops::Index(?:Mut)?<.*> for .*>::index(?:_mut)?$")),
    ("index", re.compile(r"^bitvec::slice::BitSlice::<T, O>::(?:set|replace|swap|split_at|split_at_mut|copy_within|rotate_left|rotate_right|copy_from_bitslice|clone_from_bitslice)$")),
    ("arith", re.compile(r"<impl std::ops::" + _OPS + r"(?:Assign)?(?:<.*>)? for .*>::\w+$")),
    ("index", re.compile(r"^core::slice::<impl \[T\]>::(?:copy_from_slice|clone_from_slice|split_at|split_at_mut|swap|chunks\w*|rchunks\w*|windows|rotate_left|rotate_right|copy_within|select_nth_unstable\w*|fill_with_never)$")),
    ("index", re.compile(r"^core::str::<impl str>::split_at(?:_mut)?$")),
    ("index", re.compile(r"(?:^|::)vec::Vec::<T, A>::(?:remove|insert|swap_remove|split_off|drain|splice|extend_from_within)$")),
    ("index", re.compile(r"(?:^|::)string::String::(?:remove|insert|insert_str|truncate|drain|split_off|replace_range)$")),
    ("index", re.compile(r"(?:^|::)collections::VecDeque::<T, A>::(?:swap|insert|split_off|drain|range\w*)$")),
    ("radix", re.compile(r"^core::num::<impl " + _INT + r">::from_str_radix$")),
    ("radix", re.compile(r"^core::char::methods::<impl char>::(?:from_digit|to_digit|is_digit)$")),
    ("borrow", re.compile(r"(?:^|::)cell::RefCell::<T>::(?:borrow|borrow_mut)$")),
    ("iter", re.compile(r"^std::iter::Iterator::step_by$")),
    ("unwrap", re.compile(r"(?:^|::)(?:option::Option|result::Result)::<.*>::(?:unwrap_unchecked_never)$")),
]


def is_panic_call(callee):
    return bool(callee) and callee.startswith(PANIC_PREFIXES)


def may_panic_kind(callee):
    if not callee:
        return None
    for kind, rx in MAY_PANIC_EXTERN:
        if rx.search(callee):
            return kind
    return None


def sites(fn, prog, crate):
    """-> list of dicts(kind, b, callee/assert kind, mac) for every potential panic source in fn (cleanup blocks excluded:
    they only run while already unwinding)"""
    out = []
    for b, blk in enumerate(fn.blocks):
        if blk.cleanup:
            continue
        t = blk.term
        if "assert" in t:
            k = t.get("kind") or "?"
            out.append(dict(kind="ubcheck" if k in UB_CHECK_KINDS else "assert", b=b, what=k, mac=t.get("mac") or []))
        elif "call" in t:
            c = t["call"]
            cal = c.get("callee") or c.get("decl") or ""
            if is_panic_call(cal):
                out.append(dict(kind="panic-call", b=b, what=cal, mac=t.get("mac") or []))
                continue
            local = prog.get(crate, cal) if c.get("via") != "dyn" else None
            if local is not None:
                continue
            k = may_panic_kind(cal)
            if k:
                out.append(dict(kind="extern-" + k, b=b, what=cal, mac=t.get("mac") or []))
    return out
