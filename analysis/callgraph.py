"""Call graph over the facts: resolved direct/trait calls, closures constructed in a body, dyn dispatch
to every local impl of the trait method, and Debug/Display impls made callable by fmt::Argument
constructors (a logger that formats every record)."""
from .query import call_sites, stmts
from .ir import norm_path


class CallGraph:
    def __init__(self, prog, crate):
        self.prog = prog
        self.crate = crate
        self.edges = {}
        self.dyn_impls = {}  # trait method path -> [impl fn names]
        self.fmt_impls = {}  # (trait, self type) -> fn name
        for im in prog.impls:
            if im["crate"] != crate:
                continue
            for tm, fm in im["methods"].items():
                self.dyn_impls.setdefault(tm, []).append(fm)
            if im["trait"] in ("std::fmt::Debug", "std::fmt::Display"):
                for tm, fm in im["methods"].items():
                    self.fmt_impls[(im["trait"], norm_ty(im["self_ty"]))] = fm
        for f in prog.crate_fns(crate):
            self.edges[f.name] = self._edges_of(f)

    def _edges_of(self, f):
        out = set()
        for b, c in call_sites(f):
            cal = c.get("callee")
            via = c.get("via")
            if cal and self.prog.get(self.crate, cal) is not None and via != "dyn":
                out.add(cal)
            if via == "dyn" or via == "trait_unresolved":
                tm = c.get("decl") or cal
                for fm in self.dyn_impls.get(tm, []):
                    if via == "dyn" or True:
                        out.add(fm)
            if cal and (cal.endswith("Argument::<'_>::new_debug") or cal.endswith("Argument::<'_>::new_display")):
                tr = "std::fmt::Debug" if cal.endswith("new_debug") else "std::fmt::Display"
                ty = norm_ty(c["substs"][-1]) if c.get("substs") else ""
                ty = ty.lstrip("&").replace("mut ", "")
                fm = self.fmt_impls.get((tr, ty))
                if fm:
                    out.add(fm)
        for b, i, s in stmts(f):
            if "a" in s and s["rv"].get("agg") == "closure":
                out.add(s["rv"]["closure"])
        # derived / manual Debug impls call field formatters through &dyn Debug: unsize casts to dyn Debug
        for b, i, s in stmts(f):
            if "a" in s and "cast" in s["rv"] and "Unsize" in s["rv"]["cast"] and "dyn std::fmt::Debug" in s["rv"].get("ty", ""):
                ty = norm_ty(s["rv"].get("from", "")).lstrip("&").replace("mut ", "").lstrip("&")
                fm = self.fmt_impls.get(("std::fmt::Debug", ty))
                if fm:
                    out.add(fm)
        return out

    def reachable(self, roots):
        seen = set()
        st = [r for r in roots]
        while st:
            n = st.pop()
            if n in seen:
                continue
            seen.add(n)
            st.extend(self.edges.get(n, ()))
        return seen


def norm_ty(t):
    import re
    t = re.sub(r"'\w+\s*,?\s*", "", t)
    t = t.replace("<>", "")
    return t.strip()


def reached_only_from(prog, crate, cg, name, allowed, _seen=None):
    """is `name` one of the allowed functions, or a private helper all of whose callers are (transitively) such?  Lets who-writes rules
    accept a store that was moved from an allowed writer into a helper it calls."""
    if name in allowed:
        return True
    seen = _seen if _seen is not None else set()
    if name in seen:
        return False
    seen.add(name)
    f = prog.get(crate, name)
    if f is None or f.j.get("vis") == "pub":
        return False
    callers = [g for g, es in cg.edges.items() if name in es and g != name]
    if not callers:
        return False
    return all(reached_only_from(prog, crate, cg, g, allowed, seen) for g in callers)
