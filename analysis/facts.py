"""Fact production and loading (E1 glue).

Facts are produced by the mirfacts rustc driver under `cargo +nightly check`
for /repo's *current working tree* and cached by a content hash of every
source / manifest file, so an edited tree always gets fresh facts.
"""
import fcntl
import hashlib
import json
import re
import os
import shutil
import subprocess
import sys
import tempfile
import time

VERIF = os.path.dirname(os.path.dirname(os.path.abspath(__file__)))
REPO = os.environ.get("VERIF_REPO", "/repo")
CACHE = os.path.join(VERIF, ".cache")
DRIVER_DIR = os.path.join(VERIF, "engines", "mirfacts")
DRIVER = os.path.join(DRIVER_DIR, "target", "debug", "mirfacts")
CRATES = ["profirust", "gsd_parser", "gsdtool"]

# feature configurations (name -> cargo args); "default" is the quick tier
CONFIGS = {
    "default": ["--workspace"],
    "no_default": ["-p", "profirust", "--no-default-features"],
    "alloc": ["-p", "profirust", "--no-default-features", "--features", "alloc"],
    "phy_linux": ["-p", "profirust", "--features", "phy-linux"],
    "phy_rp2040": ["-p", "profirust", "--features", "phy-rp2040"],
    "debug_measure": ["-p", "profirust", "--features", "debug-measure-roundtrip,debug-measure-dp-cycle"],
}
CONFIG_CRATES = {"default": CRATES}


def tree_hash(repo=REPO):
    h = hashlib.sha256()
    files = []
    for root, dirs, fs in os.walk(repo):
        dirs[:] = sorted(d for d in dirs if d not in ("target", ".git", "img", "proptest-regressions"))
        for f in sorted(fs):
            if f.endswith((".rs", ".pest", ".toml", ".lock", ".gsd")):
                files.append(os.path.join(root, f))
    for p in files:
        h.update(os.path.relpath(p, repo).encode())
        h.update(b"\0")
        with open(p, "rb") as fh:
            h.update(fh.read())
        h.update(b"\0")
    # the driver itself is part of the key
    for p in (os.path.join(DRIVER_DIR, "src", "main.rs"), os.path.join(DRIVER_DIR, "src", "json.rs")):
        with open(p, "rb") as fh:
            h.update(fh.read())
    return h.hexdigest()[:24]


def sysroot_lib():
    out = subprocess.run(["rustc", "+nightly", "--print", "sysroot"], capture_output=True, text=True, check=True)
    return os.path.join(out.stdout.strip(), "lib")


def build_driver():
    if os.path.exists(DRIVER):
        src_m = max(os.path.getmtime(os.path.join(DRIVER_DIR, "src", f)) for f in ("main.rs", "json.rs"))
        if os.path.getmtime(DRIVER) >= src_m:
            return
    env = dict(os.environ, CARGO_NET_OFFLINE="true")
    r = subprocess.run(["cargo", "build", "--offline"], cwd=DRIVER_DIR, env=env, capture_output=True, text=True)
    if r.returncode != 0:
        sys.stderr.write(r.stdout + r.stderr)
        raise SystemExit("mirfacts driver failed to build")


def _produce(config, outdir):
    build_driver()
    tgt = tempfile.mkdtemp(prefix="verif-tgt-")
    try:
        env = dict(os.environ)
        env.update(
            LD_LIBRARY_PATH=sysroot_lib() + ":" + env.get("LD_LIBRARY_PATH", ""),
            RUSTFLAGS="-Zmir-opt-level=0 -Awarnings",
            RUSTC_WORKSPACE_WRAPPER=DRIVER,
            MIRFACTS_CRATES=",".join(CRATES),
            MIRFACTS_OUT=outdir,
            CARGO_TARGET_DIR=tgt,
            CARGO_NET_OFFLINE="true",
        )
        env.pop("RUSTC_WRAPPER", None)
        cmd = ["cargo", "+nightly", "check", "--offline"] + CONFIGS[config]
        r = subprocess.run(cmd, cwd=REPO, env=env, capture_output=True, text=True)
        if r.returncode != 0:
            sys.stderr.write(r.stdout[-4000:] + r.stderr[-8000:])
            raise SystemExit("cargo check under mirfacts failed for config %s (the tree does not compile?)" % config)
    finally:
        shutil.rmtree(tgt, ignore_errors=True)


def ensure(config="default"):
    """Return directory holding <crate>.json for the current /repo tree."""
    os.makedirs(CACHE, exist_ok=True)
    h = tree_hash()
    d = os.path.join(CACHE, h, config)
    want = CONFIG_CRATES.get(config, ["profirust"])
    lock = open(os.path.join(CACHE, ".lock-" + h), "w")  # per tree: different trees extract in parallel
    fcntl.flock(lock, fcntl.LOCK_EX)
    try:
        if not all(os.path.exists(os.path.join(d, c + ".json")) for c in want):
            tmp = tempfile.mkdtemp(prefix="facts-", dir=CACHE)
            t0 = time.time()
            _produce(config, tmp)
            for c in want:
                if not os.path.exists(os.path.join(tmp, c + ".json")):
                    raise SystemExit("fact file for crate %s missing after extraction (fail closed)" % c)
            os.makedirs(os.path.dirname(d), exist_ok=True)
            if os.path.exists(d):
                shutil.rmtree(d)
            os.rename(tmp, d)
            with open(os.path.join(d, "meta.json"), "w") as fh:
                json.dump({"tree_hash": h, "config": config, "extract_s": round(time.time() - t0, 1)}, fh)
            _gc(h)
    finally:
        fcntl.flock(lock, fcntl.LOCK_UN)
        lock.close()
    return d


def _gc(keep):
    """Keep the cache small: drop all but the 24 most recent tree hashes."""
    ents = []
    for e in os.listdir(CACHE):
        p = os.path.join(CACHE, e)
        if os.path.isdir(p) and not e.startswith("facts-"):
            ents.append((os.path.getmtime(p), e))
    ents.sort(reverse=True)
    for _, e in ents[24:]:
        if e != keep:
            shutil.rmtree(os.path.join(CACHE, e), ignore_errors=True)
            try:
                os.unlink(os.path.join(CACHE, ".lock-" + e))
            except OSError:
                pass


_loaded = {}


def load(crate, config="default"):
    key = (crate, config, tree_hash())
    if key not in _loaded:
        d = ensure(config)
        with open(os.path.join(d, crate + ".json")) as fh:
            txt = fh.read()
        # rustc prints `core` items through whatever re-export is visible from the crate; canonicalise
        txt = txt.replace("bitflags::__private::core::", "core::")
        if config != "default":
            txt = _canon_no_std(txt)
        _loaded[key] = json.loads(txt)
    return _loaded[key]


_PATH_TOKEN = re.compile(r"\b(?:core|alloc|std)(?:::(?:[A-Za-z_][A-Za-z_0-9]*|<impl [^<>]*>|<impl))+")
_vocab = {}


def _split_segs(tok):
    """split a path token at `::` outside of `<impl …>` segments"""
    out, cur, depth = [], "", 0
    i = 0
    while i < len(tok):
        if tok[i] == "<":
            depth += 1
        elif tok[i] == ">":
            depth -= 1
        if depth == 0 and tok.startswith("::", i):
            out.append(cur)
            cur = ""
            i += 2
            continue
        cur += tok[i]
        i += 1
    out.append(cur)
    return out


def _default_vocab():
    """how often rustc prints a path prefix (module chain, incl. inherent `<impl T>` blocks and the item name) with `std::` resp.
    `core::`/`alloc::` in the default (std) configuration of the same tree"""
    h = tree_hash()
    if h not in _vocab:
        d = ensure("default")
        with open(os.path.join(d, "profirust.json")) as fh:
            txt = fh.read().replace("bitflags::__private::core::", "core::")
        pref = {}
        def scan(t):
            for m in _PATH_TOKEN.finditer(t):
                segs = _split_segs(m.group(0))
                for j in range(2, len(segs) + 1):
                    k = "::".join(segs[:j])
                    pref[k] = pref.get(k, 0) + 1
                for sg in segs:
                    if sg.startswith("<impl ") and sg.endswith(">"):
                        scan(sg[6:-1])
        scan(txt)
        _vocab[h] = pref
    return _vocab[h]


def _canon_no_std(txt):
    """In no_std feature configurations rustc prints every core/alloc item as `core::…`/`alloc::…`, while the std configuration
    prints the re-exported ones as `std::…`.  The rules are written against the std spelling: rewrite a `core::`/`alloc::` path to
    `std::` when the std configuration of the same tree spells the longest known prefix of that path with `std::` (majority vote
    when both spellings occur for a prefix, e.g. inherent slice methods of core vs. alloc)."""
    vocab = _default_vocab()
    cache = {}

    def fix(m):
        tok = m.group(0)
        if tok.startswith("std::"):
            return tok
        orig = tok
        r = cache.get(orig)
        if r is not None:
            return r
        segs = _split_segs(tok)
        # paths inside an inherent/trait impl segment (`<impl core::clone::Clone for u16>`) are canonicalised on their own
        segs = [("<impl " + _PATH_TOKEN.sub(fix, sg[6:-1]) + ">") if (sg.startswith("<impl ") and sg.endswith(">")) else sg for sg in segs]
        tok = "::".join(segs)
        as_std = "std::" + "::".join(segs[1:])
        out = None
        for j in range(len(segs), 1, -1):
            nc = vocab.get("::".join(segs[:j]), 0)
            ns = vocab.get("std::" + "::".join(segs[1:j]), 0)
            if nc == 0 and ns == 0:
                continue
            out = as_std if ns > nc else tok
            break
        if out is None:
            out = as_std  # unseen anywhere: most of core/alloc is re-exported by std
        cache[orig] = out
        return out
    return _PATH_TOKEN.sub(fix, txt)
