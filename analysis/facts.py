"""Fact production and loading (E1 glue).

Facts are produced by the mirfacts rustc driver under `cargo +nightly check`
for /repo's *current working tree* and cached by a content hash of every
source / manifest file, so an edited tree always gets fresh facts.
"""
import fcntl
import hashlib
import json
import os
import shutil
import subprocess
import sys
import tempfile
import time

VERIF = os.path.dirname(os.path.dirname(os.path.abspath(__file__)))
REPO = os.environ.get("VERIF_REPO", "/repo")
CACHE = os.path.join(VERIF, ".cache")
DRIVER_DIR = os.path.join(VERIF, "engines", "mirfacts")
DRIVER = os.path.join(DRIVER_DIR, "target", "debug", "mirfacts")
CRATES = ["profirust", "gsd_parser", "gsdtool"]

# feature configurations (name -> cargo args); "default" is the quick tier
CONFIGS = {
    "default": ["--workspace"],
    "no_default": ["-p", "profirust", "--no-default-features"],
    "alloc": ["-p", "profirust", "--no-default-features", "--features", "alloc"],
    "phy_linux": ["-p", "profirust", "--features", "phy-linux"],
    "phy_rp2040": ["-p", "profirust", "--features", "phy-rp2040"],
    "debug_measure": ["-p", "profirust", "--features", "debug-measure-roundtrip,debug-measure-dp-cycle"],
}
CONFIG_CRATES = {"default": CRATES}


def tree_hash(repo=REPO):
    h = hashlib.sha256()
    files = []
    for root, dirs, fs in os.walk(repo):
        dirs[:] = sorted(d for d in dirs if d not in ("target", ".git", "img", "proptest-regressions"))
        for f in sorted(fs):
            if f.endswith((".rs", ".pest", ".toml", ".lock", ".gsd")):
                files.append(os.path.join(root, f))
    for p in files:
        h.update(os.path.relpath(p, repo).encode())
        h.update(b"\0")
        with open(p, "rb") as fh:
            h.update(fh.read())
        h.update(b"\0")
    # the driver itself is part of the key
    for p in (os.path.join(DRIVER_DIR, "src", "main.rs"), os.path.join(DRIVER_DIR, "src", "json.rs")):
        with open(p, "rb") as fh:
            h.update(fh.read())
    return h.hexdigest()[:24]


def sysroot_lib():
    out = subprocess.run(["rustc", "+nightly", "--print", "sysroot"], capture_output=True, text=True, check=True)
    return os.path.join(out.stdout.strip(), "lib")


def build_driver():
    if os.path.exists(DRIVER):
        src_m = max(os.path.getmtime(os.path.join(DRIVER_DIR, "src", f)) for f in ("main.rs", "json.rs"))
        if os.path.getmtime(DRIVER) >= src_m:
            return
    env = dict(os.environ, CARGO_NET_OFFLINE="true")
    r = subprocess.run(["cargo", "build", "--offline"], cwd=DRIVER_DIR, env=env, capture_output=True, text=True)
    if r.returncode != 0:
        sys.stderr.write(r.stdout + r.stderr)
        raise SystemExit("mirfacts driver failed to build")


def _produce(config, outdir):
    build_driver()
    tgt = tempfile.mkdtemp(prefix="verif-tgt-")
    try:
        env = dict(os.environ)
        env.update(
            LD_LIBRARY_PATH=sysroot_lib() + ":" + env.get("LD_LIBRARY_PATH", ""),
            RUSTFLAGS="-Zmir-opt-level=0 -Awarnings",
            RUSTC_WORKSPACE_WRAPPER=DRIVER,
            MIRFACTS_CRATES=",".join(CRATES),
            MIRFACTS_OUT=outdir,
            CARGO_TARGET_DIR=tgt,
            CARGO_NET_OFFLINE="true",
        )
        env.pop("RUSTC_WRAPPER", None)
        cmd = ["cargo", "+nightly", "check", "--offline"] + CONFIGS[config]
        r = subprocess.run(cmd, cwd=REPO, env=env, capture_output=True, text=True)
        if r.returncode != 0:
            sys.stderr.write(r.stdout[-4000:] + r.stderr[-8000:])
            raise SystemExit("cargo check under mirfacts failed for config %s (the tree does not compile?)" % config)
    finally:
        shutil.rmtree(tgt, ignore_errors=True)


def ensure(config="default"):
    """Return directory holding <crate>.json for the current /repo tree."""
    os.makedirs(CACHE, exist_ok=True)
    h = tree_hash()
    d = os.path.join(CACHE, h, config)
    want = CONFIG_CRATES.get(config, ["profirust"])
    lock = open(os.path.join(CACHE, ".lock"), "w")
    fcntl.flock(lock, fcntl.LOCK_EX)
    try:
        if not all(os.path.exists(os.path.join(d, c + ".json")) for c in want):
            tmp = tempfile.mkdtemp(prefix="facts-", dir=CACHE)
            t0 = time.time()
            _produce(config, tmp)
            for c in want:
                if not os.path.exists(os.path.join(tmp, c + ".json")):
                    raise SystemExit("fact file for crate %s missing after extraction (fail closed)" % c)
            os.makedirs(os.path.dirname(d), exist_ok=True)
            if os.path.exists(d):
                shutil.rmtree(d)
            os.rename(tmp, d)
            with open(os.path.join(d, "meta.json"), "w") as fh:
                json.dump({"tree_hash": h, "config": config, "extract_s": round(time.time() - t0, 1)}, fh)
            _gc(h)
    finally:
        fcntl.flock(lock, fcntl.LOCK_UN)
        lock.close()
    return d


def _gc(keep):
    """Keep the cache small: drop all but the 6 most recent tree hashes."""
    ents = []
    for e in os.listdir(CACHE):
        p = os.path.join(CACHE, e)
        if os.path.isdir(p) and not e.startswith("facts-"):
            ents.append((os.path.getmtime(p), e))
    ents.sort(reverse=True)
    for _, e in ents[6:]:
        if e != keep:
            shutil.rmtree(os.path.join(CACHE, e), ignore_errors=True)


_loaded = {}


def load(crate, config="default"):
    key = (crate, config, tree_hash())
    if key not in _loaded:
        d = ensure(config)
        with open(os.path.join(d, crate + ".json")) as fh:
            txt = fh.read()
        # rustc prints `core` items through whatever re-export is visible from the crate; canonicalise
        txt = txt.replace("bitflags::__private::core::", "core::")
        _loaded[key] = json.loads(txt)
    return _loaded[key]
