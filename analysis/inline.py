"""MIR-level inlining of private single-call-site helpers.

A maintainer may split a long function into phases (`serialize` -> `write_start` + rest) without changing behaviour.  Rules that
read a table or a per-path fact off *one* function body would lose their anchor.  `expand(prog, fn)` returns a copy of `fn` in which
every call of a local, non-public, non-recursive function that has exactly ONE call site in the whole crate is replaced by the callee's
body (parameters become locals assigned from the argument operands, `return` becomes an assignment to the call's destination followed
by a jump to the call's target).  Functions with several call sites (shared helpers such as mark_tx) are left alone, so on a tree
without such splits `expand` is the identity.
"""
import copy
import json
import os
import re

from .ir import Fn
from .query import call_sites

_SITES = {}


def call_site_counts(prog, crate):
    key = (id(prog), crate)
    if key not in _SITES:
        cnt = {}
        for f in prog.crate_fns(crate):
            for b, c in call_sites(f):
                cal = c.get("callee") or ""
                if c.get("via") in ("direct", "trait_impl", "trait_default") and prog.get(crate, cal) is not None:
                    cnt[cal] = cnt.get(cal, 0) + 1
        _SITES[key] = cnt
    return _SITES[key]


from .normalize import shift as _shift  # noqa: E402


def effectively_pub(prog, h):
    """`pub` and reachable from outside the crate: a `pub fn` in an inherent impl of a type that is not itself `pub` is private in effect"""
    if h.j.get("vis") != "pub":
        return False
    st = h.j.get("self_ty")
    if st and not h.j.get("trait_impl"):
        a = prog.adt(h.crate, st)
        if a is not None and a.get("vis") not in (None, "pub"):
            return False
    return True


def expand(prog, fn, max_depth=48, max_blocks=400, keep=()):
    """-> Fn with single-call-site private helpers inlined (the same object when nothing is inlined)"""
    crate = fn.crate
    counts = call_site_counts(prog, crate)
    fj = None
    done = 0
    work = True
    depth = 0
    cur = fn
    inlined = []
    while work and depth < max_depth:
        work = False
        depth += 1
        for b, c in call_sites(cur):
            cal = c.get("callee") or ""
            h = prog.get(crate, cal)
            if h is None or h is fn or cal == fn.name or h.kind not in ("fn", "assoc") or cal in keep:
                continue
            if c.get("via") not in ("direct", "trait_impl", "trait_default"):
                continue
            if effectively_pub(prog, h) or counts.get(cal, 0) != 1 or len(h.blocks) > max_blocks:
                continue
            if any((cc.get("callee") or "") == cal for _, cc in call_sites(h)):
                continue  # recursive
            if c.get("target") is None:
                continue
            if fj is None:
                fj = copy.deepcopy(cur.j)
            L0 = len(fj["locals"])
            B0 = len(fj["blocks"])
            fj["locals"].extend(copy.deepcopy(h.j["locals"]))
            hb = copy.deepcopy(h.j["blocks"])
            _shift(hb, L0, B0)
            dest = fj["blocks"][b]["t"]["call"]["dest"]
            tgt = fj["blocks"][b]["t"]["call"]["target"]
            args = fj["blocks"][b]["t"]["call"]["args"]
            ln = fj["blocks"][b]["t"].get("ln")
            for blk in hb:
                if "ret" in blk["t"]:
                    blk["s"].append({"a": copy.deepcopy(dest), "rv": {"use": {"mv": {"l": L0}}}, "ln": blk["t"].get("ln", ln)})
                    blk["t"] = {"goto": tgt, "ln": blk["t"].get("ln", ln)}
                blk["_from"] = cal
            for i, a in enumerate(args):
                fj["blocks"][b]["s"].append({"a": {"l": L0 + 1 + i}, "rv": {"use": copy.deepcopy(a)}, "ln": ln})
            fj["blocks"][b]["t"] = {"goto": B0, "ln": ln}
            fj["blocks"].extend(hb)
            inlined.append(cal)
            cur = Fn(fn.name, fj, crate)
            fj = None
            work = True
            break  # block indices changed: restart the scan on the new body
    if inlined:
        cur.inlined = inlined
    return cur


def expanded_fns(prog, fns):
    """the functions of `fns` with private single-call-site helpers folded into their only caller: helpers that were folded into
    another member of the list are dropped from it (their body is analysed in the caller's context)"""
    ex = [expand(prog, f) for f in fns]
    gone = set()
    for g in ex:
        gone |= set(getattr(g, "inlined", []))
    return [g for g in ex if g.name not in gone]


# ---------------------------------------------------------------------------------------------------------------------------------
# std combinators with closures, written out (`opt.map(|x| ..)` == `match opt { Some(x) => Some(..), None => None }`)
_OPT = ("std::option::Option", {"0": "None", "1": "Some"})
_RES = ("std::result::Result", {"0": "Ok", "1": "Err"})
COMBINATORS = {
    # name suffix: (adt, variant that runs the closure, what the closure gets, how the result is built)
    "option::Option::<T>::map": (_OPT, "Some", "payload", "wrap:Some"),
    "option::Option::<T>::and_then": (_OPT, "Some", "payload", "is"),
    "option::Option::<T>::filter": (_OPT, "Some", "payload-ref", "keep-if"),
    "option::Option::<T>::unwrap_or_else": (_OPT, "None", "nothing", "is|unwrap:Some"),
    "option::Option::<T>::ok_or_else": (_OPT, "None", "nothing", "wrapres:Err|rewrap:Ok"),
    "option::Option::<T>::is_some_and": (_OPT, "Some", "payload", "is|const:false"),
    "result::Result::<T, E>::map": (_RES, "Ok", "payload", "wrap:Ok"),
    "result::Result::<T, E>::map_err": (_RES, "Err", "payload", "wrap:Err"),
    "result::Result::<T, E>::and_then": (_RES, "Ok", "payload", "is"),
    "result::Result::<T, E>::unwrap_or_else": (_RES, "Err", "payload", "is|unwrap:Ok"),
}


def _payload_ty(ty, adt, variant):
    m = re.match(r"^std::(?:option::Option|result::Result)<(.*)>$", ty or "")
    if not m:
        return "?"
    body = m.group(1)
    if adt.endswith("Option"):
        return body
    depth, cut = 0, None
    for i, ch in enumerate(body):
        if ch in "<([{":
            depth += 1
        elif ch in ">)]}":
            depth -= 1
        elif ch == "," and depth == 0:
            cut = i
            break
    if cut is None:
        return "?"
    return body[:cut].strip() if variant == "Ok" else body[cut + 1:].strip()


def desugar(prog, fn, max_sites=24):
    """-> Fn in which calls of Option / Result combinators taking a closure created in the same body are written out as the `match` they
    stand for, with the closure's body folded in (the same object when there is nothing to do).  Exact by the documented semantics of
    the combinators (core::option / core::result)."""
    from .normalize import inline_call
    crate = fn.crate
    fns = prog.crates[crate]["fns"]
    fj = None
    done = 0
    skip = set()
    cur = fn
    while done < max_sites:
        site = None
        for b, c in call_sites(cur):
            if b in skip:
                continue
            cal = c.get("callee") or ""
            if cal.endswith("<impl bool>::then_some") and len(c["args"]) == 2 and c.get("target") is not None and b not in skip:
                bj = c["args"][0].get("mv") or c["args"][0].get("cp")
                if bj is not None:
                    site = (b, c, "then_some", bj, None, None, None)
                    break
                skip.add(b)
                continue
            is_then = cal.endswith("<impl bool>::then")
            spec = next((v for k, v in COMBINATORS.items() if cal.endswith(k)), None)
            if (spec is None and not is_then) or len(c["args"]) != 2 or c.get("target") is None:
                continue
            opj = c["args"][0].get("mv") or c["args"][0].get("cp")
            cpj = c["args"][1].get("mv") or c["args"][1].get("cp")
            fitem = (c["args"][1].get("k") or {}).get("fn") if "k" in c["args"][1] else None
            if is_then and opj is not None and fitem and isinstance(fitem, str):
                site = (b, c, "then-fn", opj, None, fitem, None)  # `c.then(f)` with a fn item: no environment, called directly
                break
            if opj is None or cpj is None or cpj.get("p"):
                skip.add(b)
                continue
            cname = None
            for blk in cur.blocks:
                for st in blk.stmts:
                    if "a" in st and st["a"]["l"] == cpj["l"] and not st["a"].get("p") and (st.get("rv") or {}).get("agg") == "closure":
                        cname = st["rv"]["closure"]
            cj = fns.get(cname) if cname else None
            if cj is None or not cj.get("blocks"):
                skip.add(b)
                continue
            site = (b, c, "then" if is_then else spec, opj, cpj, cname, cj)
            break
        if site is None:
            break
        if site[2] == "then-fn":
            b, c, _, bj, _, fname, _ = site
            fj = copy.deepcopy(cur.j)
            ln = fj["blocks"][b]["t"].get("ln")
            call = fj["blocks"][b]["t"]["call"]
            dest, tgt = call["dest"], call["target"]
            rty = _payload_ty(fj["locals"][dest["l"]]["ty"], _OPT[0], "Some") if not dest.get("p") else "?"
            fj["locals"].append({"ty": rty, "name": None})
            r = len(fj["locals"]) - 1
            fj["blocks"].append({"s": [{"a": copy.deepcopy(dest), "rv": {"agg": "adt", "adt": _OPT[0], "variant": "Some", "fnames": ["0"], "fields": [{"mv": {"l": r}}]}, "ln": ln}],
                                 "t": {"goto": tgt, "ln": ln}})
            after = len(fj["blocks"]) - 1
            fj["blocks"].append({"s": [], "t": {"call": {"decl": fname, "callee": fname, "substs": [], "rsubsts": [], "via": "direct", "args": [], "argtys": [],
                                                         "dest": {"l": r}, "target": after}, "ln": ln}})
            run = len(fj["blocks"]) - 1
            fj["blocks"].append({"s": [{"a": copy.deepcopy(dest), "rv": {"agg": "adt", "adt": _OPT[0], "variant": "None", "fnames": [], "fields": []}, "ln": ln}],
                                 "t": {"goto": tgt, "ln": ln}})
            none = len(fj["blocks"]) - 1
            fj["blocks"][b]["t"] = {"switch": copy.deepcopy(call["args"][0]), "sty": "bool", "targets": [["0", none]], "otherwise": run, "ln": ln}
            cur = Fn(fn.name, fj, crate)
            done += 1
            continue
        if site[2] == "then":
            # `c.then(|| v)` == `if c { Some(v()) } else { None }`
            b, c, _, bj, cpj, cname, cj = site
            fj = copy.deepcopy(cur.j)
            ln = fj["blocks"][b]["t"].get("ln")
            call = fj["blocks"][b]["t"]["call"]
            dest, tgt = call["dest"], call["target"]
            fj["locals"].append({"ty": cj["locals"][0]["ty"], "name": None})
            r = len(fj["locals"]) - 1
            ety = cj["locals"][1]["ty"]
            fj["locals"].append({"ty": ety, "name": None})
            e = len(fj["locals"]) - 1
            env_stmt = {"a": {"l": e}, "rv": ({"ref": {"l": cpj["l"]}, "mut": ety.startswith("&mut")} if ety.startswith("&") else {"use": {"mv": {"l": cpj["l"]}}}), "ln": ln}
            fj["blocks"].append({"s": [{"a": copy.deepcopy(dest), "rv": {"agg": "adt", "adt": _OPT[0], "variant": "Some", "fnames": ["0"], "fields": [{"mv": {"l": r}}]}, "ln": ln}],
                                 "t": {"goto": tgt, "ln": ln}})
            after = len(fj["blocks"]) - 1
            fj["blocks"].append({"s": [env_stmt], "t": {"call": {"decl": cname, "callee": cname, "substs": [], "rsubsts": [], "via": "direct", "args": [{"mv": {"l": e}}],
                                                                 "argtys": [ety], "dest": {"l": r}, "target": after}, "ln": ln}})
            run = len(fj["blocks"]) - 1
            fj["blocks"].append({"s": [{"a": copy.deepcopy(dest), "rv": {"agg": "adt", "adt": _OPT[0], "variant": "None", "fnames": [], "fields": []}, "ln": ln}],
                                 "t": {"goto": tgt, "ln": ln}})
            none = len(fj["blocks"]) - 1
            fj["blocks"][b]["t"] = {"switch": copy.deepcopy(call["args"][0]), "sty": "bool", "targets": [["0", none]], "otherwise": run, "ln": ln}
            inline_call(fj, run, cj, cname)
            cur = Fn(fn.name, fj, crate)
            done += 1
            continue
        if site[2] == "then_some":
            # `c.then_some(v)` == `if c { Some(v) } else { None }` (v is evaluated either way: it already is an operand)
            b, c, _, bj, _, _, _ = site
            fj = copy.deepcopy(cur.j)
            ln = fj["blocks"][b]["t"].get("ln")
            call = fj["blocks"][b]["t"]["call"]
            dest, tgt = call["dest"], call["target"]
            fj["blocks"].append({"s": [{"a": copy.deepcopy(dest), "rv": {"agg": "adt", "adt": _OPT[0], "variant": "Some", "fnames": ["0"], "fields": [copy.deepcopy(call["args"][1])]}, "ln": ln}],
                                 "t": {"goto": tgt, "ln": ln}})
            fj["blocks"].append({"s": [{"a": copy.deepcopy(dest), "rv": {"agg": "adt", "adt": _OPT[0], "variant": "None", "fnames": [], "fields": []}, "ln": ln}],
                                 "t": {"goto": tgt, "ln": ln}})
            n = len(fj["blocks"])
            fj["blocks"][b]["t"] = {"switch": copy.deepcopy(call["args"][0]), "sty": "bool", "targets": [["0", n - 1]], "otherwise": n - 2, "ln": ln}
            cur = Fn(fn.name, fj, crate)
            done += 1
            continue
        b, c, ((adt, variants), run_var, gets, build), opj, cpj, cname, cj = site
        fj = copy.deepcopy(cur.j)
        ln = fj["blocks"][b]["t"].get("ln")
        call = fj["blocks"][b]["t"]["call"]
        dest, tgt = call["dest"], call["target"]
        oty = call["argtys"][0]
        other_var = [v for v in variants.values() if v != run_var][0]

        def new_local(ty):
            fj["locals"].append({"ty": ty, "name": None})
            return len(fj["locals"]) - 1

        def new_block(stmts, term):
            fj["blocks"].append({"s": stmts, "t": dict(term, ln=ln)})
            return len(fj["blocks"]) - 1
        d = new_local("isize")
        pty = _payload_ty(oty, adt, run_var)
        oty_other = _payload_ty(oty, adt, other_var)
        r = new_local(cj["locals"][0]["ty"])
        ety = cj["locals"][1]["ty"]
        e = new_local(ety)
        o_place = copy.deepcopy(opj)

        def payload(var, ty):
            p_ = copy.deepcopy(o_place)
            p_["p"] = list(p_.get("p") or []) + [{"dc": var}, {"f": "0", "i": 0, "ty": ty}]
            return p_

        def agg(var, fields):
            return {"agg": "adt", "adt": adt, "variant": var, "fnames": ["0"] if fields else [], "fields": fields}
        env_stmt = {"a": {"l": e}, "rv": ({"ref": {"l": cpj["l"]}, "mut": ety.startswith("&mut")} if ety.startswith("&") else {"use": {"mv": {"l": cpj["l"]}}}), "ln": ln}
        # the arm that runs the closure
        pre = [env_stmt]
        args = [{"mv": {"l": e}}]
        if gets == "payload":
            x = new_local(pty)
            pre.append({"a": {"l": x}, "rv": {"use": {"mv": payload(run_var, pty)}}, "ln": ln})
            args.append({"mv": {"l": x}})
        elif gets == "payload-ref":
            x = new_local("&" + pty)
            pre.append({"a": {"l": x}, "rv": {"ref": payload(run_var, pty), "mut": False}, "ln": ln})
            args.append({"mv": {"l": x}})
        after = new_block([], {"goto": tgt})
        run = new_block(pre, {"call": {"decl": cname, "callee": cname, "substs": [], "rsubsts": [], "via": "direct", "args": args,
                                       "argtys": [ety] + ([pty] if len(args) > 1 else []), "dest": {"l": r}, "target": after}})
        parts = build.split("|")
        first = parts[0]
        A = fj["blocks"][after]
        if first.startswith("wrap:"):
            A["s"].append({"a": copy.deepcopy(dest), "rv": agg(first[5:], [{"mv": {"l": r}}]), "ln": ln})
        elif first.startswith("wrapres:"):
            A["s"].append({"a": copy.deepcopy(dest), "rv": {"agg": "adt", "adt": _RES[0], "variant": first[8:], "fnames": ["0"], "fields": [{"mv": {"l": r}}]}, "ln": ln})
        elif first == "is":
            A["s"].append({"a": copy.deepcopy(dest), "rv": {"use": {"mv": {"l": r}}}, "ln": ln})
        elif first == "keep-if":
            keep = new_block([{"a": copy.deepcopy(dest), "rv": {"use": {"mv": copy.deepcopy(o_place)}}, "ln": ln}], {"goto": tgt})
            drop = new_block([{"a": copy.deepcopy(dest), "rv": agg(other_var, []), "ln": ln}], {"goto": tgt})
            A["t"] = {"switch": {"mv": {"l": r}}, "sty": "bool", "targets": [["0", drop]], "otherwise": keep, "ln": ln}
        # the other arm
        ost = []
        second = parts[1] if len(parts) > 1 else None
        if second is None:
            if first.startswith("wrap:") and adt == _RES[0]:
                y = new_local(oty_other)
                ost.append({"a": {"l": y}, "rv": {"use": {"mv": payload(other_var, oty_other)}}, "ln": ln})
                ost.append({"a": copy.deepcopy(dest), "rv": agg(other_var, [{"mv": {"l": y}}]), "ln": ln})
            elif adt == _RES[0]:
                y = new_local(oty_other)
                ost.append({"a": {"l": y}, "rv": {"use": {"mv": payload(other_var, oty_other)}}, "ln": ln})
                ost.append({"a": copy.deepcopy(dest), "rv": agg(other_var, [{"mv": {"l": y}}]), "ln": ln})
            else:
                ost.append({"a": copy.deepcopy(dest), "rv": agg(other_var, []), "ln": ln})
        elif second.startswith("unwrap:"):
            ost.append({"a": copy.deepcopy(dest), "rv": {"use": {"mv": payload(second[7:], oty_other)}}, "ln": ln})
        elif second.startswith("rewrap:"):
            y = new_local(oty_other)
            ost.append({"a": {"l": y}, "rv": {"use": {"mv": payload(other_var, oty_other)}}, "ln": ln})
            ost.append({"a": copy.deepcopy(dest), "rv": {"agg": "adt", "adt": _RES[0], "variant": second[7:], "fnames": ["0"], "fields": [{"mv": {"l": y}}]}, "ln": ln})
        elif second.startswith("const:"):
            ost.append({"a": copy.deepcopy(dest), "rv": {"use": {"k": {"bool": second[6:] == "true"}}}, "ln": ln})
        other = new_block(ost, {"goto": tgt})
        vi = {v: k for k, v in variants.items()}
        fj["blocks"][b]["s"].append({"a": {"l": d}, "rv": {"discr": copy.deepcopy(o_place), "adt": adt, "variants": dict(variants)}, "ln": ln})
        fj["blocks"][b]["t"] = {"switch": {"mv": {"l": d}}, "sty": "isize", "targets": [[vi[run_var], run]], "otherwise": other,
                                "discr_of": copy.deepcopy(o_place), "adt": adt, "variants": dict(variants), "ln": ln}
        inline_call(fj, run, cj, cname)
        cur = Fn(fn.name, fj, crate)
        done += 1
    if done:
        if os.environ.get("VERIF_NO_CAPTURE_FORWARD") != "1" and forward_captures(cur.j):
            cur = Fn(fn.name, cur.j, crate)
        cur.desugared = done
    return cur


def forward_captures(fj):
    """In closure bodies that were folded into their parent (blocks tagged `_from`), accesses through a captured reference are
    rewritten to the captured place itself: `t = &mut P; c = closure{.., t, ..}; e = move c | &mut c; x = (e).k | (*e).k; *x = v`
    becomes `P = v`.  Exact: the capture holds the only live reference to P between its creation and the call (borrow check), all
    locals involved are assigned once.  Modifies fj in place; returns the number of rewritten places."""
    ndef = {}
    refs, alias, clos, envref = {}, {}, {}, {}

    def bump(l):
        ndef[l] = ndef.get(l, 0) + 1
    for blk in fj["blocks"]:
        for st in blk["s"]:
            if isinstance(st, dict) and "a" in st and not st["a"].get("p"):
                bump(st["a"]["l"])
        c = blk["t"].get("call") if isinstance(blk["t"], dict) else None
        if c and c.get("dest") and not c["dest"].get("p"):
            bump(c["dest"]["l"])
    for blk in fj["blocks"]:
        for st in blk["s"]:
            if not (isinstance(st, dict) and "a" in st and not st["a"].get("p")):
                continue
            l, rv = st["a"]["l"], st.get("rv") or {}
            if ndef.get(l) != 1:
                continue
            if "ref" in rv and isinstance(rv["ref"], dict):
                refs[l] = rv["ref"]
            elif "use" in rv:
                op = rv["use"].get("mv") or rv["use"].get("cp")
                if op is not None:
                    alias[l] = op
            elif rv.get("agg") == "closure":
                clos[l] = [(f.get("mv") or f.get("cp")) for f in rv.get("fields", [])]

    def closure_of(l, depth=0):
        """-> (closure local, extra 'deref' needed?) for an environment local"""
        if depth > 4 or ndef.get(l) != 1:
            return None
        if l in clos:
            return l
        if l in alias and not alias[l].get("p"):
            return closure_of(alias[l]["l"], depth + 1)
        if l in refs and not refs[l].get("p"):
            return closure_of(refs[l]["l"], depth + 1)
        return None

    def captured_place(x, depth=0):
        """place P when local x holds `&(mut) P` captured by a folded closure, else None"""
        if depth > 4 or ndef.get(x) != 1:
            return None
        if x in refs and closure_of(x) is None:
            return refs[x]
        op = alias.get(x)
        if op is None:
            return None
        pr = [q for q in op.get("p", [])]
        if not pr:
            return captured_place(op["l"], depth + 1)
        fld = [q for q in pr if q != "deref"]
        if len(fld) != 1 or not isinstance(fld[0], dict) or "f" not in fld[0]:
            return None
        c = closure_of(op["l"])
        if c is None:
            return None
        k = fld[0].get("i")
        if k is None:
            try:
                k = int(fld[0]["f"])
            except (TypeError, ValueError):
                return None
        if k >= len(clos[c]) or clos[c][k] is None or clos[c][k].get("p"):
            return None
        return captured_place(clos[c][k]["l"], depth + 1)

    n = 0
    used = set()   # capture-reference locals whose accesses were forwarded

    def origin(x, depth=0):
        """the local `t` of `t = &(mut) P` behind a captured-reference local x"""
        if depth > 4:
            return None
        if x in refs and closure_of(x) is None:
            return x
        op = alias.get(x)
        if op is None:
            return None
        if not op.get("p"):
            return origin(op["l"], depth + 1)
        fld = [q for q in op["p"] if q != "deref"]
        c = closure_of(op["l"])
        if c is None or len(fld) != 1 or not isinstance(fld[0], dict):
            return None
        k = fld[0].get("i")
        if k is None or k >= len(clos[c]) or clos[c][k] is None:
            return None
        return origin(clos[c][k]["l"], depth + 1)

    def rewrite(pl):
        nonlocal n
        if not isinstance(pl, dict) or "l" not in pl:
            return
        pr = pl.get("p") or []
        if pr and pr[0] == "deref":
            P = captured_place(pl["l"])
            if P is not None:
                o = origin(pl["l"])
                if o is not None:
                    used.add(o)
                pl["l"] = P["l"]
                pl["p"] = copy.deepcopy(P.get("p", [])) + pr[1:]
                n += 1

    def walk(j):
        if isinstance(j, dict):
            if "l" in j and isinstance(j.get("l"), int):
                rewrite(j)
            for v in j.values():
                walk(v)
        elif isinstance(j, list):
            for x in j:
                walk(x)
    for blk in fj["blocks"]:
        if blk.get("_from") and "{closure#" in str(blk.get("_from")):
            walk(blk["s"])
            walk(blk["t"])
    # the capture `t = &mut P` of a folded closure whose accesses now name P directly is no longer a way to reach P: it only feeds the
    # (dead) closure value.  Tag it so that who-writes queries do not report it as an untracked mutable borrow.
    if used:
        feeds = {}
        for blk in fj["blocks"]:
            for st in blk["s"]:
                if isinstance(st, dict) and "a" in st:
                    js = json.dumps(st.get("rv"))
                    for t in used:
                        if ('"l": %d}' % t) in js or ('"l": %d,' % t) in js:
                            feeds.setdefault(t, []).append(st)
            tj = json.dumps(blk["t"])
            for t in used:
                if ('"l": %d}' % t) in tj or ('"l": %d,' % t) in tj:
                    feeds.setdefault(t, []).append(None)
        for blk in fj["blocks"]:
            for st in blk["s"]:
                if isinstance(st, dict) and "a" in st and not st["a"].get("p") and st["a"]["l"] in used and "ref" in (st.get("rv") or {}):
                    fs_ = feeds.get(st["a"]["l"], [])
                    if fs_ and all(x is not None and (x.get("rv") or {}).get("agg") == "closure" for x in fs_):
                        st["dead_capture"] = True
    return n
