"""MIR-level inlining of private single-call-site helpers.

A maintainer may split a long function into phases (`serialize` -> `write_start` + rest) without changing behaviour.  Rules that
read a table or a per-path fact off *one* function body would lose their anchor.  `expand(prog, fn)` returns a copy of `fn` in which
every call of a local, non-public, non-recursive function that has exactly ONE call site in the whole crate is replaced by the callee's
body (parameters become locals assigned from the argument operands, `return` becomes an assignment to the call's destination followed
by a jump to the call's target).  Functions with several call sites (shared helpers such as mark_tx) are left alone, so on a tree
without such splits `expand` is the identity.
"""
import copy

from .ir import Fn
from .query import call_sites

_SITES = {}


def call_site_counts(prog, crate):
    key = (id(prog), crate)
    if key not in _SITES:
        cnt = {}
        for f in prog.crate_fns(crate):
            for b, c in call_sites(f):
                cal = c.get("callee") or ""
                if c.get("via") in ("direct", "trait_impl", "trait_default") and prog.get(crate, cal) is not None:
                    cnt[cal] = cnt.get(cal, 0) + 1
        _SITES[key] = cnt
    return _SITES[key]


from .normalize import shift as _shift  # noqa: E402


def effectively_pub(prog, h):
    """`pub` and reachable from outside the crate: a `pub fn` in an inherent impl of a type that is not itself `pub` is private in effect"""
    if h.j.get("vis") != "pub":
        return False
    st = h.j.get("self_ty")
    if st and not h.j.get("trait_impl"):
        a = prog.adt(h.crate, st)
        if a is not None and a.get("vis") not in (None, "pub"):
            return False
    return True


def expand(prog, fn, max_depth=48, max_blocks=400, keep=()):
    """-> Fn with single-call-site private helpers inlined (the same object when nothing is inlined)"""
    crate = fn.crate
    counts = call_site_counts(prog, crate)
    fj = None
    done = 0
    work = True
    depth = 0
    cur = fn
    inlined = []
    while work and depth < max_depth:
        work = False
        depth += 1
        for b, c in call_sites(cur):
            cal = c.get("callee") or ""
            h = prog.get(crate, cal)
            if h is None or h is fn or cal == fn.name or h.kind not in ("fn", "assoc") or cal in keep:
                continue
            if c.get("via") not in ("direct", "trait_impl", "trait_default"):
                continue
            if effectively_pub(prog, h) or counts.get(cal, 0) != 1 or len(h.blocks) > max_blocks:
                continue
            if any((cc.get("callee") or "") == cal for _, cc in call_sites(h)):
                continue  # recursive
            if c.get("target") is None:
                continue
            if fj is None:
                fj = copy.deepcopy(cur.j)
            L0 = len(fj["locals"])
            B0 = len(fj["blocks"])
            fj["locals"].extend(copy.deepcopy(h.j["locals"]))
            hb = copy.deepcopy(h.j["blocks"])
            _shift(hb, L0, B0)
            dest = fj["blocks"][b]["t"]["call"]["dest"]
            tgt = fj["blocks"][b]["t"]["call"]["target"]
            args = fj["blocks"][b]["t"]["call"]["args"]
            ln = fj["blocks"][b]["t"].get("ln")
            for blk in hb:
                if "ret" in blk["t"]:
                    blk["s"].append({"a": copy.deepcopy(dest), "rv": {"use": {"mv": {"l": L0}}}, "ln": blk["t"].get("ln", ln)})
                    blk["t"] = {"goto": tgt, "ln": blk["t"].get("ln", ln)}
                blk["_from"] = cal
            for i, a in enumerate(args):
                fj["blocks"][b]["s"].append({"a": {"l": L0 + 1 + i}, "rv": {"use": copy.deepcopy(a)}, "ln": ln})
            fj["blocks"][b]["t"] = {"goto": B0, "ln": ln}
            fj["blocks"].extend(hb)
            inlined.append(cal)
            cur = Fn(fn.name, fj, crate)
            fj = None
            work = True
            break  # block indices changed: restart the scan on the new body
    if inlined:
        cur.inlined = inlined
    return cur


def expanded_fns(prog, fns):
    """the functions of `fns` with private single-call-site helpers folded into their only caller: helpers that were folded into
    another member of the list are dropped from it (their body is analysed in the caller's context)"""
    ex = [expand(prog, f) for f in fns]
    gone = set()
    for g in ex:
        gone |= set(getattr(g, "inlined", []))
    return [g for g in ex if g.name not in gone]
