"""C02  Token ring forms and all stations agree on the list of active stations.

The property is convergence / agreement / stability of SEVERAL independently scheduled stations; that is NOT decided.
Decided: the LAS-maintenance conditions of ONE station - structural necessary conditions without which a station's list of active
stations, successor or predecessor provably differs from what it has seen on the bus:
 a  learn from every token: in the telegram-driven code of the stations that do not hold the token, a received token telegram is
    fed to `TokenRing::witness_token_pass(sa, da)` with the telegram's own addresses, except for the enumerated reasons (station
    already offline, telegram carries the own address as source = address collision, token for this station that is the last
    buffered telegram = the acceptance rule of C11 applies, dispatcher re-entered in ListenToken);
 b  the own token pass is entered into the own view: every path of the token-passing handler that transmits a token records
    witness_token_pass(own address, next station);
 c  NS / PS follow the LAS: inside TokenRing every path of a function that mutates `active_stations` afterwards recomputes
    next/previous station (update_next_previous), and only the constructor and that function write the two fields;
 d  the LAS becomes valid only after a verification rotation and `ready` is derived from it (imported C12 f.truthful); a station
    that goes offline forgets its ring view (imported C12 d.truthful offline clause);
 e  the token is passed to NS and accepted from PS or on the second offer (imported C11 b.accept, d.pass, e.alone);
 f  removal / re-admission keep the view equal to the online set (imported C11 c.supervision, C12 a/e).
NOT decided here: the arithmetic of the bit-vector updates (which addresses are cleared/set by one token pass, that NS/PS are the
cyclic neighbours) beyond panic freedom (C05), and everything that quantifies over several stations.
"""
from analysis import rule
from analysis.guards import GuardAnalysis
from analysis.terms import TermBuilder, show, path_str, strip_refs, strip_casts, subterms
from analysis.query import call_sites, callee_is, stmts, has_field, mut_uses_of_field
from analysis import match as M

PID = "C02"
CR = "profirust"
WIT = "fdl::token_ring::TokenRing::witness_token_pass"


def is_own_addr(t):
    p = path_str(strip_casts(strip_refs(t))) or ""
    return p.endswith("p.address") or p.endswith("this_station")


def telegram_param(f):
    """index of the parameter (or closure argument) that carries the received telegram, else None"""
    for i, l in enumerate(f.locals[1:f.argc + 1], 1):
        if "fdl::telegram::Telegram<" in l["ty"] and "TelegramTx" not in l["ty"]:
            return i
    return None


def check_learn(ctx, P):
    nfn = ncls = 0
    for f in P.crate_fns(CR):
        if f.module != "fdl::active" or f.kind == "promoted" or telegram_param(f) is None:
            continue
        if not any(True for _ in call_sites(f, lambda c: callee_is(c, WIT))):
            continue
        nfn += 1
        ctx.analysed_fns.add(f.name)
        tb = TermBuilder(f, P)
        marks = {}
        badargs = []
        for b, c in call_sites(f, lambda c: callee_is(c, WIT)):
            a1, a2 = [path_str(strip_casts(strip_refs(tb.joperand(a)))) or "" for a in c["args"][1:3]]
            if a1.endswith(".sa") and a2.endswith(".da") and "Token" in a1 and "Token" in a2:
                marks[(b, None)] = "wit"
            else:
                badargs.append("%s witness_token_pass(%s, %s)" % (f.loc(b), a1, a2))
        ctx.ob("a.learn", "witness-args|%s" % f.name.split("::", 2)[-1], not badargs,
               "a received token is entered into the ring view with other addresses than its own source and destination: " + "; ".join(badargs[:2]), f.loc(0))
        g = GuardAnalysis(f, P, marks=marks)
        bad = []
        for rb in f.return_blocks:
            for fs in g.at(rb):
                kind = [vs for k, vs in fs.items() if k[0] == "discr" and path_str(strip_refs(k[1])) == "telegram"]
                if not kind or kind[0] != ("in", frozenset(["Token"])):
                    continue
                ncls += 1
                if 0 not in g.count_of(fs, "wit"):
                    continue
                reason = False
                for k, vs in fs.items():
                    # own address seen as source (collision)
                    if k[0] == "cmp" and k[1] == "eq" and vs == ("in", frozenset([True])) and (
                            (is_own_addr(k[2]) or any(is_own_addr(s) for s in subterms(k[2]) if isinstance(s, tuple))) or
                            (is_own_addr(k[3]) or any(is_own_addr(s) for s in subterms(k[3]) if isinstance(s, tuple)))) and (
                            "source_address" in show(k) or show(k).count(".sa") > 0) and ".da" not in show(k):
                        reason = True
                    # token addressed to this station and nothing buffered behind it: acceptance rule (C11.b)
                    if k[0] == "cmp" and k[1] == "eq" and vs == ("in", frozenset([True])) and ".da" in show(k) and (is_own_addr(k[2]) or is_own_addr(k[3])):
                        if any(path_str(k2) == "is_last_telegram" and vs2 == ("in", frozenset([True])) for k2, vs2 in fs.items()):
                            reason = True
                    # already offline / dispatcher entered in ListenToken
                    if k[0] == "discr" and "connectivity_state" in show(k[1]) and vs == ("in", frozenset(["Offline"])):
                        reason = True
                    if k[0] == "discr" and path_str(k[1]) == "self.state" and vs[0] == "in" and "ActiveIdle" not in vs[1] and f.kind != "closure":
                        reason = True
                if not reason:
                    bad.append(M.fmt_facts(fs)[:320])
        ctx.ob("a.learn", "every-token-witnessed|%s" % f.name.split("::", 2)[-1], not bad,
               "a received token telegram is not entered into the list of active stations on a path class that is none of: own address as "
               "source (collision), token for this station as last buffered telegram (acceptance rule), already offline, not in ActiveIdle: "
               "the station's ring view misses a pass it has seen: " + "; ".join(bad[:2]), f.loc(0))
    ctx.anchor("telegram-driven functions that witness token passes", nfn, 2)
    ctx.anchor("token path classes in those functions", ncls, 5)


def check_own_pass(ctx, P):
    n = 0
    for f in P.crate_fns(CR):
        if f.module != "fdl::active" or f.kind in ("promoted", "closure") or telegram_param(f) is not None:
            continue
        sites = [(b, c) for b, c in call_sites(f, lambda c: callee_is(c, WIT))]
        if not sites:
            continue
        n += 1
        ctx.analysed_fns.add(f.name)
        tb = TermBuilder(f, P)
        marks = {}
        for b, c in sites:
            a1 = strip_casts(strip_refs(tb.joperand(c["args"][1])))
            a2 = strip_casts(strip_refs(tb.joperand(c["args"][2])))
            if is_own_addr(a1) and a2[0] == "call" and M.callee_matches(a2[1], "next_station"):
                marks[(b, None)] = "wit"
        for b, c in call_sites(f):
            cal = c.get("callee") or ""
            if cal.endswith("::transmit_telegram") and any("send_token_telegram" in (c2.get("callee") or "") for cl in P.crate_fns(CR)
                                                          if cl.kind == "closure" and cl.name.startswith(f.name + "::") for _, c2 in call_sites(cl)):
                marks[(b, None)] = "tok"
        g = GuardAnalysis(f, P, marks=marks)
        bad = []
        ntx = 0
        for rb in f.return_blocks:
            for fs in g.at(rb):
                if g.count_of(fs, "tok") == {0}:
                    continue
                ntx += 1
                if 0 in g.count_of(fs, "wit"):
                    bad.append(M.fmt_facts(fs)[:300])
        ctx.anchor("exit classes of %s that transmitted a token" % f.name.split("::")[-1], ntx, 1)
        ctx.ob("b.own-pass", "own-pass-witnessed|%s" % f.name.split("::")[-1], not bad,
               "the station passes the token on without entering its own pass (own address -> next station) into its ring view: " + "; ".join(bad[:2]), f.loc(0))
    ctx.anchor("poll-driven functions that record the own token pass", n, 1)


def check_ns_ps(ctx, P):
    """c: NS/PS follow the LAS"""
    upd = "fdl::token_ring::TokenRing::update_next_previous"
    writers = {}
    for fld in ("next_station", "previous_station"):
        for u in mut_uses_of_field(P, CR, fld, None):
            f = u["fn"]
            if f.module == "fdl::token_ring" and not f.j.get("derived") and u["kind"] in ("assign", "refmut", "calldest"):
                writers.setdefault(f.name, set()).add(fld)
    allowed = {"fdl::token_ring::TokenRing::new", upd}
    ctx.ob("c.ns-ps", "writers-of-ns-ps", bool(writers) and set(writers) <= allowed,
           "next_station / previous_station are written outside the constructor and update_next_previous (%s): NS/PS can differ from the "
           "cyclic neighbours in the list of active stations" % sorted(set(writers) - allowed))
    nm = 0
    for f in P.crate_fns(CR):
        if f.module != "fdl::token_ring" or f.kind in ("promoted", "closure") or f.j.get("derived") or f.name.endswith("::new"):
            continue
        muts = [u for u in mut_uses_of_field(P, CR, "active_stations", None) if u["fn"] is f and u["kind"] in ("assign", "refmut", "calldest")]
        if not muts:
            continue
        nm += 1
        ctx.analysed_fns.add(f.name)
        marks = {}
        for u in muts:
            marks[(u["b"], u["i"])] = "mut"
        for b, c in call_sites(f):
            cal = c.get("callee") or ""
            if cal == upd:
                marks[(b, None)] = "upd"
            else:
                tgt = P.get(CR, cal)
                if tgt is not None and tgt.module == "fdl::token_ring" and tgt.name != f.name and must_update(P, tgt, upd):
                    marks[(b, None)] = "upd"
        # "mut ... upd" ordering: the last LAS mutation on a path must be followed by the recomputation: count mutations after the
        # last update by resetting through a second analysis: simple and exact here - require an update at or after every mutation
        g = GuardAnalysis(f, P, marks=marks)
        bad = []
        for rb in f.return_blocks:
            for fs in g.at(rb):
                if g.count_of(fs, "mut") != {0} and 0 in g.count_of(fs, "upd"):
                    bad.append(M.fmt_facts(fs)[:240])
        # order: no mutation site is reachable from an update site without passing another update (post-dominance by reachability)
        order_bad = []
        upd_blocks = {b for (b, i), m in marks.items() if m == "upd"}
        for (b, i), m in marks.items():
            if m != "mut":
                continue
            seen, st, hit = set(), list(f.succ[b]), False
            # from the mutation, every path to a return must pass an update block
            st = [b]
            while st:
                n_ = st.pop()
                if n_ in seen:
                    continue
                seen.add(n_)
                if n_ in upd_blocks and n_ != b:
                    continue
                if n_ in f.return_blocks:
                    hit = True
                    break
                st.extend(x for x in f.succ[n_] if not f.blocks[x].cleanup)
            if hit and b not in upd_blocks:
                order_bad.append(f.loc(b, i))
        ctx.ob("c.ns-ps", "las-write-then-update|%s" % f.name.split("::")[-1], not bad and not order_bad,
               "the list of active stations is changed on a path that does not recompute next/previous station afterwards (%s): NS/PS are "
               "stale" % "; ".join((bad + order_bad)[:2]), f.loc(0))
    ctx.anchor("TokenRing methods that change the list of active stations", nm, 3)


def must_update(P, f, upd, depth=0):
    """every return of f has passed a call of update_next_previous (directly or through a callee that must)"""
    marks = {}
    for b, c in call_sites(f):
        cal = c.get("callee") or ""
        if cal == upd:
            marks[(b, None)] = "upd"
        elif depth < 2:
            tgt = P.get(CR, cal)
            if tgt is not None and tgt.module == "fdl::token_ring" and tgt.name != f.name and must_update(P, tgt, upd, depth + 1):
                marks[(b, None)] = "upd"
    if not marks:
        return False
    g = GuardAnalysis(f, P, marks=marks)
    return all(0 not in g.count_of(fs, "upd") for rb in f.return_blocks for fs in g.at(rb))


def check(ctx):
    P = ctx.prog
    check_learn(ctx, P)
    check_own_pass(ctx, P)
    check_ns_ps(ctx, P)
    from rules import C11, C12
    rule.import_clauses(ctx, "C12", C12.check, clauses=("f.truthful", "d.truthful", "a.postcondition", "e.reply"), as_clause="d.validity+f.view")
    rule.import_clauses(ctx, "C11", C11.check, clauses=("b.accept", "d.pass", "e.alone", "c.supervision"), as_clause="e.pass-accept+f.view")
    ctx.assume("decides LAS-maintenance conditions of ONE station (necessary conditions); convergence, agreement and stability of the ring "
               "view across several independently scheduled stations are not decided; nor is the bit-vector arithmetic of one update")


if __name__ == "__main__":
    rule.run(PID, check, level="other",
             explanation="LAS-maintenance conditions of one station: closed world of reasons for not witnessing a received token, own pass "
                         "recorded on every token-transmitting exit, every LAS mutation followed by the NS/PS recomputation (who-writes + "
                         "per-path counters + reachability), plus the imported validity, acceptance/pass and removal/re-admission clauses of "
                         "C11/C12. Necessary conditions of C02; convergence/agreement of several stations is not decided.",
             trusted_base=["rustc MIR (nightly) as extracted by engines/mirfacts"],
             thorough_configs=("no_default", "alloc"))
