"""C02  Token ring forms and all stations agree on the list of active stations.

The property is convergence / agreement / stability of SEVERAL independently scheduled stations; that is NOT decided.
Decided: the LAS-maintenance conditions of ONE station - structural necessary conditions without which a station's list of active
stations, successor or predecessor provably differs from what it has seen on the bus:
 a  learn from every token: in the telegram-driven code of the stations that do not hold the token, a received token telegram is
    fed to `TokenRing::witness_token_pass(sa, da)` with the telegram's own addresses, except for the enumerated reasons (station
    already offline, telegram carries the own address as source = address collision, token for this station that is the last
    buffered telegram = the acceptance rule of C11 applies, dispatcher re-entered in ListenToken);
 b  the own token pass is entered into the own view: every path of the token-passing handler that transmits a token records
    witness_token_pass(own address, next station);
 c  NS / PS follow the LAS: inside TokenRing every path of a function that mutates `active_stations` afterwards recomputes
    next/previous station (update_next_previous), and only the constructor and that function write the two fields;
 d  the LAS becomes valid only after a verification rotation and `ready` is derived from it (imported C12 f.truthful); a station
    that goes offline forgets its ring view (imported C12 d.truthful offline clause);
 e  the token is passed to NS and accepted from PS or on the second offer (imported C11 b.accept, d.pass, e.alone);
 f  removal / re-admission keep the view equal to the online set (imported C11 c.supervision, C12 a/e).
 g  one witnessed pass sa -> da clears exactly the span [sa, da) (cyclically) and then enters sa (table of fill/set sites);
 h  NS = first active station above TS, else the first one, else TS; PS = last active below TS, else the last one, else TS (table of
    the definitions of the stored values; decided only for the Iterator::find spelling, otherwise recorded as not decided).
NOT decided here: everything that quantifies over several stations.
"""
from analysis import rule
from analysis.guards import GuardAnalysis
from analysis.terms import TermBuilder, show, path_str, strip_refs, strip_casts, subterms
from analysis.query import call_sites, callee_is, stmts, has_field, mut_uses_of_field
from analysis import match as M

PID = "C02"
CR = "profirust"
WIT = "fdl::token_ring::TokenRing::witness_token_pass"


def is_own_addr(t):
    p = path_str(strip_casts(strip_refs(t))) or ""
    return p.endswith("p.address") or p.endswith("this_station")


def telegram_param(f):
    """index of the parameter (or closure argument) that carries the received telegram, else None"""
    for i, l in enumerate(f.locals[1:f.argc + 1], 1):
        if "fdl::telegram::Telegram<" in l["ty"] and "TelegramTx" not in l["ty"]:
            return i
    return None


def check_learn(ctx, P):
    nfn = ncls = 0
    for f in P.crate_fns(CR):
        if f.module != "fdl::active" or f.kind == "promoted" or telegram_param(f) is None:
            continue
        if not any(True for _ in call_sites(f, lambda c: callee_is(c, WIT))):
            continue
        nfn += 1
        ctx.analysed_fns.add(f.name)
        tb = TermBuilder(f, P)
        marks = {}
        badargs = []
        for b, c in call_sites(f, lambda c: callee_is(c, WIT)):
            a1, a2 = [path_str(strip_casts(strip_refs(tb.joperand(a)))) or "" for a in c["args"][1:3]]
            if a1.endswith(".sa") and a2.endswith(".da") and "Token" in a1 and "Token" in a2:
                marks[(b, None)] = "wit"
            else:
                badargs.append("%s witness_token_pass(%s, %s)" % (f.loc(b), a1, a2))
        ctx.ob("a.learn", "witness-args|%s" % f.name.split("::", 2)[-1], not badargs,
               "a received token is entered into the ring view with other addresses than its own source and destination: " + "; ".join(badargs[:2]), f.loc(0))
        g = GuardAnalysis(f, P, marks=marks)
        bad = []
        for rb in f.return_blocks:
            for fs in g.at(rb):
                kind = [vs for k, vs in fs.items() if k[0] == "discr" and path_str(strip_refs(k[1])) == "telegram"]
                if not kind or kind[0] != ("in", frozenset(["Token"])):
                    continue
                ncls += 1
                if 0 not in g.count_of(fs, "wit"):
                    continue
                reason = False
                for k, vs in fs.items():
                    # own address seen as source (collision)
                    if k[0] == "cmp" and k[1] == "eq" and vs == ("in", frozenset([True])) and (
                            (is_own_addr(k[2]) or any(is_own_addr(s) for s in subterms(k[2]) if isinstance(s, tuple))) or
                            (is_own_addr(k[3]) or any(is_own_addr(s) for s in subterms(k[3]) if isinstance(s, tuple)))) and (
                            "source_address" in show(k) or show(k).count(".sa") > 0) and ".da" not in show(k):
                        reason = True
                    # token addressed to this station and nothing buffered behind it: acceptance rule (C11.b)
                    if k[0] == "cmp" and k[1] == "eq" and vs == ("in", frozenset([True])) and ".da" in show(k) and (is_own_addr(k[2]) or is_own_addr(k[3])):
                        if any(path_str(k2) == "is_last_telegram" and vs2 == ("in", frozenset([True])) for k2, vs2 in fs.items()):
                            reason = True
                    # already offline / dispatcher entered in ListenToken
                    if k[0] == "discr" and "connectivity_state" in show(k[1]) and vs == ("in", frozenset(["Offline"])):
                        reason = True
                    if k[0] == "discr" and path_str(k[1]) == "self.state" and vs[0] == "in" and "ActiveIdle" not in vs[1] and f.kind != "closure":
                        reason = True
                if not reason:
                    bad.append(M.fmt_facts(fs)[:320])
        ctx.ob("a.learn", "every-token-witnessed|%s" % f.name.split("::", 2)[-1], not bad,
               "a received token telegram is not entered into the list of active stations on a path class that is none of: own address as "
               "source (collision), token for this station as last buffered telegram (acceptance rule), already offline, not in ActiveIdle: "
               "the station's ring view misses a pass it has seen: " + "; ".join(bad[:2]), f.loc(0))
    ctx.anchor("telegram-driven functions that witness token passes", nfn, 2)
    ctx.anchor("token path classes in those functions", ncls, 5)


def check_own_pass(ctx, P):
    n = 0
    for f in P.crate_fns(CR):
        if f.module != "fdl::active" or f.kind in ("promoted", "closure") or telegram_param(f) is not None:
            continue
        sites = [(b, c) for b, c in call_sites(f, lambda c: callee_is(c, WIT))]
        if not sites:
            continue
        n += 1
        ctx.analysed_fns.add(f.name)
        tb = TermBuilder(f, P)
        marks = {}
        for b, c in sites:
            a1 = strip_casts(strip_refs(tb.joperand(c["args"][1])))
            a2 = strip_casts(strip_refs(tb.joperand(c["args"][2])))
            if is_own_addr(a1) and a2[0] == "call" and M.callee_matches(a2[1], "next_station"):
                marks[(b, None)] = "wit"
        for b, c in call_sites(f):
            cal = c.get("callee") or ""
            if cal.endswith("::transmit_telegram") and any("send_token_telegram" in (c2.get("callee") or "") for cl in P.crate_fns(CR)
                                                          if cl.kind == "closure" and cl.name.startswith(f.name + "::") for _, c2 in call_sites(cl)):
                marks[(b, None)] = "tok"
        g = GuardAnalysis(f, P, marks=marks)
        bad = []
        ntx = 0
        for rb in f.return_blocks:
            for fs in g.at(rb):
                if g.count_of(fs, "tok") == {0}:
                    continue
                ntx += 1
                if 0 in g.count_of(fs, "wit"):
                    bad.append(M.fmt_facts(fs)[:300])
        ctx.anchor("exit classes of %s that transmitted a token" % f.name.split("::")[-1], ntx, 1)
        ctx.ob("b.own-pass", "own-pass-witnessed|%s" % f.name.split("::")[-1], not bad,
               "the station passes the token on without entering its own pass (own address -> next station) into its ring view: " + "; ".join(bad[:2]), f.loc(0))
    ctx.anchor("poll-driven functions that record the own token pass", n, 1)


def check_ns_ps(ctx, P):
    """c: NS/PS follow the LAS"""
    upd = "fdl::token_ring::TokenRing::update_next_previous"
    writers = {}
    for fld in ("next_station", "previous_station"):
        for u in mut_uses_of_field(P, CR, fld, None):
            f = u["fn"]
            if f.module == "fdl::token_ring" and not f.j.get("derived") and u["kind"] in ("assign", "refmut", "calldest"):
                writers.setdefault(f.name, set()).add(fld)
    allowed = {"fdl::token_ring::TokenRing::new", upd}
    ctx.ob("c.ns-ps", "writers-of-ns-ps", bool(writers) and set(writers) <= allowed,
           "next_station / previous_station are written outside the constructor and update_next_previous (%s): NS/PS can differ from the "
           "cyclic neighbours in the list of active stations" % sorted(set(writers) - allowed))
    nm = 0
    for f in P.crate_fns(CR):
        if f.module != "fdl::token_ring" or f.kind in ("promoted", "closure") or f.j.get("derived") or f.name.endswith("::new"):
            continue
        muts = [u for u in mut_uses_of_field(P, CR, "active_stations", None) if u["fn"] is f and u["kind"] in ("assign", "refmut", "calldest")]
        if not muts:
            continue
        nm += 1
        ctx.analysed_fns.add(f.name)
        marks = {}
        for u in muts:
            marks[(u["b"], u["i"])] = "mut"
        for b, c in call_sites(f):
            cal = c.get("callee") or ""
            if cal == upd:
                marks[(b, None)] = "upd"
            else:
                tgt = P.get(CR, cal)
                if tgt is not None and tgt.module == "fdl::token_ring" and tgt.name != f.name and must_update(P, tgt, upd):
                    marks[(b, None)] = "upd"
        # "mut ... upd" ordering: the last LAS mutation on a path must be followed by the recomputation: count mutations after the
        # last update by resetting through a second analysis: simple and exact here - require an update at or after every mutation
        g = GuardAnalysis(f, P, marks=marks)
        bad = []
        for rb in f.return_blocks:
            for fs in g.at(rb):
                if g.count_of(fs, "mut") != {0} and 0 in g.count_of(fs, "upd"):
                    bad.append(M.fmt_facts(fs)[:240])
        # order: no mutation site is reachable from an update site without passing another update (post-dominance by reachability)
        order_bad = []
        upd_blocks = {b for (b, i), m in marks.items() if m == "upd"}
        for (b, i), m in marks.items():
            if m != "mut":
                continue
            seen, st, hit = set(), list(f.succ[b]), False
            # from the mutation, every path to a return must pass an update block
            st = [b]
            while st:
                n_ = st.pop()
                if n_ in seen:
                    continue
                seen.add(n_)
                if n_ in upd_blocks and n_ != b:
                    continue
                if n_ in f.return_blocks:
                    hit = True
                    break
                st.extend(x for x in f.succ[n_] if not f.blocks[x].cleanup)
            if hit and b not in upd_blocks:
                order_bad.append(f.loc(b, i))
        ctx.ob("c.ns-ps", "las-write-then-update|%s" % f.name.split("::")[-1], not bad and not order_bad,
               "the list of active stations is changed on a path that does not recompute next/previous station afterwards (%s): NS/PS are "
               "stale" % "; ".join((bad + order_bad)[:2]), f.loc(0))
    ctx.anchor("TokenRing methods that change the list of active stations", nm, 3)


def must_update(P, f, upd, depth=0):
    """every return of f has passed a call of update_next_previous (directly or through a callee that must)"""
    marks = {}
    for b, c in call_sites(f):
        cal = c.get("callee") or ""
        if cal == upd:
            marks[(b, None)] = "upd"
        elif depth < 2:
            tgt = P.get(CR, cal)
            if tgt is not None and tgt.module == "fdl::token_ring" and tgt.name != f.name and must_update(P, tgt, upd, depth + 1):
                marks[(b, None)] = "upd"
    if not marks:
        return False
    g = GuardAnalysis(f, P, marks=marks)
    return all(0 not in g.count_of(fs, "upd") for rb in f.return_blocks for fs in g.at(rb))


import re as _re


def _norm(t):
    """`usize::from(x)` / `x as usize` -> x in a shown term"""
    t = _re.sub(r"\bfrom\(([^()]*)\)", r"\1", t)
    t = _re.sub(r"\(([^()]*) as usize\)", r"\1", t)
    return t


def check_las_update(ctx, P):
    """g: one witnessed pass sa -> da clears exactly the span [sa, da) of the list (cyclically when da <= sa) and then enters sa.
    Table of the fill / set sites per value of the wrap test, read from the resolved calls."""
    f = ctx.need_fn(CR, "fdl::token_ring::TokenRing::update_las_from_token_pass")
    if f is None:
        return
    g = GuardAnalysis(f, P)
    tb = g.tb

    def wrap_value(fs):
        """True = "da > sa" (no wrap), False = wrap; None when the path class has no recognised test; 'other' for another predicate"""
        out = None
        for k, vs in fs.items():
            if k[0] != "cmp" or vs[0] != "in" or len(vs[1]) != 1:
                continue
            a, b = show(strip_casts(k[2])), show(strip_casts(k[3]))
            if {a, b} != {"sa", "da"}:
                continue
            v = next(iter(vs[1]))
            if k[1] == "lt" and (a, b) == ("sa", "da"):
                out = v
            elif k[1] == "le" and (a, b) == ("da", "sa"):
                out = not v
            else:
                return "other:%s %s %s" % (a, k[1], b)
        return out
    got = set()
    nfill = 0
    for b, c in call_sites(f):
        cal = c.get("callee") or ""
        if cal.endswith("::fill") and len(c["args"]) == 2:
            nfill += 1
            val = show(tb.joperand(c["args"][1]))
            rng = tb.joperand(c["args"][0])
            idx = [x for x in subterms(rng) if isinstance(x, tuple) and x and x[0] == "call" and x[1].endswith("index_mut")]
            r = _norm(show(idx[0][2][1])) if idx and len(idx[0][2]) == 2 else "?"
            for fs in g.at(b):
                got.add((str(wrap_value(fs)), "fill", r, val))
        if cal.endswith("BitSlice::<T, O>::set") and len(c["args"]) == 3:
            for fs in g.at(b):
                got.add((str(wrap_value(fs)), "set", _norm(show(tb.joperand(c["args"][1]))), show(tb.joperand(c["args"][2]))))
    want = {("True", "fill", "Range::Range(sa, da)", "False"), ("False", "fill", "RangeFrom::RangeFrom(sa)", "False"),
            ("False", "fill", "RangeTo::RangeTo(da)", "False"), ("True", "set", "sa", "True"), ("False", "set", "sa", "True")}
    if nfill == 0:
        ctx.notes.append("g.las-update: update_las_from_token_pass does not clear the span with BitSlice::fill - table not read, not decided")
        return
    ctx.ob("g.las-update", "span-cleared-source-entered", got == want,
           "a witnessed token pass sa->da must clear exactly [sa, da) (for da <= sa: [sa, ..) and [.., da)) and then enter sa; the code does %s "
           "(missing %s, unexpected %s)" % (sorted(got), sorted(want - got), sorted(got - want)), f.loc(0))
    ctx.sample({"clause": "g.las-update", "table": sorted(got)})


def check_neighbours(ctx, P):
    """h: NS is the first active station above TS, else the first active station, else TS; PS is the last active station below TS,
    else the last active station, else TS (table of the definitions of the values stored into next_station / previous_station)."""
    f = ctx.need_fn(CR, "fdl::token_ring::TokenRing::update_next_previous")
    if f is None:
        return
    g = GuardAnalysis(f, P)
    tb = g.tb
    finds = [(b, c) for b, c in call_sites(f) if (c.get("callee") or "").endswith("::find")]
    if not finds:
        ctx.notes.append("h.neighbours: update_next_previous is not written with Iterator::find - table not read, not decided")
        return
    # closure bodies: comparison of the candidate with this_station
    cmpop = {}
    for cf in P.crate_fns(CR):
        if cf.kind == "closure" and cf.name.startswith(f.name + "::{closure"):
            ctb = TermBuilder(cf, P)
            for b, i, s_ in stmts(cf):
                if "a" in s_ and s_["a"]["l"] == 0 and not s_["a"].get("p") and s_["rv"].get("bin"):
                    t = ctb.rvalue(s_["rv"])
                    cmpop[cf.name.rsplit("::", 1)[-1]] = (s_["rv"]["bin"], "this_station" in show(t[3]) and "this_station" not in show(t[2]))
    table = {}
    for fld in ("next_station", "previous_station"):
        # the local stored into the field
        src = None
        for b, i, s_ in stmts(f):
            if "a" in s_ and has_field(s_["a"], fld, None):
                op = s_["rv"].get("use", {})
                pl = op.get("mv") or op.get("cp")
                if pl is not None and not pl.get("p"):
                    src = pl["l"]
        rows = set()
        for _ in range(4):   # the field may be stored from a copy of the multi-definition local
            defs = [s_ for b, i, s_ in stmts(f) if "a" in s_ and s_["a"]["l"] == src and not s_["a"].get("p")] if src is not None else []
            if len(defs) == 1 and "use" in defs[0]["rv"]:
                pl = defs[0]["rv"]["use"].get("mv") or defs[0]["rv"]["use"].get("cp")
                if pl is not None and not pl.get("p"):
                    src = pl["l"]
                    continue
            break
        if src is not None:
            for b, i, s_ in stmts(f):
                if "a" in s_ and s_["a"]["l"] == src and not s_["a"].get("p"):
                    v = tb.rvalue(s_["rv"])
                    calls = [x for x in subterms(v) if isinstance(x, tuple) and x and x[0] == "call"]
                    if path_str(strip_refs(v)) == "self.this_station":
                        kind = "this"
                    elif calls and calls[0][1].endswith("::find"):
                        clo = [str(a[1]) if a[0] == "call" else show(a) for a in calls[0][2][1:2]]
                        cname = _re.search(r"\{closure#\d+\}", show(calls[0][2][1]))
                        op = cmpop.get(cname.group(0)) if cname else None
                        kind = "find%s(%s)" % ("-rev" if "Rev<" in calls[0][1] else "", "%s this" % op[0] if op and op[1] else "?")
                    elif calls and calls[0][1].endswith("::next_back"):
                        kind = "last"
                    elif calls and calls[0][1].endswith("::next"):
                        kind = "first"
                    else:
                        kind = "?" + show(v)[:40]
                    # guard: which earlier lookups came back empty
                    for fs in g.at(b, i):
                        empties = sorted({("find-rev" if "Rev<" in strip_refs(k[1])[1] else "find") if strip_refs(k[1])[1].endswith("::find") else
                                          ("last" if strip_refs(k[1])[1].endswith("::next_back") else "first")
                                          for k, vs in fs.items() if k[0] == "discr" and strip_refs(k[1])[0] == "call" and vs == ("in", frozenset(["None"]))
                                          and (strip_refs(k[1])[1].endswith("::find") or strip_refs(k[1])[1].endswith("::next") or strip_refs(k[1])[1].endswith("::next_back"))})
                        rows.add((kind, tuple(e for e in empties if (e in ("find", "first")) == (fld == "next_station"))))
        table[fld] = rows
    want = {"next_station": {("find(Gt this)", ()), ("first", ("find",)), ("this", ("find", "first"))},
            "previous_station": {("find-rev(Lt this)", ()), ("last", ("find-rev",)), ("this", ("find-rev", "last"))}}
    for fld in want:
        if not table[fld] or any(k.startswith("?") or "(?)" in k for k, _ in table[fld]):
            ctx.notes.append("h.neighbours: the definitions of the value stored into %s are not in the recognised if-let / Iterator::find "
                             "spelling (%s) - table not read, not decided" % (fld, sorted(table[fld])[:3]))
            continue
        ctx.ob("h.neighbours", "table|" + fld, table[fld] == want[fld],
               "%s must be %s; the code computes %s" % (fld, sorted(want[fld]), sorted(table[fld])), f.loc(0))
    ctx.sample({"clause": "h.neighbours", "table": {k: sorted(map(str, v)) for k, v in table.items()}})



def check(ctx):
    P = ctx.prog
    check_learn(ctx, P)
    check_own_pass(ctx, P)
    check_ns_ps(ctx, P)
    check_las_update(ctx, P)
    check_neighbours(ctx, P)
    from rules import C11, C12
    rule.import_clauses(ctx, "C12", C12.check, clauses=("f.truthful", "d.truthful", "a.postcondition", "e.reply"), as_clause="d.validity+f.view")
    rule.import_clauses(ctx, "C11", C11.check, clauses=("b.accept", "d.pass", "e.alone", "c.supervision"), as_clause="e.pass-accept+f.view")
    ctx.assume("decides LAS-maintenance conditions of ONE station (necessary conditions); convergence, agreement and stability of the ring "
               "view across several independently scheduled stations are not decided; nor is the bit-vector arithmetic of one update")


if __name__ == "__main__":
    rule.run(PID, check, level="other",
             explanation="LAS-maintenance conditions of one station: closed world of reasons for not witnessing a received token, own pass "
                         "recorded on every token-transmitting exit, every LAS mutation followed by the NS/PS recomputation (who-writes + "
                         "per-path counters + reachability), plus the imported validity, acceptance/pass and removal/re-admission clauses of "
                         "C11/C12. Necessary conditions of C02; convergence/agreement of several stations is not decided.",
             trusted_base=["rustc MIR (nightly) as extracted by engines/mirfacts"],
             thorough_configs=("no_default", "alloc"))
