"""C18  Live list and DP scanner converge to the stations actually on the bus.

Decides (structural clauses):
 a  only addresses 0..=125 are probed: the sweep cursor satisfies `cursor <= 125` as an inductive
    invariant (zone domain over every function that writes it), the probe's destination is the cursor
    and its source is this station's address;
 b  event / bitset pairing: Lost(a) is raised only when a is in the set and together with
    removing it; Discovered / PeripheralFound only when a is not in the set and together with adding
    it; the DP scanner adds an address only together with PeripheralFound; no other writers of the set;
 c  one probe per address per sweep: the per-address done flag is set by every reply and time-out,
    the cursor advances only under that flag and the flag is cleared in the same step;
 d  replies reach the scanner only through the FDL admission filter (source = probed address),
    shared with C04.c.
Does not decide: convergence to the true population over whole histories.
"""
from analysis import rule
from analysis.guards import GuardAnalysis
from analysis.numdom import NumAnalysis
from analysis.terms import TermBuilder, show, path_str, strip_refs, strip_casts, subterms, simplify
from analysis.query import call_sites, callee_is, stmts, has_field, mut_uses_of_field, constructions, variant_uses
from analysis.ir import mk_place
from analysis import match as M
from rules import C04

PID = "C18"
CR = "profirust"
CUR = ("v", 1, (("deref",), ("f", "cursor")))

APPS = {
    "fdl::live_list::LiveList": dict(found=("fdl::live_list::StationEvent", "Discovered"), lost=("fdl::live_list::StationEvent", "Lost"), strict_found=False),
    "dp::scan::DpScanner": dict(found=("dp::scan::DpScanEvent", "PeripheralFound"), lost=("dp::scan::DpScanEvent", "PeripheralLost"), strict_found=True),
}


def cur_hook(na, st):
    st.z.set_interval(CUR, 0, 125)


def bit_known(fs):
    """is the probed address known (bit set) on this path class?  True / False / None"""
    for k, vs in fs.items():
        s = show(k)
        if "get(deref(self.stations)" in s and vs[0] == "in" and len(vs[1]) == 1:
            v = next(iter(vs[1]))
            if s.startswith("not("):
                return not v
            return bool(v)
    return None


def check(ctx):
    P = ctx.prog
    # a probed station is reported Lost / not Found when the FDL layer declares its reply missing: that verdict must be the slot
    # time after the last bus activity (also for a partially received reply) - clause d.pass "slot-expiry-definition" of C11
    from rules import C11
    rule.import_clauses(ctx, "C11", lambda s_: C11.check_slot_expiry(s_, P), as_clause="d.timeout")
    from rules import C01, C12
    rule.import_clauses(ctx, "C01", lambda s_: C01.check_rx(s_, P), as_clause="d.timeout")
    # the station's own GAP polls are probes too: only addresses below HSA (<= 125) - clause a of C12
    rule.import_clauses(ctx, "C12", lambda s_: C12.check_next_gap_poll(s_, P), as_clause="a.range")
    # "the DP scanner knows the answering peripherals with their ident numbers": the scanner's copy of the diagnostics header decoder
    # must decode like the peripheral's (ident high byte first, every flag bit, master address) - clause d.header of C17
    from rules import C17
    rule.import_clauses(ctx, "C17", lambda s_: C17.check_siblings(s_, P), clauses=("d.header",), as_clause="b.pairing")
    for ty, cfg in APPS.items():
        fns = [f for f in P.crate_fns(CR) if f.kind == "assoc" and (f.j.get("self_ty") == ty) and not f.j.get("derived")]
        ctx.anchor("methods of " + ty, len(fns), 4)
        short = ty.split("::")[-1]
        # ---- a: cursor invariant over all writers
        writers = {}
        for u in mut_uses_of_field(P, CR, "cursor", "u8"):
            f = u["fn"]
            if f.j.get("self_ty") == ty:
                writers[f.name] = f
        ctx.anchor("functions writing %s.cursor" % short, len(writers), 1)
        for name, f in sorted(writers.items()):
            ctx.analysed_fns.add(name)
            na = NumAnalysis(f, P, entry_hook=cur_hook)
            bad = []
            for rb in f.return_blocks:
                for st in na.states_at_term(rb):
                    if not (st.z.hi(CUR) <= 125 and st.z.lo(CUR) >= 0):
                        bad.append("cursor in [%s,%s]" % (st.z.lo(CUR), st.z.hi(CUR)))
            ctx.ob("a.range", "cursor-inv|%s" % name, not bad, "the sweep cursor can leave 0..=125 in %s: %s" % (name, "; ".join(sorted(set(bad))[:2])), f.loc(0))
            for key, o in sorted(na.obligations.items()):
                ctx.ob("a.range", "ob|%s|%s|%s" % (name, o["kind"], key[1]), o["ok"] is True, "%s in %s: %s" % (o["kind"], name, o["detail"]), f.loc(o["b"]))
        for c in constructions(P, CR, ty):
            f = c["fn"]
            if f.j.get("derived"):
                continue
            tb = TermBuilder(f, P)
            v = tb.joperand(c["rv"]["fields"][c["rv"]["fnames"].index("cursor")])
            ctx.ob("a.range", "cursor-init|%s" % f.name, v == ("const", 0), "%s constructed with cursor %s" % (short, show(v)), f.loc(c["b"], c["i"]))
        # probe addressing
        tx = [f for f in fns if f.name.endswith("::transmit_telegram")]
        for f in tx:
            tb = TermBuilder(f, P)
            sends = [(b, c) for b, c in call_sites(f, lambda c: callee_is(c, "send_fdl_status_request", "send_data_telegram"))]
            ctx.anchor("probe send sites in %s::transmit_telegram" % short, len(sends), 1)
            for b, c in sends:
                if callee_is(c, "send_fdl_status_request"):
                    da, sa = tb.joperand(c["args"][1]), tb.joperand(c["args"][2])
                else:
                    h = tb.joperand(c["args"][1])
                    da, sa = (h[3][0], h[3][1]) if h[0] == "agg" else (("?",), ("?",))
                ctx.ob("a.range", "probe-da|%s" % short, path_str(strip_casts(da)) == "self.cursor", "the probe must be addressed to the sweep cursor, found " + show(da), f.loc(b))
                from rules.C03 import is_own_address
                ok_sa = is_own_address(sa)
                ctx.ob("a.range", "probe-sa|%s" % short, ok_sa, "the probe's source must be this station's address, found " + show(sa), f.loc(b))
            # ---- c: cursor advance under the done flag, flag cleared in the same step
            marks = {}
            for b, i, s in stmts(f):
                if "a" in s and has_field(s["a"], "cursor", "u8"):
                    marks[(b, i)] = "adv"
                if "a" in s and has_field(s["a"], "current_address_done", "bool") and tb.rvalue(s["rv"]) == ("const", False):
                    marks[(b, i)] = "clr"
            for b, c in sends:
                marks[(b, None)] = "send"
            # the cursor step may live in a private helper: a call whose mod-set contains the cursor is an advance
            from analysis.modset import ModSets
            ms_ = ModSets(P)
            for b, c in call_sites(f):
                h = P.get(CR, c.get("callee") or "")
                if h is not None and (b, None) not in marks:
                    w_ = ms_.of(h) or set()
                    if any(p_ and p_[-1] == "cursor" for p_ in w_):
                        marks[(b, None)] = "adv"
            g = GuardAnalysis(f, P, marks=marks)
            bad = []
            for rb in f.return_blocks:
                for fs in g.at(rb):
                    done = [vs for k, vs in fs.items() if path_str(k) == "self.current_address_done"]
                    d = done[0] == ("in", frozenset([True])) if done else None
                    adv, clr, snd = g.count_of(fs, "adv"), g.count_of(fs, "clr"), g.count_of(fs, "send")
                    if d is None:
                        bad.append("done flag not tested: " + M.fmt_facts(fs))
                    elif d and not (adv == {1} and clr == {1} and snd == {0}):
                        bad.append("address done but cursor advanced %s / flag cleared %s / probes sent %s times" % (sorted(adv), sorted(clr), sorted(snd)))
                    elif not d and not (adv == {0} and clr == {0} and snd == {1}):
                        bad.append("address not done but cursor advanced %s / flag cleared %s / probes sent %s times" % (sorted(adv), sorted(clr), sorted(snd)))
            ctx.ob("c.sweep", "advance-under-flag|%s" % short, not bad, "; ".join(bad[:2]), f.loc(0))
        for suffix in ("::receive_reply", "::handle_timeout"):
            for f in [f for f in fns if f.name.endswith(suffix)]:
                tb = TermBuilder(f, P)
                marks = {(b, i): "done" for b, i, s in stmts(f) if "a" in s and has_field(s["a"], "current_address_done", "bool") and tb.rvalue(s["rv"]) == ("const", True)}
                g = GuardAnalysis(f, P, marks=marks)
                ok = bool(marks) and all(g.count_of(fs, "done") == {1} for rb in f.return_blocks for fs in g.at(rb))
                ctx.ob("c.sweep", "done-set|%s%s" % (short, suffix), ok, "every reply / time-out must mark the probed address as done on all paths", f.loc(0))
        # ---- b: pairing
        set_sites = []
        for f in P.crate_fns(CR):
            if f.j.get("derived"):
                continue
            for b, c in call_sites(f, lambda c: callee_is(c, "bitvec::slice::BitSlice::set")):
                tb = TermBuilder(f, P)
                if M.mentions_path(tb.joperand(c["args"][0]), "self.stations") and f.j.get("self_ty") == ty:
                    set_sites.append((f, b, c, tb.joperand(c["args"][2])))
        ctx.anchor("stations.set() sites of " + short, len(set_sites), 2)
        for f0 in {s[0].name: s[0] for s in set_sites}.values():
            ctx.analysed_fns.add(f0.name)
            # events built inside a closure handed to Option::map & co. are read as the `match` the combinator stands for
            from analysis.inline import desugar
            f = desugar(P, f0)
            marks = {}
            for sf, b, c, val in set_sites:
                if sf is f0:
                    marks[(b, None)] = "set_true" if val == ("const", True) else ("set_false" if val == ("const", False) else "set_other")
            for kind in ("found", "lost"):
                for e in variant_uses(P, CR, *cfg[kind], fns=[f]):
                    marks[(e["b"], e["i"])] = kind
            g = GuardAnalysis(f, P, marks=marks)
            bad = []
            for rb in f.return_blocks:
                for fs in g.at(rb):
                    st, sf_, so = g.count_of(fs, "set_true"), g.count_of(fs, "set_false"), g.count_of(fs, "set_other")
                    fo, lo = g.count_of(fs, "found"), g.count_of(fs, "lost")
                    known = bit_known(fs)
                    if so != {0}:
                        bad.append("stations bit written with a non-constant value")
                    if lo != {0} and not (known is True and sf_ == {1} and lo == {1}):
                        bad.append("Lost raised without (address known ∧ bit cleared once): " + M.fmt_facts(fs))
                    if sf_ != {0} and not (lo == {1}):
                        bad.append("bit cleared without a Lost event: " + M.fmt_facts(fs))
                    if fo != {0} and not (known is False and st == {1} and fo == {1}):
                        bad.append("Found/Discovered raised without (address unknown ∧ bit set once): " + M.fmt_facts(fs))
                    if st != {0} and known is not False:
                        bad.append("bit set for an address that is not known to be new: " + M.fmt_facts(fs))
                    if cfg["strict_found"] and st != {0} and fo != {1}:
                        bad.append("address added to the set without a PeripheralFound event: " + M.fmt_facts(fs))
            ctx.ob("b.pairing", "events-vs-bits|%s" % f.name, not bad, "; ".join(bad[:2]), f.loc(0))
            ctx.sample({"fn": f.name, "marks": sorted(set(marks.values()))})
        # the set index is the probed address argument
        for sf, b, c, val in set_sites:
            tb = TermBuilder(sf, P)
            idx = strip_casts(tb.joperand(c["args"][1]))
            ok = idx[0] == "arg" and idx[1] in ("addr", "address")
            ctx.ob("b.pairing", "set-index|%s" % sf.name, ok, "the stations bit written must be the one of the probed address (callback argument), found " + show(idx), sf.loc(b))
    C04.check_fdl_admission(ctx, P)


if __name__ == "__main__":
    rule.run(PID, check, level="other",
             explanation="Inductive cursor invariant 0..=125 proved by the zone domain over all writers; probe addressing; sweep flag pairing and "
                         "event/bitset pairing by per-path counters; FDL admission filter.",
             trusted_base=["rustc MIR (nightly) as extracted by engines/mirfacts", "analysis/numdom.py transfer functions",
                           "bitvec BitSlice::get/set semantics (set(i, v) makes get(i) == v)"],
             thorough_configs=("no_default", "alloc"))
