"""C16  The receive path reassembles the byte stream independent of chunking.

Decides (structural clauses):
 a  drop-count table of the two provided receive helpers, per decoder verdict:
      need-more-data -> drop 0, nothing delivered;  reject -> drop everything buffered, nothing
      delivered;  telegram of length n -> drop exactly n, deliver that telegram exactly once;
    `is_last` is exactly (n == len(buffered)); receive_all_telegrams loops iff is_last is false
    and returns the result of the final call;
 b  1 <= n <= len(buffered) for every accepted telegram and `None` only for proper prefixes
    (C10.a / C10.c on the shared decoder, re-checked here);
 c  the in-repo PHYs advance their read position by exactly the count handed back by the callback
    (simulator: cursor += drop; serial: three-way match on drop), and
    poll_pending_received_bytes drops nothing.
Does not decide: the end-to-end relation over all chunkings (follows from a–c on paper).
"""
from analysis import rule
from analysis.guards import GuardAnalysis
from analysis.numdom import NumAnalysis
from analysis.terms import TermBuilder, show, path_str, strip_refs, strip_casts, subterms, simplify
from analysis.query import call_sites, callee_is, stmts, has_field
from analysis.ir import mk_place
from analysis import match as M
from rules import C10

PID = "C16"
CR = "profirust"


def is_des(t):
    t = strip_refs(t)
    return t[0] == "call" and M.callee_matches(t[1], "fdl::telegram::Telegram::deserialize") and path_str(strip_refs(t[2][0])) == BUF["name"]


def ok_tuple_field(t, idx):
    """t == (deserialize(buffer) as Some(Ok((telegram, n)))).idx"""
    t = strip_casts(strip_refs(t))
    try:
        return (t[0] == "field" and t[2] == str(idx) and t[1][0] == "field" and t[1][2] == "0" and t[1][1][0] == "dc" and t[1][1][2] == "Ok"
                and t[1][1][1][0] == "field" and t[1][1][1][2] == "0" and t[1][1][1][1][0] == "dc" and t[1][1][1][1][2] == "Some" and is_des(t[1][1][1][1][1]))
    except (IndexError, TypeError):
        return False


def verdict(fs):
    outer = inner = None
    for k, vs in fs.items():
        if k[0] == "discr" and vs[0] == "in":
            if is_des(k[1]):
                outer = set(vs[1])
            elif k[1][0] == "field" and k[1][1][0] == "dc" and is_des(k[1][1][1]):
                inner = set(vs[1])
    if outer == {"None"}:
        return "None"
    if outer == {"Some"} and inner == {"Err"}:
        return "Err"
    if outer == {"Some"} and inner == {"Ok"}:
        return "Ok"
    return None


def is_len_buffer(t):
    t = strip_casts(t)
    return t[0] == "len" and path_str(t[1]) == BUF["name"]


BUF = {"name": "buffer"}  # the received-bytes parameter of the helper closure under analysis (by position, whatever it is called)


def check_helper_closure(ctx, P, f, multi):
    ctx.analysed_fns.add(f.name)
    if f.argc >= 2 and f.locals[2].get("name"):
        BUF["name"] = f.locals[2]["name"]
    g = GuardAnalysis(f, P)
    tb = g.tb
    name = f.name.split("::")[-2]
    seen = set()
    calls_f = [(b, c) for b, c in call_sites(f, lambda c: callee_is(c, "std::ops::FnOnce::call_once", "std::ops::FnMut::call_mut"))]
    ctx.ob("a.drop-table", "callback-once|" + name, len(calls_f) == 1, "the telegram callback must be invoked at exactly one site, found %d" % len(calls_f), f.loc(0))
    for b, i, s in stmts(f):
        if not ("a" in s and mk_place(s["a"]) == (0, ())):
            continue
        v = simplify(tb.rvalue(s["rv"]))
        loc = f.loc(b, i)
        if not (v[0] == "agg" and v[1] == "tuple" and len(v[3]) == 2):
            ctx.ob("a.drop-table", "shape|" + name, False, "helper closure returns something other than (drop, result): " + show(v), loc)
            continue
        drop, res = v[3]
        for fs in g.at(b, i):
            vd = verdict(fs)
            if vd is None:
                ctx.ob("a.drop-table", "verdict|" + name, False, "a (drop, result) is returned on a path where the decoder verdict is not determined: " + M.fmt_facts(fs), loc)
                continue
            seen.add(vd)
            if multi:
                ok_shape = res[0] == "agg" and res[1] == "tuple" and len(res[3]) == 2
                is_last, inner = (res[3][0], res[3][1]) if ok_shape else (None, res)
            else:
                is_last, inner = None, res
            if vd == "None":
                ok = drop == ("const", 0) and inner[0] == "agg" and inner[2] == "None" and (not multi or is_last == ("const", True))
                why = "incomplete data must drop nothing and deliver nothing"
            elif vd == "Err":
                ok = is_len_buffer(drop) and inner[0] == "agg" and inner[2] == "None" and (not multi or is_last == ("const", True))
                why = "undecodable data must be discarded completely (drop == len(buffer)) and deliver nothing"
            else:
                delivered = inner[0] == "agg" and inner[2] == "Some" and strip_refs(inner[3][0])[0] == "call" and "call_" in strip_refs(inner[3][0])[1]
                args = strip_refs(inner[3][0])[2][1] if delivered else None
                tel_ok = delivered and args[0] == "agg" and ok_tuple_field(args[3][0], 0)
                ok = ok_tuple_field(drop, 1) and tel_ok
                if multi and ok:
                    def is_last_term(t):
                        t = simplify(t)
                        return t[0] == "bin" and t[1] == "Eq" and ((ok_tuple_field(t[2], 1) and is_len_buffer(t[3])) or (ok_tuple_field(t[3], 1) and is_len_buffer(t[2])))
                    ok = is_last_term(is_last) and len(args[3]) == 2 and is_last_term(args[3][1])
                why = "an accepted telegram must drop exactly its own length, be delivered once" + (", with is_last == (length == len(buffer))" if multi else "")
            ctx.ob("a.drop-table", "row|%s|%s" % (name, vd), ok, "%s; found (drop=%s, result=%s)" % (why, show(drop), show(res)[:160]), loc)
            ctx.sample({"helper": name, "verdict": vd, "drop": show(drop), "result": show(res)[:120]})
    ctx.ob("a.drop-table", "rows-complete|" + name, seen == {"None", "Err", "Ok"}, "drop table of %s lacks a row: has %s" % (name, sorted(seen)), f.loc(0))
    # the callback is only reachable under verdict Ok
    for b, c in calls_f:
        ok = all(verdict(fs) == "Ok" for fs in g.at(b)) and bool(g.at(b))
        ctx.ob("a.drop-table", "callback-guard|" + name, ok, "the telegram callback is invoked although the decoder did not accept a telegram", f.loc(b))


def check(ctx):
    P = ctx.prog
    rt = ctx.need_fn(CR, "phy::ProfibusPhy::receive_telegram::{closure#0}")
    ra = ctx.need_fn(CR, "phy::ProfibusPhy::receive_all_telegrams::{closure#0}")
    if rt is not None:
        check_helper_closure(ctx, P, rt, False)
    if ra is not None:
        check_helper_closure(ctx, P, ra, True)
    # the loop of receive_all_telegrams
    f = ctx.need_fn(CR, "phy::ProfibusPhy::receive_all_telegrams")
    if f is not None:
        g = GuardAnalysis(f, P)
        tb = g.tb
        rets = [(b, i, tb.rvalue(s["rv"])) for b, i, s in stmts(f) if "a" in s and mk_place(s["a"]) == (0, ())]
        ok = len(rets) == 1
        if ok:
            b, i, v = rets[0]
            v = strip_refs(v)
            is_rd = lambda t: strip_refs(t)[0] == "call" and M.callee_matches(strip_refs(t)[1], "receive_data")
            ok = v[0] == "field" and v[2] == "1" and is_rd(v[1])
            ok2, w = M.all_disj(g.at(b, i), lambda k: k[0] == "field" and k[2] == "0" and is_rd(k[1]), {True})
            ctx.ob("a.loop", "return-under-is_last", ok and ok2, "receive_all_telegrams must return the result of the call flagged is_last (and only then): " + w, f.loc(b, i))
        else:
            ctx.ob("a.loop", "return-under-is_last", False, "receive_all_telegrams has %d return value sites" % len(rets), f.loc(0))
        be = f.back_edges()
        ok = len(be) == 1
        if ok:
            src, head = be[0]
            S = g.at(src)
            ok, w = M.all_disj(S, lambda k: k[0] == "field" and k[2] == "0" and strip_refs(k[1])[0] == "call", {False})
        ctx.ob("a.loop", "loop-iff-not-last", ok, "the receive loop must continue exactly when the delivered telegram was not the last one", f.loc(0))
        ncalls = len(list(call_sites(f, lambda c: callee_is(c, "phy::ProfibusPhy::receive_data"))))
        ctx.anchor("receive_data call in the receive_all_telegrams loop", ncalls, 1)
    # b: decoder length / prefix clauses (shared with C10)
    fns = [ctx.need_fn(CR, n) for n in C10.DECODERS]
    if all(fns):
        C10.closed_world(ctx, P, *fns)
        tele = fns[0]
        na = NumAnalysis(tele, P)
        for key, o in sorted(na.obligations.items()):
            ctx.ob("b.decoder", "tele|%s|%s" % (o["kind"], key[1]), o["ok"] is True, o["detail"], tele.loc(o["b"]))
    # the byte count the decoder reports for an accepted telegram is what the receive helpers drop: it must lie in 1..=len(input)
    # (C10 a.length) and be the total length of the frame format (reader table of C09 b.formats)
    rule.import_clauses(ctx, "C10", lambda s_: C10.check_totality(s_, P), clauses=("a.length",), as_clause="b.decoder")
    from rules import C09
    rule.import_clauses(ctx, "C09", lambda s_: C09.check_frames(s_, P), clauses=("b.formats",), as_clause="b.decoder")
    # poll_pending_received_bytes drops nothing
    pf = ctx.need_fn(CR, "phy::ProfibusPhy::poll_pending_received_bytes::{closure#0}")
    if pf is not None:
        tb = TermBuilder(pf, P)
        rets = [simplify(tb.rvalue(s["rv"])) for b, i, s in stmts(pf) if "a" in s and mk_place(s["a"]) == (0, ())]
        ok = len(rets) == 1 and rets[0][0] == "agg" and rets[0][3][0] == ("const", 0) and rets[0][3][1][0] == "len"
        ctx.ob("c.phy", "poll-pending-drops-nothing", ok, "poll_pending_received_bytes must return (0, len(buf)), found %s" % [show(r) for r in rets], pf.loc(0))
    # c: PHY implementations
    check_phys(ctx, P)


def check_phys(ctx, P):
    impls = [f for f in P.crate_fns(CR) if f.name.endswith("as phy::ProfibusPhy>::receive_data")]
    ctx.anchor("ProfibusPhy::receive_data implementations", len(impls), 2 if ctx.config == "default" else 0)
    for f in impls:
        if not f.file.endswith(("phy/simulator.rs", "phy/serial.rs")):
            # the property quantifies over the generic helpers on the simulator / harness PHYs; hardware back ends that only exist in
            # other feature configurations are observed (evidence: not_decided), not judged
            sub = rule.Ctx(ctx.pid, ctx.tier, ctx.config, ctx.prog)
            _check_one_phy(sub, P, f)
            bad = [o for o in sub.obligations if not o["ok"]]
            ctx.notes.append("out of the property's scope (%s): %s" % (f.file, "; ".join("%s %s" % (o["loc"], o["detail"][:160]) for o in bad) or "drop handling follows the same rules"))
            continue
        _check_one_phy(ctx, P, f)


def _check_one_phy(ctx, P, f):
    if True:
        ctx.analysed_fns.add(f.name)
        tb = TermBuilder(f, P)
        cb = [(b, c) for b, c in call_sites(f, lambda c: callee_is(c, "std::ops::FnOnce::call_once"))]
        ctx.ob("c.phy", "callback-once|" + f.name, len(cb) == 1, "receive_data must invoke the callback exactly once (found %d sites)" % len(cb), f.loc(0))
        if len(cb) != 1:
            return
        def is_drop(t):
            t = strip_casts(strip_refs(t))
            return t[0] == "field" and t[2] == "0" and strip_refs(t[1])[0] == "call" and "call_once" in strip_refs(t[1])[1]
        if "simulator" in f.module:
            stores = [(b, i, simplify(tb.rvalue(s["rv"]))) for b, i, s in stmts(f) if "a" in s and has_field(s["a"], "cursor", "usize")]
            ok = len(stores) == 1 and stores[0][2][0] == "bin" and stores[0][2][1] == "Add" and any(path_str(x) == "self.cursor" for x in stores[0][2][2:]) and any(is_drop(x) for x in stores[0][2][2:])
            ctx.ob("c.phy", "advance|" + f.name, ok, "the simulator PHY must advance its cursor by exactly the returned drop count; stores: %s" % [show(s[2]) for s in stores], f.loc(0))
            # the returned value is the callback's result
            rets = [strip_refs(tb.rvalue(s["rv"])) for b, i, s in stmts(f) if "a" in s and mk_place(s["a"]) == (0, ())]
            ok = len(rets) == 1 and rets[0][0] == "field" and rets[0][2] == "1"
            ctx.ob("c.phy", "result|" + f.name, ok, "receive_data must return the callback's result", f.loc(0))
        else:
            g = GuardAnalysis(f, P)
            # every store that changes the buffered length is keyed on the drop count
            keyed = 0
            for b, i, s in stmts(f):
                if "a" in s and mk_place(s["a"])[1] and f.locals[mk_place(s["a"])[0]]["ty"].startswith("&mut usize"):
                    v = simplify(tb.rvalue(s["rv"]))
                    if b <= cb[0][0] and not any(cb[0][0] in f.dom.get(b, ()) for _ in [0]):
                        continue
                    if cb[0][0] not in f.dom.get(b, set()):
                        continue
                    keyed += 1
                    S = g.at(b, i)
                    if v == ("const", 0):
                        ok, w = M.all_disj(S, M.key_cmp("eq", is_drop, lambda t: True), {True})
                        ctx.ob("c.phy", "serial-drop-all", ok, "buffer length reset to 0 although drop != buffered length: " + w, f.loc(b, i))
                    else:
                        okv = v[0] == "bin" and v[1] == "Sub" and is_drop(v[3])
                        ctx.ob("c.phy", "serial-drop-some", okv, "buffered length must shrink by exactly the drop count, found " + show(v), f.loc(b, i))
            ctx.anchor("length updates after the callback in the serial PHY", keyed, 2)


if __name__ == "__main__":
    rule.run(PID, check, level="other",
             explanation="Drop-count table of receive_telegram / receive_all_telegrams per decoder verdict extracted from the closures' MIR "
                         "(path-sensitive facts on the verdict discriminants), is_last definition, loop condition, decoder length/prefix clauses "
                         "(shared with C10), and read-position advance of the in-repo PHYs.",
             trusted_base=["rustc MIR (nightly) as extracted by engines/mirfacts"],
             thorough_configs=("phy_linux", "phy_rp2040"))
