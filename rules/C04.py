"""C04  Process images are transferred faithfully and never corrupted.

Decides (structural clauses, for all inputs/histories; see DESIGN §4-C04):
 a  the input image `pi_i` has no writer but the guarded reply copy (who-writes over all MIR);
 b  that copy is guarded on every path class by: peripheral in (Pre)DataExchange, the
    diagnostics-selection flag clear, reply kind Data, status in {Ok, DataLow, DataHigh},
    len(pdu) == len(pi_i); its source is the reply PDU, its destination the whole image;
 c  the FDL hands a reply to an application only if it is SC, or Data with sa == awaited address,
    da == own address and a Response function code;
 d  the DP master forwards the reply only to the peripheral whose address equals the reply's;
 e  DataExchanged is constructed only together with the copy (dominated by it) or for SC with an
    empty input image, and the copy is always followed by it;
 f  the Data_Exchange request PDU is exactly `pi_q` (copy guarded by Operate, length len(pi_q));
    the library itself never writes `pi_q`.
Does not decide: byte-for-byte equality after the copy (contract of copy_from_slice).

Equivalent rewrites that leave the verdict unchanged: operand swaps, `if !c {return}` vs nested if,
match vs if-let, renaming of functions/locals, statement reordering, extra logging.
"""
from analysis import rule
from analysis.guards import GuardAnalysis
from analysis.terms import TermBuilder, show, path_str, strip_refs, subterms
from analysis.query import call_sites, callee_is, mut_uses_of_field, variant_uses, stmts, flows_to_calls
from analysis.ir import mk_place
from analysis import match as M

PID = "C04"
CR = "profirust"
DX_STATES = {"DataExchange", "PreDataExchange"}
OK_STATUS = {"Ok", "DataLow", "DataHigh"}


def consumer_of(fn, local):
    """the call(s) that receive `local` (through moves/reborrows) as an argument"""
    return [(b, c) for b, c, _ in flows_to_calls(fn, local)]


def check(ctx):
    P = ctx.prog
    # ---------------- a: who may write pi_i --------------------------------------------------
    uses = mut_uses_of_field(P, CR, "pi_i", "ManagedSlice")
    data_write_sites = []
    for u in uses:
        f = u["fn"]
        key = "pi_i-mut-use|%s|%s" % (f.name, u["kind"])
        if u["kind"] == "refmut":
            cons = consumer_of(f, u["dest"][0])
            if len(cons) == 1 and callee_is(cons[0][1], "std::ops::DerefMut::deref_mut", "deref_mut"):
                # the mutable slice may only become the destination of the (guarded, clause b) reply copy
                from analysis.query import flows_to_calls
                dcall = cons[0][1]
                dl = mk_place(dcall["dest"])
                sinks = flows_to_calls(f, dl[0]) if not dl[1] else []
                only_copy = bool(sinks) and all(callee_is(c2, "core::slice::<impl [T]>::copy_from_slice", "copy_from_slice") and n2 == 0 for (_, c2, n2) in sinks)
                if only_copy:
                    data_write_sites.append((f, cons[0][0]))
                ctx.ob("a.who-writes", key + "|" + "+".join(sorted({(c2.get("callee") or "?").split("::")[-1] for (_, c2, _) in sinks})), only_copy,
                       "the input process image `pi_i` is written by something other than the guarded copy of a reply PDU (%s) in %s" % (
                           sorted({(c2.get("callee") or "?") for (_, c2, _) in sinks}) or "direct store", f.name), f.loc(u["b"], u["i"]))
                continue
            if len(cons) == 1 and callee_is(cons[0][1], "std::mem::replace", "std::mem::take"):
                # re-seating the buffer is only allowed in a function that replaces the whole peripheral
                whole = any("a" in s and mk_place(s["a"])[1] == (("deref",),) and f.locals[mk_place(s["a"])[0]]["ty"].startswith("&mut dp::peripheral::Peripheral")
                            for _, _, s in stmts(f)) or any(mk_place(c["dest"])[1] == (("deref",),) for _, c in call_sites(f))
                ctx.ob("a.who-writes", key, whole,
                       "pi_i re-seated by mem::replace in a function that %s the whole peripheral" % ("replaces" if whole else "does NOT replace"),
                       f.loc(u["b"], u["i"]))
                continue
        ctx.ob("a.who-writes", key, False,
               "unrecognised mutable use of the input process image `pi_i` (%s) in %s – only the guarded reply copy may write it" % (u["kind"], f.name),
               f.loc(u["b"], u["i"]))
    ctx.anchor("data writer of pi_i (deref_mut feeding a copy)", len(data_write_sites), 1)
    # re-seating: the buffers handed to the re-created peripheral are the same ones, in the same roles
    for f in P.crate_fns(CR):
        if f.module != "dp::peripheral" or not f.name.endswith("::reset_address"):
            continue
        tb = TermBuilder(f, P)
        for b, c in call_sites(f, lambda c: (c.get("callee") or "").endswith("Peripheral::<'a>::new")):
            args = [show(tb.joperand(a)) for a in c["args"]]
            callee = P.get(CR, c["callee"])
            names = [callee.locals[i + 1].get("name") for i in range(callee.argc)] if callee else []
            ok = True
            for n_, a_ in zip(names, args):
                if n_ in ("pi_i", "pi_q"):
                    other = "pi_q" if n_ == "pi_i" else "pi_i"
                    ok = ok and ("self." + n_ in a_ or "." + n_ in a_) and ("." + other not in a_)
            ctx.ob("a.who-writes", "reseat-roles|%s" % f.name.split("::")[-1], ok and "pi_i" in names,
                   "reset_address re-creates the peripheral with the process images in other roles: %s" % dict(zip(names, [a[:60] for a in args])), f.loc(b))

    # ---------------- b: the copy is guarded --------------------------------------------------
    ncopy = 0
    copy_sites = []
    for f, _b in data_write_sites:
        ctx.analysed_fns.add(f.name)
        g = GuardAnalysis(f, P)
        tb = g.tb
        for b, c in call_sites(f, lambda c: callee_is(c, "core::slice::<impl [T]>::copy_from_slice", "copy_from_slice")):
            dst = tb.joperand(c["args"][0])
            if not M.mentions_path(dst, "self.pi_i"):
                continue
            ncopy += 1
            copy_sites.append((f, b, g))
            S = g.at(b)
            loc = f.loc(b)
            k = "copy|%s" % f.name
            src = tb.joperand(c["args"][1])
            ctx.sample({"site": loc, "dst": show(dst), "src": show(src), "path_classes": len(S),
                        "facts": M.fmt_facts(next(iter(S))) if S else None})
            # source is the reply PDU
            srcp = path_str(strip_refs(src)) or ""
            ctx.ob("b.source", k + "|src", srcp.startswith("telegram.") and srcp.endswith(".pdu"),
                   "source of the input-image copy must be the reply's PDU, found %s" % show(src), loc)
            # destination is the whole image (deref_mut of pi_i, no sub-slicing)
            whole = strip_refs(dst)[0] == "call" and M.callee_matches(strip_refs(dst)[1], "deref_mut")
            ctx.ob("b.dest", k + "|dst", whole, "destination must be the whole `pi_i` image, found %s" % show(dst), loc)
            ok, w = M.all_disj(S, M.key_discr("self.state"), DX_STATES)
            ctx.ob("b.guard", k + "|state", ok, "copy into pi_i not guarded by state ∈ {DataExchange, PreDataExchange}: " + w, loc)
            ok, w = M.all_disj(S, M.key_discr("telegram"), {"Data"})
            ctx.ob("b.guard", k + "|kind", ok, "copy into pi_i not guarded by reply kind == Data: " + w, loc)
            ok, w = M.all_disj(S, M.key_discr_where(lambda t: M.mentions(t, M.t_call("is_response")) or (path_str(t) or "").endswith(".status")), OK_STATUS)
            ctx.ob("b.guard", k + "|status", ok, "copy into pi_i not guarded by response status ∈ {Ok, DataLow, DataHigh}: " + w, loc)
            ok, w = M.all_disj(S, M.key_cmp("eq", M.t_len_of("self.pi_i"), lambda t: t[0] == "len" and (path_str(t[1]) or "").endswith(".pdu") and (path_str(t[1]) or "").startswith("telegram.")), {True})
            ctx.ob("b.guard", k + "|len", ok, "copy into pi_i not guarded by len(pdu) == len(pi_i): " + w, loc)
            # service selection: the flags that select "data exchange" (not diagnostics) when the
            # request is built must also select this arm when the reply is interpreted
            sel = service_selection_facts(ctx, P)
            for kk, vs in sel:
                ok, w = M.all_disj(S, lambda x, kk=kk: x == kk, vs[1])
                ctx.ob("b.guard", k + "|service:" + show(kk), ok,
                       "reply copied although the request-side selector %s∈%s (data exchange, not diagnostics) is not established here: %s" % (show(kk), M.fmt_vs(vs), w), loc)
    ctx.anchor("copy_from_slice into pi_i", ncopy, 1)

    # ---------------- e: event <=> update -----------------------------------------------------
    ev_sites = variant_uses(P, CR, "dp::peripheral::PeripheralEvent", "DataExchanged")
    ev_sites = [e for e in ev_sites if not e["fn"].j.get("derived")]
    ctx.anchor("constructions of PeripheralEvent::DataExchanged", len(ev_sites), 2)
    for n, e in enumerate(sorted(ev_sites, key=lambda e: (e["fn"].name, e["b"]))):
        f = e["fn"]
        same = [(cf, cb, cg) for cf, cb, cg in copy_sites if cf is f]
        loc = f.loc(e["b"], e["i"])
        key = "event|%s|%d" % (f.name, n)
        dominated = any(cb in f.dom[e["b"]] for _, cb, _ in same)
        if dominated:
            ctx.ob("e.event-iff-update", key, True, "DataExchanged constructed after (dominated by) the input-image copy", loc)
            continue
        g = same[0][2] if same else GuardAnalysis(f, P)
        S = g.at(e["b"], e["i"])
        ok1, w1 = M.all_disj(S, M.key_discr("telegram"), {"ShortConfirmation"})
        ok2, w2 = M.all_disj(S, M.key_cmp("eq", M.t_const(0), M.t_len_of("self.pi_i")), {True})
        ok3, w3 = M.all_disj(S, M.key_discr("self.state"), DX_STATES)
        ctx.ob("e.event-iff-update", key, ok1 and ok2 and ok3,
               "DataExchanged reported without an input-image update: neither dominated by the copy nor (SC ∧ len(pi_i)==0 ∧ (Pre)DataExchange): %s %s %s" % (w1, w2, w3), loc)
    for f, cb, g in copy_sites:
        follows = any(e["fn"] is f and cb in f.dom[e["b"]] and e["b"] in f.pdom[cb] for e in ev_sites)
        ctx.ob("e.event-iff-update", "update-then-event|%s" % f.name, follows,
               "the input-image copy is not followed on every path by the construction of DataExchanged", f.loc(cb))

    # ---------------- c: FDL reply admission ---------------------------------------------------
    check_fdl_admission(ctx, P)
    # ---------------- d: routing to the addressed peripheral -----------------------------------
    check_routing(ctx, P)
    # ---------------- f: request side ----------------------------------------------------------
    check_request(ctx, P)


_sel_cache = {}


def dx_request_sites(P):
    """send_data_telegram sites in dp::peripheral whose header has no SAPs (= Data_Exchange)"""
    out = []
    for f in P.crate_fns(CR):
        if f.module != "dp::peripheral" or f.kind == "promoted":
            continue
        tb = None
        for b, c in call_sites(f, lambda c: callee_is(c, "fdl::telegram::TelegramTx::send_data_telegram")):
            tb = tb or TermBuilder(f, P)
            h = tb.joperand(c["args"][1])
            if h[0] == "agg" and h[1].endswith("DataTelegramHeader"):
                dsap, ssap = h[3][2], h[3][3]
                if dsap[0] == "agg" and dsap[2] == "None" and ssap[0] == "agg" and ssap[2] == "None":
                    out.append((f, b, c, tb))
    return out


def service_selection_facts(ctx, P):
    """bool / discriminant facts on plain fields of `self` (other than `state`) that hold at the
    Data_Exchange request site: they select data exchange over diagnostics."""
    if "sel" in _sel_cache and _sel_cache["sel"][0] is P:
        return _sel_cache["sel"][1]
    sites = dx_request_sites(P)
    out = []
    for f, b, c, tb in sites:
        g = GuardAnalysis(f, P)
        must = g.must(b)
        for k, vs in must.items():
            p = path_str(k) if k[0] != "discr" else None
            if p and p.startswith("self.") and p.count(".") == 1 and vs[0] == "in":
                out.append((k, vs))
    _sel_cache["sel"] = (P, out)
    return out


def check_fdl_admission(ctx, P):
    n = 0
    for f in P.crate_fns(CR):
        if f.module != "fdl::active":
            continue
        sites = [(b, c) for b, c in call_sites(f) if c.get("via") == "dyn" and callee_is(c, "fdl::FdlApplication::receive_reply")]
        if not sites:
            continue
        ctx.analysed_fns.add(f.name)
        g = GuardAnalysis(f, P)
        up = upvar_terms(P, f)
        for b, c in sites:
            n += 1
            S = g.at(b)
            loc = f.loc(b)
            key = "fdl-admit|%s" % f.name
            bad = []
            for fs in S:
                kind = None
                for k, vs in fs.items():
                    if k[0] == "discr" and path_str(k[1]) == "telegram" and vs[0] == "in":
                        kind = vs[1]
                if kind is None or "Token" in kind:
                    bad.append("a token (or unclassified telegram) can reach the application: " + M.fmt_facts(fs))
                    continue
                if kind == frozenset(["ShortConfirmation"]):
                    continue
                if kind != frozenset(["Data"]):
                    bad.append("mixed kinds without per-kind checks: " + M.fmt_facts(fs))
                    continue
                one = frozenset([fs])
                need = [
                    ("sa == awaited address", M.key_cmp("eq", lambda t: (path_str(t) or "").endswith(".h.sa"), lambda t: awaited_addr(t, up))),
                    ("da == own address", M.key_cmp("eq", lambda t: (path_str(t) or "").endswith(".h.da"), lambda t: (path_str(t) or "").endswith("self.p.address"))),
                ]
                for what, kp in need:
                    ok, w = M.all_disj(one, kp, {True})
                    if not ok:
                        bad.append("Data reply admitted without %s: %s" % (what, M.fmt_facts(fs)))
                ok, w = M.all_disj(one, M.key_discr_where(lambda t: (path_str(t) or "").endswith(".h.fc")), {"Response"})
                if not ok:
                    bad.append("Data reply admitted without function code == Response: " + M.fmt_facts(fs))
            ctx.ob("c.fdl-admission", key, not bad and len(S) > 0, "; ".join(bad) if bad else "reply admission guards present on all %d path classes" % len(S), loc)
            ctx.sample({"site": loc, "rule": "c.fdl-admission", "classes": [M.fmt_facts(fs) for fs in S][:3]})
    ctx.anchor("dyn FdlApplication::receive_reply call sites in fdl::active", n, 1)


def upvar_terms(P, closure):
    """closure upvar name -> term of the captured operand in the parent (None if not a closure)"""
    if closure.kind != "closure":
        return {}
    parent = P.get(closure.crate, closure.parent)
    if parent is None:
        return {}
    tb = TermBuilder(parent, P)
    for b, i, s in stmts(parent):
        if "a" in s and s["rv"].get("agg") == "closure" and s["rv"].get("closure") == closure.name:
            out = {}
            for idx, op in enumerate(s["rv"]["fields"]):
                out[closure.upvars.get(idx, idx)] = strip_refs(tb.joperand(op))
            return out
    return {}


def awaited_addr(t, up):
    """t is the closure-side operand compared with `sa`: must be the address stored in AwaitDataResponse"""
    t = strip_refs(t)
    if t[0] == "upvar":
        t = up.get(t[1], t)
    # value read through the state accessor, or directly from the state's field
    if M.mentions(t, M.t_call("get_await_data_response_address")):
        return True
    p = path_str(t) or ""
    return "AwaitDataResponse" in p and p.endswith("address")


def check_routing(ctx, P):
    n = 0
    for f in P.crate_fns(CR):
        if f.module != "dp::master":
            continue
        sites = [(b, c) for b, c in call_sites(f, lambda c: callee_is(c, "dp::peripheral::Peripheral::receive_reply"))]
        if not sites:
            continue
        ctx.analysed_fns.add(f.name)
        g = GuardAnalysis(f, P)
        tb = g.tb
        for b, c in sites:
            n += 1
            S = g.at(b)
            recv = strip_refs(tb.joperand(c["args"][0]))
            def is_periph_addr(t, recv=recv):
                t = strip_refs(t)
                return t[0] == "call" and M.callee_matches(t[1], "Peripheral::address") and strip_refs(t[2][0]) == recv
            ok, w = M.all_disj(S, M.key_cmp("eq", M.t_path("addr"), is_periph_addr), {True})
            ctx.ob("d.routing", "route|%s" % f.name, ok,
                   "reply forwarded to a peripheral without `addr == peripheral.address()` for that same peripheral: " + w, f.loc(b))
            # the peripheral comes from the slot the cycle state points at
            from_cycle = M.mentions_through_defs(f, tb, recv, M.t_call("get_at_index_mut"))
            ctx.ob("d.routing", "route-slot|%s" % f.name, from_cycle,
                   "receiving peripheral is not the one obtained from get_at_index_mut(cycle index): " + show(recv), f.loc(b))
    ctx.anchor("Peripheral::receive_reply call sites in dp::master", n, 1)


def check_request(ctx, P):
    sites = dx_request_sites(P)
    ctx.anchor("Data_Exchange request construction (send_data_telegram without SAPs) in dp::peripheral", len(sites), 1)
    for f, b, c, tb in sites:
        ctx.analysed_fns.add(f.name)
        loc = f.loc(b)
        ln = tb.joperand(c["args"][2])
        ctx.ob("f.request", "dx-len|%s" % f.name, M.t_len_of("self.pi_q")(ln),
               "Data_Exchange PDU length is not len(pi_q): " + show(ln), loc)
        clo = tb.joperand(c["args"][3])
        cname = clo[1][len("closure:"):] if clo[0] == "agg" and str(clo[1]).startswith("closure:") else None
        cf = P.get(CR, cname) if cname else None
        if cf is None:
            ctx.ob("f.request", "dx-closure|%s" % f.name, False, "PDU writer of the Data_Exchange request is not a closure I can analyse: " + show(clo), loc)
            continue
        ctx.analysed_fns.add(cf.name)
        up = upvar_terms(P, cf)
        g = GuardAnalysis(cf, P)
        ctb = g.tb
        writes = []
        for cb, cc in call_sites(cf):
            # any call receiving the buffer argument mutably is a write into the PDU
            for a in cc["args"]:
                t = ctb.joperand(a)
                if M.mentions(t, lambda s: s[0] == "arg") and "&mut" in " ".join(cc["argtys"]):
                    writes.append((cb, cc))
                    break
        for cb, i, s in stmts(cf):
            if "a" in s and mk_place(s["a"])[1] and any(p[0] in ("idx", "cidx") for p in mk_place(s["a"])[1]):
                writes.append((cb, None))
        ok_w = len(writes) == 1 and writes[0][1] is not None and callee_is(writes[0][1], "copy_from_slice")
        ctx.ob("f.request", "dx-writes|%s" % f.name, ok_w,
               "the Data_Exchange PDU writer must contain exactly one write: copy_from_slice(buf, pi_q); found %d write(s)" % len(writes), cf.loc(0))
        if ok_w:
            cb, cc = writes[0]
            src = ctb.joperand(cc["args"][1])
            def resolves_to_piq(t):
                for s in subterms(t):
                    if isinstance(s, tuple) and s and s[0] == "upvar":
                        u = up.get(s[1])
                        if u is not None and M.mentions_path(u, "self.pi_q"):
                            return True
                return M.mentions_path(t, "self.pi_q")
            ctx.ob("f.request", "dx-src|%s" % f.name, resolves_to_piq(src), "Data_Exchange PDU is not copied from pi_q: " + show(src), cf.loc(cb))
            S = g.at(cb)
            is_op = lambda k: k[0] == "call" and M.callee_matches(k[1], "is_operate")
            ok, w = M.all_disj(S, is_op, {True})
            ctx.ob("f.request", "dx-operate|%s" % f.name, ok, "outputs copied into the request without the Operate guard: " + w, cf.loc(cb))
            # exactness: in Operate the copy happens on *every* path (no further condition suppresses it)
            gm = GuardAnalysis(cf, P, marks={(cb, None): "copy"})
            bad = []
            for rb in cf.return_blocks:
                for fs in gm.at(rb):
                    opv = [vs for k, vs in fs.items() if is_op(k)]
                    in_operate = any(vs == ("in", frozenset([True])) for vs in opv)
                    undecided = not opv
                    if (in_operate or undecided) and gm.count_of(fs, "copy") != {1}:
                        bad.append(M.fmt_facts(fs))
            ctx.ob("f.request", "dx-operate-exact|%s" % f.name, not bad,
                   "in Operate the output image must be copied into every Data_Exchange request, but a path class skips the copy: " + "; ".join(bad[:3]), cf.loc(cb))
    # the library never writes pi_q: every &mut of pi_q is handed out (returned) or a whole reset
    for u in mut_uses_of_field(P, CR, "pi_q", "ManagedSlice"):
        f = u["fn"]
        key = "pi_q-mut-use|%s|%s" % (f.name, u["kind"])
        ok = False
        why = "unrecognised mutable use of pi_q"
        if u["kind"] == "refmut":
            cons = consumer_of(f, u["dest"][0])
            if len(cons) == 1 and callee_is(cons[0][1], "deref_mut"):
                tb = TermBuilder(f, P)
                # result must flow to the return place only
                ret = [tb.rvalue(s["rv"]) for _, _, s in stmts(f) if "a" in s and mk_place(s["a"])[0] == 0]
                ok = f.vis == "pub" and any(M.mentions_path(r, "self.pi_q") for r in ret) and not list(
                    call_sites(f, lambda c: callee_is(c, "copy_from_slice", "fill", "clone_from_slice")))
                why = "library-internal write access to the output image pi_q (only user accessors may hand out &mut)"
            elif len(cons) == 1 and callee_is(cons[0][1], "std::mem::replace", "std::mem::take"):
                ok = True
        ctx.ob("f.request", key, ok, why + " in " + f.name, f.loc(u["b"], u["i"]))


if __name__ == "__main__":
    rule.run(PID, check, level="other",
             explanation="Structural clauses a–f of C04 decided on the MIR of /repo's current tree: single guarded writer of the "
                         "input image, path-sensitive must-guards at the copy (state, kind, status, length, service selector), FDL "
                         "reply admission guards, routing guard, event⇔update pairing, request PDU = output image under Operate. "
                         "Byte equality after copy_from_slice is the library contract, not re-proved.",
             trusted_base=["rustc MIR (nightly) as extracted by engines/mirfacts", "copy_from_slice copies src to dst verbatim"],
             thorough_configs=("no_default", "alloc", "debug_measure"))
