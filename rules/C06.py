"""C06  The token ring recovers from lost stations, lost tokens and corrupted traffic.

The property is a bounded-time recovery statement about SEVERAL independently scheduled stations; that is NOT decided.
Decided: the station-local recovery conditions - structural necessary conditions without which one station provably stays silent
for ever, keeps a dead successor, or never re-admits a live one after a disturbance:
 a  timed waits: in the poll-driven code of the station (functions that are not handed a received telegram) every site that ends the
    poll with "waiting for the bus" is, on every path class, guarded by an unexpired timer of the enumerated timer predicates
    (slot time / token-lost time-out) or follows a state transition made in the same call - no state waits on a silent bus without a
    timer that will expire;
 b  the timers themselves: the token-lost handler gives up (returns None) only under `now - last activity < token_lost_timeout` and
    claims the token (transition) on every other path; the slot timer compares `now` with last activity + slot time;
 b' the silence timers are re-armed only by NEW bus activity: the activity marker is refreshed when more bytes are pending than at the
    previous poll, not while stale bytes merely sit in the receive buffer (imported C01 b.sync-pause);
 c  the claim race resolves: the token-lost time-out is staggered by the station address (imported C01 d.constants);
 d  stations that are gone are removed after a bounded number of unanswered passes, never one that was heard (imported C11 c.supervision);
 e  stations that are online are (re-)admitted: the GAP sweep reaches every GAP address within a bounded number of token visits and a
    responding master becomes the successor (imported C12 a./c./d.wait/e.reply);
 g  a token holder lets go of the token after a lost reply: the visit's cycle stays marked as used and the hold-time deadline is
    honoured (imported C13 c.deadline, d.flag);
 f  a station that went offline (crash / restart) rejoins from scratch: bus-activity marker, byte count and token ring are forgotten
    (imported C01 g.rx offline clause, C12 d.truthful offline clause).
"""
from analysis import rule
from analysis.guards import GuardAnalysis
from analysis.terms import TermBuilder, show, path_str, strip_refs, strip_casts, subterms
from analysis.query import call_sites, callee_is, stmts, return_terms
from analysis import match as M

PID = "C06"
CR = "profirust"
ST = "fdl::active::FdlActiveStation"
TIMERS = {"check_slot_expired": False, "handle_lost_token": "None"}


def mentions_now(t):
    return any(isinstance(s, tuple) and s[:2] == ("arg", "now") for s in subterms(t))


def timer_fact(k, vs):
    """fact `timer predicate (.., now, ..) says: not expired yet`"""
    t = k[1] if k[0] == "discr" else k
    t = strip_refs(t)
    if t[0] != "call" or not mentions_now(t):
        return False
    for name, notyet in TIMERS.items():
        if M.callee_matches(t[1], ST + "::" + name):
            return vs == ("in", frozenset([notyet]))
    return False


def poll_driven(f):
    """functions of the station that are not handed a received telegram (closures passed to the PHY receive helpers and
    handle_telegram are telegram-driven: bus activity has just been seen, every silence timer restarts)"""
    if f.module != "fdl::active" or f.kind in ("closure", "promoted"):
        return False
    return not any("Telegram<" in l["ty"] or l["ty"].endswith("Telegram") for l in f.locals[1:f.argc + 1])


def check_timed_waits(ctx, P):
    nsites = ncls = 0
    for f in P.crate_fns(CR):
        if not poll_driven(f):
            continue
        # direct calls, and calls that are handed the constructor as a function value (`.unwrap_or_else(PollDone::waiting_for_bus)`)
        sites = [(b, c) for b, c in call_sites(f) if (c.get("callee") or "").endswith("PollDone::waiting_for_bus")
                 or any(str((a.get("k") or {}).get("fn") or "").endswith("PollDone::waiting_for_bus") for a in c.get("args", []) if isinstance(a, dict))]
        if not sites:
            continue
        ctx.analysed_fns.add(f.name)
        marks = {}
        for b, c in call_sites(f):
            short = (c.get("callee") or "").split("::")[-1]
            if short.startswith("transition_") and "State" in (c.get("callee") or ""):
                marks[(b, None)] = "T"
        g = GuardAnalysis(f, P, marks=marks)
        for n, (b, c) in enumerate(sites):
            nsites += 1
            bad = []
            for fs in g.at(b):
                ncls += 1
                if g.count_of(fs, "T") != {0} and 0 not in g.count_of(fs, "T"):
                    continue
                if any(timer_fact(k, vs) for k, vs in fs.items()):
                    continue
                bad.append(M.fmt_facts(fs)[:300])
            ctx.ob("a.timed-wait", "wait|%s|%d" % (f.name.split("::")[-1], n), not bad,
                   "the poll ends with \"waiting for the bus\" on a path class that neither made a state transition in this call nor is guarded by "
                   "an unexpired timer (slot time / token-lost time-out): on a silent bus the station waits here for ever: " + "; ".join(bad[:2]), f.loc(b))
    ctx.anchor("\"waiting for the bus\" sites in poll-driven station code", nsites, 3)
    ctx.anchor("path classes at those sites", ncls, 3)
    ctx.sample({"clause": "a.timed-wait", "sites": nsites, "path_classes": ncls})


def check_timers(ctx, P):
    f = ctx.need_fn(CR, ST + "::handle_lost_token")
    if f is not None:
        marks = {}
        for b, c in call_sites(f):
            if (c.get("callee") or "").split("::")[-1] == "transition_claim_token":
                marks[(b, None)] = "claim"
        g = GuardAnalysis(f, P, marks=marks)
        tmo = lambda k: k[0] == "cmp" and mentions_now(k) and any(isinstance(s, tuple) and s and s[0] == "call" and M.callee_matches(s[1], "token_lost_timeout") for s in subterms(k))
        bad = []
        nnone = nsome = 0
        for rb in f.return_blocks:
            for fs in g.at(rb):
                d = [vs for k, vs in fs.items() if k[0] == "discr" and k[1][0] == "local" and k[1][1] == 0]
                d = set(d[0][1]) if d and d[0][0] == "in" else None
                timed = [vs for k, vs in fs.items() if tmo(k)]
                if d == {"None"}:
                    nnone += 1
                    if not timed:
                        bad.append("gives up without consulting the token-lost time-out: " + M.fmt_facts(fs)[:200])
                else:
                    nsome += 1
                    if 0 in g.count_of(fs, "claim"):
                        bad.append("time-out expired but the token is not claimed: " + M.fmt_facts(fs)[:200])
        ctx.anchor("exit classes of handle_lost_token (not yet / expired)", min(nnone, nsome), 1)
        ctx.ob("b.timers", "token-lost-handler", not bad, "; ".join(bad[:2]), f.loc(0))
    f = ctx.need_fn(CR, ST + "::check_slot_expired")
    if f is not None:
        tb = TermBuilder(f, P)
        rets = [t for b, i, t in return_terms(f, tb)]
        g = GuardAnalysis(f, P)
        ok = bool(rets)
        why = []
        for t in rets:
            if not (mentions_now(t) and any(isinstance(s, tuple) and s and s[0] == "call" and M.callee_matches(s[1], "slot_time") for s in subterms(t))):
                ok = False
                why.append(show(t)[:120])
        ctx.ob("b.timers", "slot-timer", ok,
               "check_slot_expired must compare `now` with the last bus activity plus the slot time on every path, found: " + "; ".join(why[:2]), f.loc(0))


def check(ctx):
    P = ctx.prog
    check_timed_waits(ctx, P)
    check_timers(ctx, P)
    from rules import C01, C11, C12
    rule.import_clauses(ctx, "C01", C01.check, clauses=("b.sync-pause", "d.constants", "g.rx"), as_clause="c.claim-race+f.rejoin+b.rearm")
    rule.import_clauses(ctx, "C11", C11.check, clauses=("c.supervision", "e.alone"), as_clause="d.removal")
    rule.import_clauses(ctx, "C12", C12.check, clauses=("a.postcondition", "a'.provenance", "c.one-poll", "d.wait", "d.truthful", "e.reply"), as_clause="e.readmission")
    # a token holder lets go of the token: after a lost reply / time-out the visit's cycle stays marked as used and the hold-time
    # deadline is honoured, so the station reaches PassToken (otherwise every time-out grants another cycle and the other stations
    # are locked out while the bus is never silent - seed C06-5)
    from rules import C13
    rule.import_clauses(ctx, "C13", C13.check, clauses=("a.hold-time", "b.pass", "c.deadline", "d.flag"), as_clause="g.token-released")
    ctx.assume("decides station-local recovery conditions of ONE station (necessary conditions); bounded-time recovery of a ring of several "
               "independently scheduled stations after arbitrary fault episodes is not decided")


if __name__ == "__main__":
    rule.run(PID, check, level="other",
             explanation="Station-local recovery conditions: closed world of \"waiting for the bus\" sites in poll-driven code (each guarded by an "
                         "unexpired enumerated timer or preceded by a transition), shape of the two timers, plus the imported claim-stagger, "
                         "successor-removal, GAP re-admission and offline-reset clauses of C01/C11/C12. Necessary conditions of C06; the "
                         "multi-station bounded-time recovery statement is not decided.",
             trusted_base=["rustc MIR (nightly) as extracted by engines/mirfacts", "rules/spec_tables.json"],
             thorough_configs=("no_default", "alloc"))
