"""C10  The decoder is total, prefix-consistent and never mis-accepts damaged frames.

Decides:
 a  totality (level proof): every index / slice / arithmetic obligation of Telegram::deserialize,
    DataTelegram::deserialize and TokenTelegram::deserialize is discharged by the interval+zone
    domain for every input slice; no other panic site is reachable; the reported length n of an
    accepted telegram satisfies 1 <= n <= len(input); no loop except iterator folds;
 b  acceptance guards (level other): every path class reaching Some(Ok(..)) of the data-frame
    decoder carries: start delimiter matched; for SD2 LE == LEr, LE >= 3 and the repeated start
    delimiter compared with 0x68; function code parsed Ok; checksum byte == folded checksum; byte
    after the checksum == ED (0x16);
 c  closed world of verdicts: "need more data" (None) is returned only under a length test that
    bounds the input below the announced frame length; every rejection (Some(Err)) is due to one of
    the enumerated frame-format violations – a new reject or wait condition (which would make
    frames the encoder produces undecodable, C09/C16) is reported.
Does not decide: the Hamming-distance argument that single-byte corruption is always detected.
"""
import json
import os

from analysis import rule
from analysis.guards import GuardAnalysis
from analysis.numdom import NumAnalysis, place_var, Z, INF
from analysis.terms import TermBuilder, show, path_str, strip_refs, strip_casts, subterms
from analysis.query import call_sites, callee_is, stmts
from analysis.ir import mk_place
from analysis import match as M

PID = "C10"
CR = "profirust"
SPEC = json.load(open(os.path.join(os.path.dirname(__file__), "spec_tables.json")))
FR = SPEC["framing"]

DECODERS = ["fdl::telegram::Telegram::deserialize", "fdl::telegram::DataTelegram::deserialize",
            "fdl::telegram::TokenTelegram::deserialize"]

PANIC_PREFIXES = ("core::panicking::", "std::rt::begin_panic", "core::option::unwrap_failed", "core::result::unwrap_failed",
                  "core::option::expect_failed")


_FCS = {}


def fcs_helper(P, callee):
    """is `callee` a local helper whose result is the wrapping byte sum (Iterator::fold with u8::wrapping_add) of its slice parameter?"""
    if callee in _FCS:
        return _FCS[callee]
    res = False
    f = P.get(CR, callee) if P is not None else None
    if f is not None and f.kind in ("fn", "assoc") and f.argc == 1 and len(f.blocks) <= 8 and not f.back_edges():
        from analysis.query import return_terms
        tb = TermBuilder(f, P)
        rts = return_terms(f, tb)
        if len(rts) == 1:
            src = fcs_fold_source(rts[0][2], P)
            res = src is not None and strip_refs(src)[0] == "arg"  # the sum of the whole slice parameter
    _FCS[callee] = res
    return res


def fcs_fold_source(t, P=None):
    """t is the wrapping byte sum of *every* element of a slice: `S.iter()[.copied()|.cloned()].fold(0, u8::wrapping_add)` (or the same
    with a closure `|a, b| a.wrapping_add(b)`) -> the slice term S, else None.  Any other adapter in the chain (skip, take, filter,
    step_by, ...), another start value or another operator is not the PROFIBUS frame check sequence."""
    t = strip_refs(t)
    if t[0] != "call" or not t[1].endswith("::fold") or len(t[2]) != 3:
        return None
    it, init, op = t[2]
    if strip_casts(init) != ("const", 0):
        return None
    op = strip_refs(op)
    ok_op = op[0] == "const" and isinstance(op[1], tuple) and op[1][0] == "fn" and op[1][1].endswith("<impl u8>::wrapping_add")
    if not ok_op and op[0] == "agg" and str(op[1]).startswith("closure:") and P is not None:
        cf = P.get(CR, op[1][len("closure:"):])
        if cf is not None and cf.argc == 3 and not cf.back_edges():
            from analysis.query import return_terms
            rts = return_terms(cf, TermBuilder(cf, P))
            if len(rts) == 1:
                r = strip_refs(rts[0][2])
                if r[0] == "call" and r[1].endswith("<impl u8>::wrapping_add") and len(r[2]) == 2:
                    ls = []
                    for a in r[2]:
                        a = strip_casts(strip_refs(a))
                        while a[0] == "deref":
                            a = strip_refs(a[1])
                        ls.append(a)
                    ok_op = all(a[0] == "arg" for a in ls) and ls[0] != ls[1]
    if not ok_op:
        return None
    cur = strip_refs(it)
    for _ in range(4):
        if cur[0] != "call" or len(cur[2]) != 1:
            return None
        short = cur[1].split("::")[-1]
        if short in ("copied", "cloned"):
            cur = strip_refs(cur[2][0])
            continue
        if short in ("iter", "into_iter"):
            return strip_refs(cur[2][0])
        return None
    return None


def is_fcs_term(t, P=None):
    """the folded frame check sequence: the fold itself or a call of a checksum helper"""
    t = strip_refs(t)
    if t[0] != "call":
        return False
    return fcs_fold_source(t, P) is not None or fcs_helper(P, t[1])


def is_input_slice(t, depth=0):
    """the input buffer, or a local that only ever holds a sub-slice of it (`let mut rest = &buffer[4..]; rest = &rest[1..]`) - the
    decoder's cursor variable, whatever it is called"""
    t = strip_refs(t)
    while t[0] == "deref":
        t = strip_refs(t[1])
    if "buffer" in (path_str(t) or ""):
        return True
    tb = _CUR.get("data_tb")
    if t[0] == "local" and depth < 4 and tb is not None:
        ds = tb.defs.get(t[1], ())
        if not ds:
            return False
        for d in ds:
            dv = tb.rvalue(tb.fn.blocks[d[1]].stmts[d[2]]["rv"]) if d[0] == "stmt" else tb.call_term(tb.fn.blocks[d[1]].term["call"])
            dv = strip_refs(dv)
            while dv[0] == "deref":
                dv = strip_refs(dv[1])
            if dv[0] == "call" and dv[1].startswith("core::slice::index::<impl std::ops::Index") and len(dv[2]) == 2 \
                    and strip_refs(dv[2][1])[0] == "agg" and str(strip_refs(dv[2][1])[1]).startswith("std::ops::Range"):
                x_ = strip_refs(dv[2][0])
                while x_[0] == "deref":
                    x_ = strip_refs(x_[1])
                if x_[0] == "local" and x_[1] == t[1]:
                    continue  # re-slicing itself (`rest = &rest[1..]`)
                if not is_input_slice(dv[2][0], depth + 1):
                    return False
            elif not is_input_slice(dv, depth + 1) or dv[0] == "local" and dv[1] == t[1]:
                return False
        return True
    return False


def is_buf_elem(t, idx_pred=None):
    """element read of the input buffer: index(<buffer>, i) / cidx"""
    t = strip_casts(strip_refs(t))
    if t[0] == "index" and is_input_slice(t[1]):
        return idx_pred is None or idx_pred(strip_casts(t[2]))
    return False


_LEN = {}


def length_local(P):
    """the payload-length variable of DataTelegram::deserialize by role (whatever it is called): the multi-definition local L of the
    total-length test `buffer.len() < L + 6`"""
    if id(P) in _LEN:
        return _LEN[id(P)]
    res = None
    f = P.get(CR, "fdl::telegram::DataTelegram::<'a>::deserialize") or (P.fn(CR, "fdl::telegram::DataTelegram::deserialize") if P is not None else None)
    if f is not None:
        tb = TermBuilder(f, P)
        cands = set()
        for b, i, s in stmts(f):
            rv = s.get("rv") if "a" in s else None
            if rv and "bin" in rv and rv["bin"].startswith("Add"):
                x, y = strip_casts(tb.joperand(rv["a"])), strip_casts(tb.joperand(rv["b"]))
                for u, v in ((x, y), (y, x)):
                    if u[0] == "local" and v == ("const", 6):
                        cands.add(u[1])
        if len(cands) == 1:
            res = next(iter(cands))
    _LEN[id(P)] = res
    return res


_CUR = {"P": None, "data_tb": None}


def _set_data_tb(P):
    try:
        f = P.fn(CR, "fdl::telegram::DataTelegram::deserialize")
        if _CUR.get("data_tb") is None or _CUR["data_tb"].fn is not f:
            _CUR["data_tb"] = TermBuilder(f, P)
    except KeyError:
        _CUR["data_tb"] = None


def is_length(t):
    t = strip_casts(t) if isinstance(t, tuple) else t
    L = length_local(_CUR["P"]) if _CUR["P"] is not None else None
    if L is not None:
        return isinstance(t, tuple) and len(t) > 1 and t[0] == "local" and t[1] == L
    return (path_str(t) or "") == "length"


def idx_const(k):
    return lambda i: i == ("const", k)


def idx_len_plus(k):
    """index == length (+k) where `length` is the payload length local"""
    def m(i):
        if k == 0:
            return is_length(i)
        if i[0] == "field" and i[1][0] == "bin":
            i = i[1]
        return i[0] == "bin" and i[1].startswith("Add") and any(is_length(x) for x in (i[2], i[3])) and ("const", k) in (i[2], i[3])
    return m


def is_len_buffer(t):
    t = strip_casts(t)
    return t[0] == "len" and "buffer" in (path_str(t[1]) or "")


def result_sites(f, tb):
    """statements assigning the return place an Option aggregate: (b, i, kind) kind in None/Err/Ok"""
    out = []
    for b, i, s in stmts(f):
        if "a" in s and mk_place(s["a"]) == (0, ()):
            v = tb.rvalue(s["rv"])
            if v[0] == "agg" and v[2] == "None":
                out.append((b, i, "None", v))
            elif v[0] == "agg" and v[2] == "Some" and v[3] and v[3][0][0] == "agg" and v[3][0][2] in ("Ok", "Err"):
                out.append((b, i, v[3][0][2], v))
            else:
                out.append((b, i, "other", v))
    return out


def check(ctx):
    P = ctx.prog
    fns = check_totality(ctx, P)
    if fns is None:
        return
    tele, data, token = fns
    check_accept_and_verdicts(ctx, P, tele, data, token)


def check_totality(ctx, P):
    _CUR["P"] = P
    _set_data_tb(P)
    """clauses a.totality / a.length (also used by C05 for the decoder part of poll())"""
    fns = []
    for n in DECODERS:
        f = ctx.need_fn(CR, n)
        if f is not None:
            fns.append(f)
    if len(fns) != 3:
        return None
    tele, data, token = fns
    # ---------------- a: totality ---------------------------------------------------------------
    total_ob = 0
    nas = {}
    for f in fns:
        na = NumAnalysis(f, P)
        nas[f.name] = na
        for key, o in sorted(na.obligations.items(), key=lambda kv: (kv[1]["kind"], kv[0])):
            total_ob += 1
            k = "%s|%s|%s" % (f.name, o["kind"], key[1])
            # stable ordinal among identical keys
            n = sum(1 for x in ctx.obligations if x["key"].startswith("%s|a.totality|%s#" % (PID, k)))
            ctx.ob("a.totality", "%s#%d" % (k, n), o["ok"] is True,
                   "%s in %s not discharged for every input: %s" % (o["kind"], f.name, o["detail"]), f.loc(o["b"]))
        # loops
        be = f.back_edges()
        ctx.ob("a.totality", "no-loops|%s" % f.name, not be, "decoder function contains a loop (back edges %s): termination not established" % be, f.loc(0))
        # panic calls other than the asserts handled above
        for b, c in call_sites(f):
            cal = c.get("callee") or ""
            if cal.startswith(PANIC_PREFIXES) or cal.endswith("::unwrap") or cal.endswith("::expect"):
                ok, why = discharge_panic_call(ctx, P, f, b, c, tele)
                ctx.ob("a.totality", "panic-call|%s|%s" % (f.name, cal.split("::")[-1]), ok,
                       "reachable panic site in the decoder (%s): %s" % (cal, why), f.loc(b))
    ctx.anchor("index/slice/arith obligations in the three decoder functions", total_ob, 20)
    # reported length within the input
    nok = 0
    for f in fns:
        tb = TermBuilder(f, P)
        na = nas[f.name]
        for b, i, kind, v in result_sites(f, tb):
            if kind != "Ok":
                continue
            # locate the tuple (telegram, n): operand feeding Ok
            found = find_len_operand(f, b, i)
            n_op = found[1] if found else None
            if n_op is None:
                ctx.ob("a.length", "len-operand|%s" % f.name, False, "cannot locate the reported length of an accepted telegram", f.loc(b, i))
                continue
            nt = strip_casts(strip_refs(tb.joperand(n_op)))
            if f is fns[0] and nt[0] == "field" and nt[2] == "1":
                # the dispatcher hands on the length reported by a sub-decoder for the same input (explicit `match` instead of `.map`)
                x = strip_refs(nt[1])
                if x[0] == "field" and x[2] == "0" and x[1][0] == "dc" and x[1][2] == "Ok":
                    y = strip_refs(x[1][1])
                    if y[0] == "field" and y[2] == "0" and y[1][0] == "dc" and y[1][2] == "Some" and _sub_decoder(y[1][1]):
                        continue
            nok += 1
            bad = []
            for st in na.states_before(b, found[0]):
                val = na.ev_operand(st, n_op)
                g = ("ghost_len", 1)
                lo_ok = val["lo"] >= 1
                hi_ok = False
                for (vv, rlo, rhi) in val["rel"]:
                    if rhi is not None and st.z.get(vv, g) + rhi <= 0:
                        hi_ok = True
                if val["hi"] != INF and st.z.get(Z, g) != INF and val["hi"] <= -st.z.get(Z, g):
                    hi_ok = True
                if not (lo_ok and hi_ok):
                    bad.append("n in [%s,%s]" % (val["lo"], val["hi"]))
            ctx.ob("a.length", "len-in-input|%s" % f.name, not bad,
                   "reported telegram length is not proven to satisfy 1 <= n <= len(input): " + "; ".join(bad[:2]), f.loc(b, i))
    # Telegram::deserialize delegates: its own Ok site is the SC arm; the delegations return the callee's value
    ctx.anchor("accepting return sites with a proven length", nok, 3)
    return fns


def check_accept_and_verdicts(ctx, P, tele, data, token):
    _CUR["P"] = P
    _set_data_tb(P)
    # ---------------- b: acceptance guards -----------------------------------------------------
    g = GuardAnalysis(data, P)
    tb = g.tb
    sites = result_sites(data, tb)
    oks = [s for s in sites if s[2] == "Ok"]
    ctx.anchor("Some(Ok(..)) construction in DataTelegram::deserialize", len(oks), 1)
    for b, i, kind, v in oks:
        S = g.at(b, i)
        loc = data.loc(b, i)
        ctx.sample({"site": loc, "accept_path_classes": len(S), "example": M.fmt_facts(next(iter(S))) if S else None})
        miss = {}
        for fs in S:
            one = frozenset([fs])
            sd = [vs for k, vs in fs.items() if is_buf_elem(k, idx_const(0))]
            if not sd or sd[0][0] != "in" or not sd[0][1] <= {FR["SD1"], FR["SD2"], FR["SD3"]}:
                miss.setdefault("start delimiter not matched against SD1/SD2/SD3", []).append(fs)
                continue
            if FR["SD2"] in sd[0][1]:
                need = [("LE == LEr", M.key_cmp("eq", lambda t: is_buf_elem(t, idx_const(1)), lambda t: is_buf_elem(t, idx_const(2))), {True}),
                        ("LE >= 3", M.key_cmp("lt", lambda t: is_buf_elem(t, idx_const(1)), M.t_const(FR["le_min"])), {False}),
                        ("repeated start delimiter == 0x68", M.key_cmp("eq", M.t_const(FR["SD2"]), lambda t: is_buf_elem(t, idx_const(3))), {True})]
                for what, kp, allowed in need:
                    ok, w = M.all_disj(one, kp, allowed)
                    if not ok:
                        miss.setdefault(what, []).append(fs)
            need = [("function code parsed (from_byte is Ok)", lambda k: k[0] == "discr" and M.t_call("from_byte")(strip_refs(k[1])), {"Ok"}),
                    ("checksum byte buffer[length] == folded checksum", M.key_cmp("eq", lambda t: is_fcs_term(t, P),
                                                                                   lambda t: is_buf_elem(t, idx_len_plus(0))), {True}),
                    ("end delimiter buffer[length+1] == 0x16", M.key_cmp("eq", M.t_const(FR["ED"]), lambda t: is_buf_elem(t, idx_len_plus(1))), {True})]
            for what, kp, allowed in need:
                ok, w = M.all_disj(one, kp, allowed)
                if not ok:
                    miss.setdefault(what, []).append(fs)
        for what in ["start delimiter not matched against SD1/SD2/SD3", "LE == LEr", "LE >= 3", "repeated start delimiter == 0x68",
                     "function code parsed (from_byte is Ok)", "checksum byte buffer[length] == folded checksum", "end delimiter buffer[length+1] == 0x16"]:
            bad = miss.get(what, [])
            ctx.ob("b.accept", "accept-guard|" + what, not bad,
                   "a data frame can be accepted without the check `%s` on %d path class(es), e.g. %s" % (what, len(bad), M.fmt_facts(bad[0]) if bad else ""), loc)
    # checksum coverage: folded range starts at DA (offset 1 of the re-sliced buffer) and spans length+3 bytes
    check_checksum_range(ctx, P, data, tb)

    # ---------------- c: closed world of None / Err verdicts -------------------------------------
    closed_world(ctx, P, tele, data, token)


def find_len_operand(f, b, i):
    """the `n` operand of `Some(Ok((telegram, n)))` built at or before statement (b, i)"""
    blk = f.blocks[b]
    # walk back within the block: _0 = Some(move _x); _x = Ok(move _t); _t = (move _v, n)
    want = None
    for k in range(i, -1, -1):
        s = blk.stmts[k]
        if "a" not in s or "agg" not in s["rv"]:
            continue
        d = mk_place(s["a"])
        rv = s["rv"]
        if k == i and d == (0, ()):
            op = rv["fields"][0]
            want = mk_place(op.get("mv") or op.get("cp")) if ("mv" in op or "cp" in op) else None
            continue
        if want is not None and d == want:
            if rv.get("variant") == "Ok":
                op = rv["fields"][0]
                want = mk_place(op.get("mv") or op.get("cp")) if ("mv" in op or "cp" in op) else None
            elif rv["agg"] == "tuple" and len(rv["fields"]) == 2:
                return k, rv["fields"][1]
    return None


def discharge_panic_call(ctx, P, f, b, c, tele):
    """the only panic call expected is TokenTelegram::deserialize's debug_assert!(buffer[0] == SD4): it is
    unreachable when the function is entered from Telegram::deserialize's SD4 arm, its only in-crate caller."""
    g = GuardAnalysis(f, P)
    S = g.at(b)
    # the panic is on the false edge of (buffer[0] == SD4)
    ok, w = M.all_disj(S, M.key_cmp("eq", M.t_const(FR["SD4"]), lambda t: is_buf_elem(t, idx_const(0))), {False})
    if not ok:
        return False, "not the known start-delimiter assertion: " + w
    callers = []
    for cf in P.crate_fns(CR):
        for cb, cc in call_sites(cf, lambda cc: (cc.get("callee") or "") == f.name):
            callers.append((cf, cb))
    if not callers:
        return False, "no in-crate caller establishes buffer[0] == SD4"
    for cf, cb in callers:
        cg = GuardAnalysis(cf, P)
        ok2, w2 = M.all_disj(cg.at(cb), lambda k: is_buf_elem(k, idx_const(0)), {FR["SD4"]})
        if not ok2:
            return False, "caller %s does not establish buffer[0] == SD4 before the call: %s" % (cf.name, w2)
    ctx.assume("TokenTelegram::deserialize is entered only with buffer[0] == SD4 (true for its in-crate caller; the function is doc(hidden) API)")
    return True, ""


def check_checksum_range(ctx, P, data, tb):
    _CUR["P"] = P
    _set_data_tb(P)
    n = 0
    for b, c in call_sites(data, lambda c: "fold" in (c.get("callee") or "") or fcs_helper(P, c.get("callee") or "")):
        t = tb.joperand(c["args"][0])
        s = show(t)
        n += 1
        # iter over index(index(buffer, RangeFrom(1)), RangeTo(length+3))
        ok = False
        for st in subterms(t):
            if isinstance(st, tuple) and st and st[0] == "call" and "index" in st[1] and len(st[2]) == 2:
                inner, rng = strip_refs(st[2][0]), st[2][1]
                if rng[0] == "agg" and str(rng[1]).endswith("RangeTo") and inner[0] == "call" and "index" in inner[1]:
                    rng0 = inner[2][1]
                    end = strip_casts(rng[3][0])
                    if end[0] == "field" and end[1][0] == "bin":
                        end = end[1]
                    starts_at_da = rng0[0] == "agg" and str(rng0[1]).endswith("RangeFrom") and rng0[3][0] == ("const", 1)
                    spans = end[0] == "bin" and end[1].startswith("Add") and ("const", 3) in (end[2], end[3]) and any(is_length(x) for x in (end[2], end[3]))
                    ok = starts_at_da and spans
        ctx.ob("b.accept", "checksum-range", ok,
               "the checksum must be folded over buffer[1..][..length+3] (DA, SA, FC, SAPs, PDU); found " + s[:200], data.loc(b))
    ctx.anchor("checksum fold in the data-frame decoder", n, 1)


def len_bound(fs, is_len, f=None):
    """largest buffer length admitted by the `len < k` / `len == 0` facts of a fact-set: returns
    ('const', k-1) | ('sym', term) | None"""
    best = None
    for k, vs in fs.items():
        if k[0] != "cmp" or vs[0] != "in":
            continue
        if k[1] == "lt" and is_len(k[2]) and vs[1] == frozenset([True]):
            r = strip_casts(k[3])
            if r[0] == "const":
                b = ("const", r[1] - 1)
            else:
                b = ("sym", r)
            if best is None or (b[0] == "const" and (best[0] != "const" or b[1] < best[1])) or (b[0] == "sym" and best[0] != "const"):
                best = b if best is None or b[0] == "sym" or best[0] != "const" or b[1] < best[1] else best
        if k[1] == "eq" and vs[1] == frozenset([True]):
            for x, y in ((k[2], k[3]), (k[3], k[2])):
                if is_len(x) and strip_casts(y) == ("const", 0):
                    best = ("const", 0)
    return best


_P = [None]


def closed_world(ctx, P, tele, data, token):
    _CUR["P"] = P
    _set_data_tb(P)
    _P[0] = P
    nnone = nerr = 0
    # ---- Telegram::deserialize
    for f, none_rule, err_rule in (
        (tele, lambda fs: len_bound(fs, is_len_buffer) == ("const", 0) or delegated_verdict(fs) == "None", tele_err),
        (token, lambda fs: (len_bound(fs, is_len_buffer) or ("x", 99))[0] == "const" and len_bound(fs, is_len_buffer)[1] <= 2, lambda fs: None),
        (data, data_none, data_err),
    ):
        g = GuardAnalysis(f, P)
        tb = g.tb
        for b, i, kind, v in result_sites(f, tb):
            loc = f.loc(b, i)
            S = g.at(b, i)
            if kind == "None":
                nnone += 1
                bad = [fs for fs in S if not none_rule(fs)]
                ctx.ob("c.verdicts", "none|%s|%d" % (f.name, sum(1 for o in ctx.obligations if o["key"].startswith("%s|c.verdicts|none|%s|" % (PID, f.name)))), not bad,
                       "\"need more data\" is returned although the input is not shorter than the frame announced so far "
                       "(a complete telegram may wait forever / prefix verdicts become inconsistent): " + (M.fmt_facts(bad[0]) if bad else ""), loc)
            elif kind == "Err":
                nerr += 1
                reasons = set()
                bad = []
                for fs in S:
                    r = err_rule(fs)
                    if r is None:
                        bad.append(fs)
                    else:
                        reasons.add(r)
                ctx.ob("c.verdicts", "err|%s|%d" % (f.name, sum(1 for o in ctx.obligations if o["key"].startswith("%s|c.verdicts|err|%s|" % (PID, f.name)))), not bad,
                       "frame rejected for a reason that is not a violation of the PROFIBUS frame format (frames the encoder produces "
                       "may become undecodable): " + (M.fmt_facts(bad[0]) if bad else ""), loc)
                ctx.sample({"reject_site": loc, "reasons": sorted(reasons)})
            elif kind == "other":
                # delegation to another decoder (value of a call / map): allowed only for the decoders themselves
                t = show(v)
                ok = any(d.split("::")[-2] in t for d in DECODERS) or (bool(S) and all(delegated_verdict(fs) is not None for fs in S))
                ctx.ob("c.verdicts", "delegate|%s|%s" % (f.name, t[:60]), ok, "unrecognised way of producing the decoder verdict: " + t[:200], loc)
    ctx.anchor("`None` verdict sites", nnone, 4)
    ctx.anchor("`Some(Err)` verdict sites", nerr, 9)
    # ---- delegation guard: a sub-decoder's "need more data" verdict on a short input is a prefix verdict only for inputs that start
    # with one of *its* start delimiters; the dispatcher hands an input to a sub-decoder only under that start byte
    ndel = 0
    g = GuardAnalysis(tele, P)
    want = {data.name: {FR["SD1"], FR["SD2"], FR["SD3"]}, token.name: {FR["SD4"]}}
    first = lambda k: k[0] == "index" and any(x[:1] == ("arg",) for x in subterms(k[1]) if isinstance(x, tuple)) and strip_casts(k[2]) == ("const", 0)
    # ... unless the sub-decoder itself establishes its start byte before every "need more data" verdict
    self_guarded = {}
    for sf in (data, token):
        sg = GuardAnalysis(sf, P)
        self_guarded[sf.name] = all(M.all_disj(sg.at(b, i), first, want[sf.name])[0] for b, i, kind, v in result_sites(sf, sg.tb) if kind == "None")
    for b, c in call_sites(tele):
        cal = c.get("callee") or ""
        for dn, sds in want.items():
            if cal == dn:
                ndel += 1
                ok, w = M.all_disj(g.at(b), first, sds)
                ok = ok or self_guarded[dn]
                ctx.ob("c.verdicts", "delegate-guard|%s" % ("DataTelegram" if dn == data.name else "TokenTelegram"), ok,
                       "the dispatcher hands an input to %s without having established that it starts with one of that decoder's start "
                       "delimiters %s: a short input with a foreign first byte gets \"need more data\" instead of a rejection (and the verdict "
                       "flips once more bytes arrive): %s" % ("DataTelegram" if dn == data.name else "TokenTelegram", sorted(sds), w), tele.loc(b))
    ctx.anchor("delegations from the dispatcher to a sub-decoder", ndel, 2)


def _sub_decoder(t):
    t = strip_refs(t)
    return t[0] == "call" and any(M.callee_matches(t[1], d) for d in DECODERS[1:]) and len(t[2]) == 1 and is_buffer_arg(t[2][0])


def is_buffer_arg(t):
    t = strip_refs(t)
    return t[0] == "arg" and t[1] in ("buffer", 1)


def delegated_verdict(fs):
    """the dispatcher passes on the verdict of a sub-decoder on the same input (written as `.map(..)` or as an explicit match):
    'None' / 'Err' / 'Ok' / None"""
    outer = inner = None
    for k, vs in fs.items():
        if k[0] == "discr" and vs[0] == "in" and len(vs[1]) == 1:
            if _sub_decoder(k[1]):
                outer = next(iter(vs[1]))
            else:
                t = strip_refs(k[1])
                if t[0] == "field" and t[2] == "0" and t[1][0] == "dc" and t[1][2] == "Some" and _sub_decoder(t[1][1]):
                    inner = next(iter(vs[1]))
    if outer == "None":
        return "None"
    if outer == "Some" and inner in ("Ok", "Err"):
        return inner
    return None


def tele_err(fs):
    if delegated_verdict(fs) == "Err":
        return "rejected by the sub-decoder"
    for k, vs in fs.items():
        if is_buf_elem(k, idx_const(0)) and vs[0] == "notin" and vs[1] >= {FR["SD1"], FR["SD2"], FR["SD3"], FR["SD4"], FR["SC"]}:
            return "unknown start byte"
    return None


def data_none(fs):
    b = len_bound(fs, is_len_buffer)
    if b is None:
        return False
    if b[0] == "const":
        return b[1] <= 5
    # len(buffer) < length + 6
    r = b[1]
    if r[0] == "field" and r[1][0] == "bin":
        r = r[1]
    return r[0] == "bin" and r[1].startswith("Add") and ("const", 6) in (r[2], r[3]) and any(is_length(x) for x in (r[2], r[3]))


def data_err(fs):
    def has(kp, allowed):
        return M.all_disj(frozenset([fs]), kp, allowed)[0]
    if any(is_buf_elem(k, idx_const(0)) and vs[0] == "notin" and vs[1] >= {FR["SD1"], FR["SD2"], FR["SD3"]} for k, vs in fs.items()):
        return "unknown start delimiter"
    if has(M.key_cmp("eq", lambda t: is_buf_elem(t, idx_const(1)), lambda t: is_buf_elem(t, idx_const(2))), {False}):
        return "LE != LEr"
    if has(M.key_cmp("lt", lambda t: is_buf_elem(t, idx_const(1)), M.t_const(FR["le_min"])), {True}):
        return "LE < 3"
    if has(M.key_cmp("eq", M.t_const(FR["SD2"]), lambda t: is_buf_elem(t, idx_const(3))), {False}):
        return "repeated SD2 wrong"
    if has(lambda k: k[0] == "discr" and M.t_call("from_byte")(strip_refs(k[1])), {"Err"}):
        return "function code invalid"
    # SAP announced by the extension bit but no room in LE
    lt1 = M.key_cmp("lt", is_length, M.t_const(1))
    eq0 = M.key_cmp("eq", is_length, M.t_const(0))
    if (has(lt1, {True}) or has(eq0, {True})) and any(
            k[0] == "cmp" and k[1] == "eq" and "BitAnd" in show(k) and vs == ("in", frozenset([False])) for k, vs in fs.items()):
        return "extension bit set but LE leaves no room for the SAP"
    if has(M.key_cmp("eq", lambda t: is_fcs_term(t, _P[0]), lambda t: is_buf_elem(t, idx_len_plus(0))), {False}):
        return "checksum mismatch"
    if has(M.key_cmp("eq", M.t_const(FR["ED"]), lambda t: is_buf_elem(t, idx_len_plus(1))), {False}):
        return "end delimiter missing"
    return None


if __name__ == "__main__":
    rule.run(PID, check, level="proof",
             explanation="Totality: every Assert / slice-API obligation of the three decoder functions discharged by the interval+zone "
                         "abstract interpreter for all input slices, reported length within the input, no loops. Acceptance guards and "
                         "the closed world of None/Err verdicts decided by the path-sensitive must-guard analysis.",
             trusted_base=["rustc MIR (nightly) as extracted by engines/mirfacts", "analysis/numdom.py (zone domain) transfer functions",
                           "core slice API preconditions (Index<Range*>, indexing BoundsCheck) as encoded in numdom",
                           "Iterator::fold over a slice iterator terminates"],
             thorough_configs=("no_default", "alloc"))
