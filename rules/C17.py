"""C17  Diagnostics are decoded correctly and block iteration is total.

Decides:
 a  totality of ExtDiagBlockIter::next (level proof): every bounds / slice / overflow obligation is
    discharged by the interval+zone domain for every buffer content and cursor, under the field
    invariant `length <= len(buffer)` which is itself proved over all writers of the field (e);
 b  progress and geometry: every yielded block advances the cursor by at least 1 and keeps it
    within the data, every `None` leaves the cursor at/after the end (iteration stops for good);
 c  decode tables: block kind from header>>6 (00 device, 01 identifier, 10 channel, 11 stop),
    length mask 0x3f, channel field masks, ChannelDataType / ChannelError tables;
 d  the two 6-byte header decoders (peripheral and scanner) extract the same fields from the same
    bytes with the same guards: flags = from_bits_retain(le16(pdu[0..2])), master = pdu[3] with
    255 -> None, ident = be16(pdu[4..6]), ext = pdu[6..], SAP guards 62/60, len >= 6;
 e  ExtendedDiagnostics::fill copies only when the data fits and sets `length` together with the copy.
"""
import json
import os

import re

from analysis import rule
from analysis.guards import GuardAnalysis
from analysis.numdom import NumAnalysis, Z, INF
from analysis.terms import TermBuilder, show, path_str, strip_refs, strip_casts, subterms
from analysis.query import call_sites, callee_is, stmts, mut_uses_of_field, constructions, has_field
from analysis.ir import mk_place
from analysis import match as M

PID = "C17"
CR = "profirust"
SPEC = json.load(open(os.path.join(os.path.dirname(__file__), "spec_tables.json")))
DG = SPEC["slave_diag"]
EB = DG["ext_block"]

V_LENGTH = ("v", 1, (("deref",), ("f", "length")))
V_BUFLEN = ("mlen", 1, (("deref",), ("f", "buffer")))


def inv_hyp(na, st):
    st.z.add(V_LENGTH, V_BUFLEN, 0)  # length <= len(buffer)
    st.z.set_interval(V_BUFLEN, 0, 2**63 - 1)
    st.z.set_interval(V_LENGTH, 0, 2**63 - 1)


def check(ctx):
    P = ctx.prog
    check_invariant(ctx, P)
    check_iter(ctx, P)
    check_tables(ctx, P)
    check_no_truncation(ctx, P)
    check_fill(ctx, P)
    check_siblings(ctx, P)


# ------------------------------------------------------------------------------------------------
def check_invariant(ctx, P):
    """e + R-INV: `ExtendedDiagnostics.length <= len(buffer)` over all writers"""
    writers = {}
    for u in mut_uses_of_field(P, CR, "length", "usize"):
        f = u["fn"]
        if f.module == "dp::diagnostics" and f.locals[u["place"]["l"]]["ty"].startswith("&mut dp::diagnostics::ExtendedDiagnostics"):
            writers[f.name] = f
    for u in mut_uses_of_field(P, CR, "buffer", "ManagedSlice"):
        f = u["fn"]
        if f.module == "dp::diagnostics" and f.locals[u["place"]["l"]]["ty"].startswith("&mut dp::diagnostics::ExtendedDiagnostics"):
            writers[f.name] = f
    ctx.anchor("functions writing ExtendedDiagnostics.length / buffer", len(writers), 2)
    for name, f in sorted(writers.items()):
        ctx.analysed_fns.add(name)
        na = NumAnalysis(f, P, entry_hook=inv_hyp)
        bad = []
        for rb in f.return_blocks:
            for st in na.states_at_term(rb):
                if not (st.z.get(V_LENGTH, V_BUFLEN) <= 0 or st.z.hi(V_LENGTH) <= 0):
                    bad.append("length in [%s,%s], length-len(buffer) <= %s" % (st.z.lo(V_LENGTH), st.z.hi(V_LENGTH), st.z.get(V_LENGTH, V_BUFLEN)))
        ctx.ob("e.invariant", "inv|%s" % name, not bad,
               "`length <= len(buffer)` of ExtendedDiagnostics is not re-established at an exit of %s: %s" % (name, "; ".join(bad[:2])), f.loc(0))
        for key, o in sorted(na.obligations.items()):
            ctx.ob("e.invariant", "ob|%s|%s|%s" % (name, o["kind"], key[1]) + "#%d" % sum(1 for x in ctx.obligations if x["key"].startswith("%s|e.invariant|ob|%s|%s|%s" % (PID, name, o["kind"], key[1]))),
                   o["ok"] is True, "%s in %s: %s" % (o["kind"], name, o["detail"]), f.loc(o["b"]))
    # constructors start with length 0
    for c in constructions(P, CR, "dp::diagnostics::ExtendedDiagnostics"):
        f = c["fn"]
        names = c["rv"]["fnames"]
        tb = TermBuilder(f, P)
        v = tb.joperand(c["rv"]["fields"][names.index("length")])
        ctx.ob("e.invariant", "init|%s" % f.name, v == ("const", 0), "ExtendedDiagnostics constructed with length %s (must be 0)" % show(v), f.loc(c["b"], c["i"]))
    # fill: the copy and the length store are paired and guarded by the fit test
    f = ctx.need_fn(CR, "dp::diagnostics::ExtendedDiagnostics::fill")
    if f is None:
        return
    tb = TermBuilder(f, P)
    copies = [(b, c) for b, c in call_sites(f, lambda c: callee_is(c, "copy_from_slice"))]
    stores = [(b, i) for b, i, s in stmts(f) if "a" in s and has_field(s["a"], "length", "usize")]
    ctx.anchor("copy into the ext-diag buffer in fill()", len(copies), 1)
    marks = {}
    for b, c in copies:
        marks[(b, None)] = "copy"
    for b, i in stores:
        marks[(b, i)] = "len"
    g = GuardAnalysis(f, P, marks=marks)
    bad = []
    for rb in f.return_blocks:
        for fs in g.at(rb):
            if g.count_of(fs, "copy") != g.count_of(fs, "len") or g.count_of(fs, "copy") - {0, 1}:
                bad.append(M.fmt_facts(fs))
    ctx.ob("e.fill", "copy-length-paired", not bad, "fill(): `length` is updated on a path without the copy (or vice versa): " + "; ".join(bad[:2]), f.loc(0))
    for b, c in copies:
        S = g.at(b)
        ok, w = M.all_disj(S, M.key_cmp("lt", M.t_len_of("self.buffer"), lambda t: t[0] == "len" and (path_str(t[1]) or "") == "buf"), {False})
        ctx.ob("e.fill", "fit-guard", ok, "fill(): copy not guarded by len(buffer) >= len(data): " + w, f.loc(b))
        src = strip_refs(tb.joperand(c["args"][1]))
        ctx.ob("e.fill", "copy-source", path_str(src) == "buf", "fill(): copied data is not the argument: " + show(src), f.loc(b))
    for b, i in stores:
        v = tb.rvalue(f.blocks[b].stmts[i]["rv"])
        ctx.ob("e.fill", "length-value", v[0] == "len" and path_str(v[1]) == "buf", "fill(): stored length is not len(data): " + show(v), f.loc(b, i))
    # return value true iff stored
    # raw_diag_buffer: slice under the invariant
    rf = ctx.need_fn(CR, "dp::diagnostics::ExtendedDiagnostics::raw_diag_buffer")
    if rf is not None:
        na = NumAnalysis(rf, P, entry_hook=inv_hyp)
        for key, o in sorted(na.obligations.items()):
            ctx.ob("a.totality", "raw|%s|%s" % (o["kind"], key[1]), o["ok"] is True, "%s in raw_diag_buffer: %s" % (o["kind"], o["detail"]), rf.loc(o["b"]))


# ------------------------------------------------------------------------------------------------
CUR = ("v", 1, (("deref",), ("f", "cursor")))
G_CUR = ("ghost", "cursor")


def iter_hook(na, st):
    st.z.set_interval(CUR, 0, 2**64 - 1)
    st.z.add(CUR, G_CUR, 0)
    st.z.add(G_CUR, CUR, 0)


G_LEN = ("ghost", "rawlen")
G_AVAIL = ("ghost", "rawavail")


def iter_call_hook(na, st, b, c):
    """ghosts for the block data: its availability (discriminant of raw_diag_buffer()'s result) and its length"""
    if (c.get("callee") or "").endswith("::raw_diag_buffer"):
        dpl = mk_place(c["dest"])
        dv = ("v", dpl[0], dpl[1] + (("discr",),))
        lv = ("len", dpl[0], dpl[1] + (("dc", "Some"), ("f", "0")))
        st.z.forget(G_LEN)
        st.z.forget(G_AVAIL)
        st.z.set_interval(dv, 0, 1)
        st.z.set_interval(lv, 0, 2**63 - 1)
        for g_, v_ in ((G_AVAIL, dv), (G_LEN, lv)):
            st.z.add(g_, v_, 0)
            st.z.add(v_, g_, 0)


def check_iter(ctx, P):
    f = None
    for fn in P.crate_fns(CR):
        if fn.module == "dp::diagnostics" and fn.name.endswith("::next") and "ExtDiagBlockIter" in fn.name:
            f = fn
    ctx.anchor("ExtDiagBlockIter::next", 1 if f else 0, 1)
    if f is None:
        return
    ctx.analysed_fns.add(f.name)
    na = NumAnalysis(f, P, entry_hook=iter_hook, call_hook=iter_call_hook)
    nob = 0
    for key, o in sorted(na.obligations.items(), key=lambda kv: (kv[1]["kind"], kv[0])):
        nob += 1
        k = "next|%s|%s" % (o["kind"], key[1])
        n = sum(1 for x in ctx.obligations if x["key"].startswith("%s|a.totality|%s#" % (PID, k)))
        if o["kind"] == "unwrap":
            continue
        ctx.ob("a.totality", "%s#%d" % (k, n), o["ok"] is True, "%s in ExtDiagBlockIter::next not discharged for every buffer: %s" % (o["kind"], o["detail"]), f.loc(o["b"]))
    ctx.anchor("bounds/slice/overflow obligations in ExtDiagBlockIter::next", nob, 3)  # (slice patterns and get()/first() leave fewer panicking operations than indexing)
    ctx.ob("a.totality", "no-loops", not f.back_edges(), "ExtDiagBlockIter::next contains a loop", f.loc(0))
    # the unwrap of raw_diag_buffer(): must not be a panic for buffer-less diagnostics
    tb = TermBuilder(f, P)
    for b, c in call_sites(f):
        cal = c.get("callee") or ""
        if cal.endswith("::unwrap") or cal.endswith("::expect") or cal.startswith("core::panicking::") :
            if any("unreachable" in m for m in (f.blocks[b].term.get("mac") or [])):
                # `_ => unreachable!()` of the 2-bit kind match: discharged when the scrutinee is header >> 6 of a u8
                g = GuardAnalysis(f, P)
                ok = all(any(k[0] == "bin" and k[1] == "Shr" and k[3] == ("const", 6) and vs[0] == "notin" and vs[1] >= {0, 1, 2, 3} for k, vs in fs.items()) for fs in g.at(b)) and bool(g.at(b))
                ctx.ob("a.totality", "unreachable-kind", ok, "unreachable!() of the block-kind match is not provably dead (scrutinee must be a u8 >> 6 with arms 0..=3)", f.loc(b))
                continue
            arg = show(tb.joperand(c["args"][0])) if c["args"] else ""
            ctx.ob("a.totality", "panic-call|%s|%s" % (cal.split("::")[-1], arg[:40]), False,
                   "reachable panic site in the block iterator: %s(%s) – iterating the diagnostics of a peripheral without a diagnostics buffer panics" % (cal, arg), f.loc(b))
    # b: progress at every return site
    g = GuardAnalysis(f, P)
    nsome = nnone = 0
    for b, i, s in stmts(f):
        if "a" in s and mk_place(s["a"]) == (0, ()) and "agg" in s["rv"]:
            var = s["rv"].get("variant")
            sts = na.states_before(b, i)
            if var == "Some":
                nsome += 1
                bad = [st for st in sts if not (st.z.get(G_CUR, CUR) <= -1)]
                ctx.ob("b.progress", "some-advances#%d" % nsome, not bad, "a block is yielded without advancing the cursor by at least 1 (iteration may not terminate)", f.loc(b, i))
            elif var == "None":
                nnone += 1
    ctx.anchor("yielding return sites", nsome, 3)
    # None sites: cursor >= len(raw)  – by guard facts (cursor >= len) or by the store cursor = len(raw)
    def terminal(sts):
        """in every state: there is no block data at all, or the cursor is at/after its end (zone: rawlen - cursor <= 0)"""
        return all(st.z.hi(G_AVAIL) == 0 or st.z.get(G_LEN, CUR) <= 0 for st in sts)
    sites = []
    for b, i, s in stmts(f):
        if "a" in s and mk_place(s["a"]) == (0, ()) and s["rv"].get("variant") == "None" and "agg" in s["rv"]:
            S = g.at(b, i)
            ok_all = True
            for fs in S:
                ok1 = M.all_disj(frozenset([fs]), M.key_cmp("lt", M.t_path("self.cursor"), lambda t: t[0] == "len"), {False})[0]
                ok_all = ok_all and ok1
            if not ok_all:
                # must be preceded (dominated) by a store cursor = len(raw_buffer)
                stores = [(sb, si) for sb, si, ss in stmts(f) if "a" in ss and has_field(ss["a"], "cursor", "usize") and tb.rvalue(ss["rv"])[0] == "len"]
                ok_all = any(sb in f.dom[b] for sb, si in stores)
            sites.append((b, i, ok_all or terminal(na.states_before(b, i))))
    # `?` on an Option: the early `None` produced by from_residual is a return site like the others
    for b, c in call_sites(f):
        if (c.get("callee") or "").endswith("::from_residual") and mk_place(c["dest"]) == (0, ()):
            nnone += 1
            sites.append((b, None, terminal(na.states_at_term(b))))
    for b, i, ok_all in sites:
        ctx.ob("b.progress", "none-terminal#%d" % sum(1 for o in ctx.obligations if o["key"].startswith("%s|b.progress|none-terminal" % PID)), ok_all,
               "`None` is returned without the cursor being at/after the end of the data: the iterator would resume after a malformed block", f.loc(b, i))
    ctx.anchor("`None` return sites", nnone, 2)


# ------------------------------------------------------------------------------------------------
def block_byte(t):
    """'remainder[k]' when t reads byte k of the block that starts at the cursor (raw[cursor..][k])"""
    t = strip_casts(strip_refs(t))
    if t[0] == "cidx" and not t[3]:
        t = ("index", t[1], ("const", t[2]))  # an element bound by a slice pattern `&[b0, b1, b2, ..]`
    if t[0] == "index" and t[2][0] == "const":
        base = strip_refs(t[1])
        # `&raw[cursor..]` or the payload of `raw.get(cursor..)`
        while base[0] == "deref" or (base[0] == "field" and base[2] == "0" and base[1][0] == "dc" and base[1][2] == "Some"):
            base = base[1] if base[0] == "deref" else strip_refs(base[1][1])
        if base[0] == "call" and ("index" in base[1] or re.search(r"<impl \[T\]>::get(_mut)?$", base[1])) and len(base[2]) == 2:
            rng = base[2][1]
            if rng[0] == "agg" and str(rng[1]).endswith("RangeFrom") and path_str(rng[3][0]) == "self.cursor":
                return "remainder[%d]" % t[2][1]
    return show(t)


def check_tables(ctx, P):
    f = None
    for fn in P.crate_fns(CR):
        if fn.module == "dp::diagnostics" and fn.name.endswith("::next") and "ExtDiagBlockIter" in fn.name:
            f = fn
    if f is None:
        return
    g = GuardAnalysis(f, P)
    tb = g.tb
    kinds = {}
    for b, i, s in stmts(f):
        if "a" in s and "agg" in s["rv"] and s["rv"].get("adt") == "dp::diagnostics::ExtDiagBlock":
            for fs in g.at(b, i):
                for k, vs in fs.items():
                    if k[0] == "bin" and k[1] == "Shr" and k[3] == ("const", EB["kind_shift"]) and vs[0] == "in":
                        for v in vs[1]:
                            kinds[v] = s["rv"]["variant"]
    want = {EB["device"]: "Device", EB["identifier"]: "Identifier", EB["channel"]: "Channel"}
    ctx.ob("c.tables", "block-kind", kinds == want, "block kind table (header>>6 -> kind) is %s, specification says %s" % (kinds, want), f.loc(0))
    # length mask
    masks = set()
    for b, i, s in stmts(f):
        if "a" in s:
            v = strip_casts(tb.rvalue(s["rv"]))
            if v[0] == "bin" and v[1] == "BitAnd" and f.locals[s["a"]["l"]].get("name") is None:
                pass
    lens = set()
    for b, c in call_sites(f, lambda c: "From<u8> for usize" in (c.get("callee") or "")):
        a = strip_casts(tb.joperand(c["args"][0]))
        if a[0] == "bin" and a[1] == "BitAnd" and a[3][0] == "const":
            lens.add(a[3][1])
    ctx.ob("c.tables", "length-mask", lens == {EB["len_mask"]}, "block length mask is %s, specification says 0x3f" % sorted(lens), f.loc(0))
    # channel block: fixed 3 bytes and field masks
    chan = [c for c in constructions(P, CR, "dp::diagnostics::ChannelDiagnostics") if c["fn"] is f]
    ctx.anchor("ChannelDiagnostics construction", len(chan), 1)
    for c in chan:
        names = c["rv"]["fnames"]
        vals = {n: strip_casts(tb.joperand(o)) for n, o in zip(names, c["rv"]["fields"])}
        def mask_of(t):
            t = strip_casts(t)
            if t[0] == "bin" and t[1] == "Ne" and t[3] == ("const", 0):
                t = strip_casts(t[2])
            if t[0] == "bin" and t[1] == "BitAnd":
                return block_byte(t[2]), t[3][1] if t[3][0] == "const" else None
            return block_byte(t), None
        got = {n: mask_of(v) for n, v in vals.items() if n in ("module", "channel", "input", "output")}
        want = {"module": ("remainder[0]", 0x3F), "channel": ("remainder[1]", 0x3F), "input": ("remainder[1]", 0x40), "output": ("remainder[1]", 0x80)}
        ctx.ob("c.tables", "channel-fields", got == want, "channel block fields decoded as %s, specification says %s" % (got, want), f.loc(c["b"], c["i"]))
        for n, fn_ in (("dtype", "ChannelDataType::from_diag_byte2"), ("error", "ChannelError::from_diag_byte2")):
            v = vals.get(n)
            ok = v is not None and v[0] == "call" and M.callee_matches(v[1], fn_) and block_byte(v[2][0]) == "remainder[2]"
            ctx.ob("c.tables", "channel-" + n, ok, "channel %s must be decoded from byte 3 of the block by %s, found %s" % (n, fn_, show(v) if v else None), f.loc(c["b"], c["i"]))
    # the 3-byte advance of the channel block
    # ChannelDataType table
    try:
        df = P.fn(CR, "dp::diagnostics::ChannelDataType::from_diag_byte2")
        dg = GuardAnalysis(df, P)
        dt = {}
        for b, i, s in stmts(df):
            if "a" in s and mk_place(s["a"])[0] == 0 and "agg" in s["rv"]:
                for fs in dg.at(b, i):
                    for k, vs in fs.items():
                        if k[0] == "bin" and k[1] == "Shr" and k[3] == ("const", 5):
                            if vs[0] == "in":
                                for v in vs[1]:
                                    dt[v] = s["rv"]["variant"]
                            else:
                                dt["_"] = s["rv"]["variant"]
        adt = P.adt(CR, "dp::diagnostics::ChannelDataType")
        discr = {int(v["discr"]): v["name"] for v in adt["variants"]}
        ok = all(dt.get(d) == n for d, n in discr.items() if n != "Invalid") and dt.get("_") == "Invalid"
        ctx.ob("c.tables", "channel-datatype-table", ok, "ChannelDataType::from_diag_byte2 table %s disagrees with the enum discriminants %s" % (dt, discr), df.loc(0))
        ef = P.fn(CR, "dp::diagnostics::ChannelError::from_diag_byte2")
        eg = GuardAnalysis(ef, P)
        et = {}
        mask = set()
        for b, i, s in stmts(ef):
            if "a" in s and mk_place(s["a"])[0] == 0 and "agg" in s["rv"] and s["rv"].get("adt", "").endswith("ChannelError"):
                for fs in eg.at(b, i):
                    for k, vs in fs.items():
                        if k[0] == "bin" and k[1] == "BitAnd" and k[3][0] == "const" and vs[0] == "in":
                            mask.add(k[3][1])
                            for v in vs[1]:
                                et[v] = s["rv"]["variant"]
        edt = P.adt(CR, "dp::diagnostics::ChannelError")
        ediscr = {int(v["discr"]): v["name"] for v in edt["variants"] if not v["fields"]}
        ok = mask == {0x1F} and all(et.get(d) == n for d, n in ediscr.items())
        ctx.ob("c.tables", "channel-error-table", ok, "ChannelError::from_diag_byte2 table %s (mask %s) disagrees with the enum discriminants %s / mask 0x1f" % (et, sorted(mask), ediscr), ef.loc(0))
        # the two payload-carrying variants: manufacturer specific error types are 16..=31, everything else that is not a named type is reserved
        ena = NumAnalysis(ef, P)
        rng = {}
        for b, i, s in stmts(ef):
            if "a" in s and "agg" in s["rv"] and s["rv"].get("adt", "").endswith("ChannelError") and s["rv"].get("variant") in ("Vendor", "Reserved") and s["rv"]["fields"]:
                lo, hi = None, None
                for st in ena.states_before(b, i):
                    v = ena.ev_operand(st, s["rv"]["fields"][0])
                    lo = v["lo"] if lo is None else min(lo, v["lo"])
                    hi = v["hi"] if hi is None else max(hi, v["hi"])
                rng[s["rv"]["variant"]] = (lo, hi)
        vr = tuple(EB["channel_error_vendor_range"])
        ctx.ob("c.tables", "channel-error-vendor-range", rng.get("Vendor") == vr and rng.get("Reserved") is not None and rng["Reserved"][1] < vr[0],
               "ChannelError::from_diag_byte2 decodes error types %s as manufacturer specific (specification: %s..=%s) and %s as reserved" % (
                   rng.get("Vendor"), vr[0], vr[1], rng.get("Reserved")), ef.loc(0))
        ctx.sample({"block_kinds": {str(k): v for k, v in kinds.items()}, "datatype": {str(k): v for k, v in dt.items()}, "errors": {str(k): v for k, v in et.items()}})
    except KeyError as e:
        ctx.ob("c.tables", "anchor-channel-tables", False, str(e))


# ------------------------------------------------------------------------------------------------
def header_signature(ctx, P, f):
    """what a 6-byte diagnostics header decoder extracts: dict of normalised strings"""
    tb = TermBuilder(f, P)
    g = GuardAnalysis(f, P)
    sig = {}
    all_cons = constructions(P, CR, "dp::peripheral::DiagnosticsInfo")
    cons = [c for c in all_cons if c["fn"] is f]
    guard_site = None
    if not cons:
        # the header decoding may live in a private helper called by the decoder: field extraction is read off the helper, the
        # admission guards off the call site
        for b_, c_ in call_sites(f):
            h = P.get(CR, c_.get("callee") or "")
            if h is not None and len([c for c in all_cons if c["fn"] is h]) == 1:
                cons = [c for c in all_cons if c["fn"] is h]
                guard_site = (b_, None)
                tb = TermBuilder(h, P)
                g_h = GuardAnalysis(h, P)
                break
    if len(cons) != 1:
        return None, "expected exactly one DiagnosticsInfo construction, found %d" % len(cons)
    c = cons[0]
    names = c["rv"]["fnames"]
    vals = {n: tb.joperand(o) for n, o in zip(names, c["rv"]["fields"])}

    def norm(t):
        return show(t).replace("t.pdu", "pdu").replace("telegram.<Data>.0.pdu", "pdu")
    fl = strip_refs(vals["flags"])
    sig["flags_ctor"] = fl[1].split("::")[-1] if fl[0] == "call" else show(fl)
    sig["flags_src"] = norm(fl[2][0]) if fl[0] == "call" and fl[2] else "?"
    idn = strip_refs(vals["ident_number"])
    sig["ident_ctor"] = idn[1].split("::")[-1] if idn[0] == "call" else show(idn)
    sig["ident_src"] = norm(idn[2][0]) if idn[0] == "call" and idn[2] else "?"
    for key_, (a_, b_) in (("flags_src", (0, 1)), ("ident_src", (4, 5))):
        # one spelling for "octets a and b of the PDU" (sub-slice converted to an array, or an array of two elements)
        if ("Range(%d, %d)" % (a_, b_ + 1)) in sig[key_] or re.search(r"array\(pdu\[%d\], pdu\[%d\]\)" % (a_, b_), sig[key_]):
            sig[key_] = re.sub(r"unwrap\(try_into\(index\(pdu, Range::Range\(%d, %d\)\)\)\)|array\(pdu\[%d\], pdu\[%d\]\)" % (a_, b_ + 1, a_, b_),
                               "array(pdu[%d], pdu[%d])" % (a_, b_), sig[key_])
    # master address: multi-def local assigned None / Some(pdu[3]) under pdu[3] == 255
    S = (g_h if guard_site is not None else g).at(c["b"], c["i"])
    ma = set()
    mterm = strip_refs(vals["master_address"])  # the value stored as master address, whatever the local is called
    if mterm[0] == "call" and mterm[1].endswith("Option::<T>::filter") and len(mterm[2]) == 2:
        # `Some(pdu[3]).filter(|&m| m != 255)`: None iff the byte is 255
        src, clo = strip_refs(mterm[2][0]), strip_refs(mterm[2][1])
        cf = P.get(CR, clo[1][len("closure:"):]) if clo[0] == "agg" and str(clo[1]).startswith("closure:") else None
        if src[0] == "agg" and src[2] == "Some" and norm(src[3][0]).endswith("pdu[3]") and cf is not None:
            from analysis.guards import canon_bool
            from analysis.query import return_terms
            ctb = TermBuilder(cf, P)
            rts = return_terms(cf, ctb)
            if len(rts) == 1:
                k_, v_ = canon_bool(rts[0][2], True)
                if k_[0] == "cmp" and k_[1] == "eq" and ("const", DG["no_master"]) in (k_[2], k_[3]) and v_ == ("in", frozenset([False])):
                    other = k_[3] if k_[2] == ("const", DG["no_master"]) else k_[2]
                    if all(l[0] == "arg" for l in [x for x in subterms(other) if isinstance(x, tuple) and x and x[0] in ("arg", "local", "upvar", "env")]):
                        ma = {(("None",), ("pdu[3]", (True,))), (("Some",), ("pdu[3]", (False,)))}
    for fs in (S if not ma else ()):
        d = None
        cmpv = None
        for k, vs in fs.items():
            if k[0] == "discr" and (strip_refs(k[1]) == mterm or "master_address" in show(k[1])):
                d = tuple(sorted(vs[1]))
            if k[0] == "cmp" and k[1] == "eq" and ("const", DG["no_master"]) in (k[2], k[3]):
                other = k[3] if k[2] == ("const", DG["no_master"]) else k[2]
                cmpv = (norm(other), tuple(sorted(vs[1])))
            elif k[0] not in ("cmp", "discr", "count") and isinstance(vs[1], frozenset) and vs[1] == frozenset([DG["no_master"]]) and norm(k).endswith("pdu[3]"):
                # `match pdu[3] { 255 => .., other => .. }`: a value test instead of a comparison
                cmpv = (norm(k), (vs[0] == "in",))
        ma.add((d, cmpv))
    sig["master"] = sorted(map(str, ma))
    if guard_site is not None:
        S = g.at(guard_site[0])
    # guards on every path to the construction
    gtb = (g_h if guard_site is None else g).tb if False else g.tb

    def is_pdu(t):
        """the reply's PDU: the field itself, or a local that is only ever a copy of it (the scrutinee of a slice pattern)"""
        t = strip_refs(t)
        while t[0] == "deref":
            t = strip_refs(t[1])
        if (path_str(t) or "").endswith(".pdu"):
            return True
        if t[0] == "local":
            ds = gtb.defs.get(t[1], ())
            fn_ = gtb.fn
            return bool(ds) and all(d[0] == "stmt" and (path_str(strip_refs(gtb.rvalue(fn_.blocks[d[1]].stmts[d[2]]["rv"]))) or "").endswith(".pdu") for d in ds)
        return False
    gs = []
    for what, kp, allowed in (
        ("dsap==Some(62)", M.key_cmp("eq", lambda t: t[0] == "agg" and t[2] == "Some" and t[3] == (("const", SPEC["sap"]["master_ms0"]),), lambda t: (path_str(t) or "").endswith(".h.dsap")), {True}),
        ("ssap==Some(60)", M.key_cmp("eq", lambda t: t[0] == "agg" and t[2] == "Some" and t[3] == (("const", SPEC["sap"]["slave_diag"]),), lambda t: (path_str(t) or "").endswith(".h.ssap")), {True}),
        ("len(pdu)>=6", M.key_cmp("lt", lambda t: t[0] == "len" and is_pdu(t[1]), M.t_const(6)), {False}),
        ("kind==Data", M.key_discr_where(lambda t: path_str(t) == "telegram"), {"Data"}),
    ):
        ok, w = M.all_disj(S, kp, allowed)
        gs.append((what, ok))
    sig["guards"] = gs
    return sig, None


def check_fill(ctx, P):
    """a.totality/b (stored diagnostics are those of the last reply): ExtendedDiagnostics::fill either records the new block data
    (length == len(buf)) or returns because there is no buffer / the buffer is too small; an empty block list is recorded like any other
    (otherwise the blocks of an earlier reply would still be reported)."""
    f = None
    for g_ in P.crate_fns(CR):
        if g_.module == "dp::diagnostics" and g_.name.endswith("ExtendedDiagnostics::<'a>::fill"):
            f = g_
    if f is None:
        ctx.notes.append("fill: ExtendedDiagnostics::fill not found - not decided")
        return
    na = NumAnalysis(f, P)
    LEN = ("v", 1, (("deref",), ("f", "length")))
    BUF = ("len", 2, ())
    CAP = ("mlen", 1, (("deref",), ("f", "buffer")))
    bad = []
    n = 0
    for rb in f.return_blocks:
        for st in na.states_at_term(rb):
            n += 1
            stored = st.z.get(LEN, BUF) <= 0 and st.z.get(BUF, LEN) <= 0
            no_buffer = st.z.hi(CAP) <= 0
            too_small = st.z.get(CAP, BUF) <= -1
            if not (stored or no_buffer or too_small):
                bad.append("len(buf) in [%s,%s], capacity in [%s,%s]" % (st.z.lo(BUF), st.z.hi(BUF), st.z.lo(CAP), st.z.hi(CAP)))
    ctx.ob("a.totality", "fill-records-or-rejects", n >= 3 and not bad,
           "ExtendedDiagnostics::fill can return without recording the reply's block data although a large enough buffer exists (%s): the "
           "blocks of an earlier reply stay visible" % "; ".join(sorted(set(bad))[:2]), f.loc(0))


def check_no_truncation(ctx, P):
    """d.header: the reported flags are every bit of the reply: besides from_bits_retain, no operation of the decode path may truncate to
    the named flags (`!flags`, `complement()`, `from_bits_truncate`, `&` with `all()`)."""
    n = 0
    for f in P.crate_fns(CR):
        if not (f.name.endswith("::handle_diagnostics_response") or f.name.endswith("::parse_diag_response")):
            continue
        n += 1
        bad = []
        for b, c in call_sites(f):
            cal = c.get("callee") or ""
            if "DiagnosticFlags" in cal and (("ops::Not" in cal) or cal.endswith(("::complement", "::from_bits_truncate", "::all"))):
                bad.append("%s %s" % (f.loc(b), cal.split("::")[-1]))
        ctx.ob("d.header", "no-truncation|%s" % f.name.split("::")[-1], not bad,
               "the decoded diagnostic flags pass through an operation that drops the bits without a named constant (%s)" % bad, f.loc(0))
    ctx.anchor("diagnostics header decoders", n, 2)


def check_siblings(ctx, P):
    fns = []
    for name in ("dp::peripheral::Peripheral::handle_diagnostics_response", "dp::scan::DpScanner::parse_diag_response"):
        f = ctx.need_fn(CR, name)
        if f is not None:
            fns.append(f)
    sigs = []
    for f in fns:
        sig, err = header_signature(ctx, P, f)
        if sig is None:
            ctx.ob("d.header", "signature|%s" % f.name, False, err, f.loc(0))
            continue
        sigs.append((f, sig))
        want = {"flags_ctor": "from_bits_retain", "ident_ctor": "from_be_bytes"}
        def bytes_of(src, a, b):
            """the two source octets: `pdu[a..b+1]` converted to an array, or the array `[pdu[a], pdu[b]]` (slice pattern / indexing)"""
            return ("Range(%d, %d)" % (a, b + 1)) in src or re.search(r"array\(pdu\[%d\], pdu\[%d\]\)" % (a, b), src) is not None
        ctx.ob("d.header", "flags|%s" % f.name, sig["flags_ctor"] == "from_bits_retain" and "from_le_bytes" in sig["flags_src"] and bytes_of(sig["flags_src"], 0, 1),
               "diagnostic flags must be every bit of the first two octets (from_bits_retain(u16::from_le_bytes(pdu[0..2]))), found %s(%s)" % (sig["flags_ctor"], sig["flags_src"]), f.loc(0))
        ctx.ob("d.header", "ident|%s" % f.name, sig["ident_ctor"] == "from_be_bytes" and bytes_of(sig["ident_src"], 4, 5),
               "ident number must be u16::from_be_bytes(pdu[4..6]), found %s(%s)" % (sig["ident_ctor"], sig["ident_src"]), f.loc(0))
        want_master = sorted(map(str, {(("None",), ("pdu[3]", (True,))), (("Some",), ("pdu[3]", (False,)))}))
        ctx.ob("d.header", "master|%s" % f.name, sig["master"] == want_master,
               "master address must be None iff pdu[3] == 255 else Some(pdu[3]); found path classes %s" % sig["master"], f.loc(0))
        for what, ok in sig["guards"]:
            ctx.ob("d.header", "guard|%s|%s" % (what, f.name), ok, "diagnostics header decoded without the guard %s" % what, f.loc(0))
        ctx.sample({"fn": f.name, "signature": {k: str(v) for k, v in sig.items()}})
    if len(sigs) == 2:
        a, b = sigs[0][1], sigs[1][1]
        ctx.ob("d.header", "siblings-agree", a == b, "the two diagnostics header decoders disagree: %s vs %s" % (a, b))
    # extended data = pdu[6..]
    f = fns[0] if fns else None
    if f is not None:
        tb = TermBuilder(f, P)
        for b, c in call_sites(f, lambda c: callee_is(c, "dp::diagnostics::ExtendedDiagnostics::fill")):
            src = show(tb.joperand(c["args"][1]))
            ctx.ob("d.header", "ext-offset", "RangeFrom(6)" in src and ".pdu" in src, "extended diagnostics must be pdu[6..], found " + src, f.loc(b))


if __name__ == "__main__":
    rule.run(PID, check, level="proof",
             explanation="All bounds/slice/overflow obligations of the block iterator (and of raw_diag_buffer / fill under the proven field "
                         "invariant length <= len(buffer)) are discharged by the interval+zone domain; progress >= 1 per yielded block; decode "
                         "tables and the two header decoders compared with the DP-V0 layout and with each other.",
             trusted_base=["rustc MIR (nightly) as extracted by engines/mirfacts", "analysis/numdom.py transfer functions", "rules/spec_tables.json",
                           "ManagedSlice Deref/DerefMut return the same length for the same un-replaced buffer"],
             thorough_configs=("no_default", "alloc"))
