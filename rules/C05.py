"""C05 - poll() is total: no panic, no hang, whatever arrives on the bus.

R-PANIC + R-LOOP over everything reachable from FdlActiveStation::poll / poll_multi in the call graph (dyn application
impls DpMaster / LiveList / DpScanner / (), closures, Debug/Display impls reachable from log arguments; the log-level test is
a non-deterministic branch, so "logging enabled at every level" is covered).  PHY back ends (src/phy/* except mod.rs) are the
environment and are not analysed.

Every panic source (analysis/panics.py) must be discharged by one of
  T  typestate     the site's block is unreachable in every context of the interprocedural variant analysis whose entry
                   states are the proved global invariant of FdlActiveStation (rules/fdlstate.py),
  N  numeric       the interval+zone domain proves the Assert / slice / conversion obligation, with entry hypotheses that are
                   (i) intervals of integer arguments joined over all call sites in the reachable set (top-down), and
                   (ii) type invariants of configuration structs (named hypotheses H-*, each with a support check),
  G  guard         an Option/Result is known to be Some/Ok on every path (must-facts),
  D  delegated     the function's totality is a clause of another rule that is re-run here (C10.a decoders, C17.a/b block
                   iterator, C12.a next_gap_poll),
  H  hypothesis    a named assumption about the environment / API use (table HYPOTHESES; listed in the evidence).
Anything else is a violation.  R-LOOP: every loop must be an iterator loop over a finite collection, or carry a registered
progress argument that is checked.
"""
import os
import json
import re

from analysis import rule
from analysis.inline import expand as inline_expand
from analysis.callgraph import CallGraph
from analysis.guards import GuardAnalysis
from analysis.modset import ModSets
from analysis.numdom import NumAnalysis, INF, int_range, is_slice_ref
from analysis.panics import sites as panic_sites
from analysis.query import call_sites
from analysis.terms import TermBuilder, show, strip_refs, strip_casts, path_str
from rules import fdlstate

PID = "C05"
CR = "profirust"
ROOTS = ("fdl::active::FdlActiveStation::poll", "fdl::active::FdlActiveStation::poll_multi")


def excluded(f):
    return f.file.startswith("src/phy/") and f.file != "src/phy/mod.rs"


# ------------------------------------------------------------------------------------------------------------------
# named hypotheses (assumptions about the environment / documented API use); every use is reported in the evidence
HYPOTHESES = {
    "H-PARAM": "station parameters come from fdl::ParametersBuilder (address <= 125, address < HSA <= 126, 1 <= gap_wait_rotations <= 100, "
               "1 <= max_retry_limit <= 15, min_tsdr >= 11, 256 <= TTR <= 16_777_960) and are never written after FdlActiveStation::new "
               "(support: writers of FdlActiveStation.p, asserts of the builder setters)",
    "H-TIME": "timestamps handed to poll() and durations derived from them stay far from the i64/u64 microsecond range (|t| < 2^61 us ~ 73,000 years)",
    "H-TXBUF": "every ProfibusPhy hands a transmit buffer of at least 256 bytes to transmit_data (the in-tree constructors allocate 512 bytes for the serial / Linux PHYs and 256 in the simulator; the RP2040 PHY uses the buffer its user provides)",
    "H-PDU": "PDUs requested by applications respect the DP limits (Set_Prm user parameters <= 237 bytes, Chk_Cfg / process images <= 244 bytes)",
    "I-TXRESP": "internal invariant: TelegramTxResponse.bytes_sent <= 255 (support: every TelegramTxResponse::new call in the reachable set passes a "
                "value the numeric analysis bounds by 255 - the return value of a serialize function)",
    "I-ADDR125": "internal invariant: every station address held in the token ring (this/next/previous station, bits of the LAS) and every address the "
                 "station waits for is <= 125 (support: writers of TokenRing.{this,next,previous}_station; C12 clauses a/a' for GAP addresses; the "
                 "guards of witness_token_pass are proved numerically here)",
    "I-PROBE": "internal invariant: LiveList / DpScanner are told about the address they probed, which is their sweep cursor <= 125 (C18 clause a.range, re-run here; "
               "routing of the awaited address: C04/C15)",
    "X-BITVEC": "bitvec contract: iter_ones() of a 128-bit array yields indices < 128",
    "I-PSET": "internal invariant: an occupied slot of PeripheralSet has an index <= 255, because PeripheralSet::add - the only writer of PeripheralStorage.inner - "
              "converts the slot index with u8::try_from(..).unwrap() when it fills a slot (support: writers of `inner`, try_from on every filling path)",
    "I-INFLIGHT": "internal invariant: between a request transmitted by DpMaster and its reply/time-out, cycle_state stays DataExchange(i) and slot i keeps the addressed "
                  "peripheral (support: writers of cycle_state are the master's own callbacks; PeripheralStorage.inner is never cleared - there is no remove API; "
                  "requests are only sent from the DataExchange arm)",
    "I-FCB": "internal invariant: Peripheral.fcb is never FrameCountBit::Inactive (support: all writers of Peripheral.fcb are reset()/cycle()/the constructor with First)",
    "I-COLLISION": "internal invariant: the own-address collision counters are 0 or 1 between polls: every increment that yields a value other than 1 replaces the "
                   "whole state (support: counter rule check_counters)",
    "H-APPS": "the application list passed to poll_multi() is not changed while the station is online (documented on poll_multi: `may lead to ... panics`)",
}

# type invariants used as entry hypotheses of the numeric analysis:
#   (type regex, base path, [(kind, field path, lo, hi)], [(path a, path b, c)  meaning a-b<=c], hypothesis)
PARAM_FIELDS = [("v", ("address",), 0, 125), ("v", ("highest_station_address",), 1, 126), ("v", ("gap_wait_rotations",), 1, 100),
                ("v", ("max_retry_limit",), 1, 15), ("v", ("min_tsdr_bits",), 11, 255), ("v", ("token_rotation_bits",), 256, 16777960)]
PARAM_RELS = [(("address",), ("highest_station_address",), -1)]
PERIPH_FIELDS = [("len", ("options", "user_parameters", "<Some>", "0"), 0, 237), ("len", ("options", "config", "<Some>", "0"), 0, 244),
                 ("mlen", ("pi_q",), 0, 244), ("mlen", ("pi_i",), 0, 244)]
TYPE_INVARIANTS = [
    (re.compile(r"^&(mut )?('\w+ )?fdl::parameters::Parameters$"), ("deref",), PARAM_FIELDS, PARAM_RELS, "H-PARAM"),
    (re.compile(r"^fdl::parameters::Parameters$"), (), PARAM_FIELDS, PARAM_RELS, "H-PARAM"),
    (re.compile(r"^&(mut )?('\w+ )?fdl::active::FdlActiveStation$"), ("deref", "p"), PARAM_FIELDS, PARAM_RELS, "H-PARAM"),
    (re.compile(r"^fdl::telegram::TelegramTx<'\w+>$"), (), [("len", ("buf",), 256, 2 ** 63 - 1)], [], "H-TXBUF"),
    (re.compile(r"^&(mut )?('\w+ )?dp::peripheral::Peripheral<'\w+>$"), ("deref",), PERIPH_FIELDS, [], "H-PDU"),
    (re.compile(r"^&(mut )?('\w+ )?fdl::token_ring::TokenRing$"), ("deref",),
     [("v", ("this_station",), 0, 125), ("v", ("next_station",), 0, 125), ("v", ("previous_station",), 0, 125)], [], "I-ADDR125"),
    (re.compile(r"^&(mut )?('\w+ )?fdl::active::FdlActiveStation$"), ("deref", "token_ring"),
     [("v", ("this_station",), 0, 125), ("v", ("next_station",), 0, 125), ("v", ("previous_station",), 0, 125)], [], "I-ADDR125"),
    (re.compile(r"^fdl::telegram::TelegramTxResponse$"), (), [("v", ("bytes_sent",), 0, 255)], [], "I-TXRESP"),
    (re.compile(r"^std::option::Option<fdl::telegram::TelegramTxResponse>$"), ("<Some>", "0"), [("v", ("bytes_sent",), 0, 255)], [], "I-TXRESP"),
    (re.compile(r"^std::ops::ControlFlow<.*, fdl::telegram::TelegramTxResponse>$"), ("<Continue>", "0"), [("v", ("bytes_sent",), 0, 255)], [], "I-TXRESP"),
]

# argument hypotheses that do not come from call sites: (function name suffix, parameter index) -> (kind, lo, hi, hypothesis)
EXTRA_ARG_HYP = {
    ("fdl::token_ring::TokenRing::set_next_station", 2): ("int", 0, 125, "I-ADDR125"),
    ("fdl::token_ring::TokenRing::remove_station", 2): ("int", 0, 125, "I-ADDR125"),
    ("<fdl::live_list::LiveList as fdl::FdlApplication>::receive_reply", 4): ("int", 0, 125, "I-PROBE"),
    ("<fdl::live_list::LiveList as fdl::FdlApplication>::handle_timeout", 4): ("int", 0, 125, "I-PROBE"),
    ("<dp::scan::DpScanner as fdl::FdlApplication>::receive_reply", 4): ("int", 0, 125, "I-PROBE"),
    ("<dp::scan::DpScanner as fdl::FdlApplication>::handle_timeout", 4): ("int", 0, 125, "I-PROBE"),
    ("fdl::token_ring::TokenRing::iter_active_stations::{closure#0}", 2): ("int", 0, 127, "X-BITVEC"),
    ("fdl::live_list::LiveList::iter_stations::{closure#0}", 2): ("int", 0, 127, "X-BITVEC"),
    ("phy::ProfibusPhy::transmit_telegram::{closure#0}", 2): ("len", 256, 2 ** 63 - 1, "H-TXBUF"),
    ("dp::peripheral_set::PeripheralSet::<'a>::get_at_index_mut::{closure#0}::{closure#0}", None): ("upvar-int", 0, 255, "I-PSET"),
}

# higher-order contracts: callee suffix -> (index of the length argument, index of the closure argument, closure parameter holding the buffer)
# "the closure is called with a buffer of exactly <length argument> bytes" - support: check_hof_support()
HOF_BUFFER = {"fdl::telegram::TelegramTx::<'a>::send_data_telegram": (2, 3, 2)}


def proj_of(path):
    out = []
    for e in path:
        if e == "deref":
            out.append(("deref",))
        elif e.startswith("<") and e.endswith(">"):
            out.append(("dc", e[1:-1]))
        else:
            out.append(("f", e))
    return tuple(out)


class Numeric:
    """top-down interprocedural interval propagation over the reachable set + type-invariant hypotheses"""

    def __init__(self, P, cg, reach):
        self.P, self.cg, self.reach = P, cg, reach
        self.na = {}
        self.arg_hyp = {}  # fn name -> {param index: (kind, lo, hi)}
        self.closure_hyp = {}  # closure name -> dict(lo, hi, rels=[(closure var, dlo, dhi)]) for the buffer parameter
        self.used_hyps = {}  # fn name -> set of hypothesis names
        self.order = self._topo()
        self._sites = set()
        self._ret = {}
        self._ret_stack = set()
        self._ctx = {}

    # ---- integer return summaries (bottom-up, on demand, without hypotheses)
    def ret_of(self, callee):
        g = self.P.get(CR, callee)
        if g is None or int_range(g.locals[0]["ty"]) is None or excluded(g):
            return None
        if callee in self._ret:
            return self._ret[callee]
        if callee in self._ret_stack:
            return None
        self._ret_stack.add(callee)
        res = None
        try:
            # a function split into private single-call-site phases is summarised as one body (keeps the relation between phases)
            g = inline_expand(self.P, g)
            na = NumAnalysis(g, self.P, ret_summary=self.ret_of, partition_discr=True, max_disj=48)
            lo, hi = INF, -INF
            v0 = ("v", 0, ())
            for rb in g.return_blocks:
                for st in na.states_at_term(rb):
                    lo, hi = min(lo, st.z.lo(v0)), max(hi, st.z.hi(v0))
            if lo != INF:
                res = (lo, hi)
        except Exception:
            res = None
        self._ret_stack.discard(callee)
        self._ret[callee] = res
        return res

    def _callees(self, f):
        out = []
        for b, c in call_sites(f):
            cal = c.get("callee") or ""
            via = c.get("via")
            tg = []
            if via in ("dyn", "trait_unresolved"):
                tg = [n for n in self.cg.dyn_impls.get(c.get("decl") or cal, [])]
            elif self.P.get(CR, cal) is not None:
                tg = [cal]
            for n in tg:
                if n in self.reach:
                    out.append((b, c, n))
        return out

    def _topo(self):
        # callers before callees (reverse post-order of the call graph restricted to the reachable set)
        seen, order = set(), []
        import sys
        sys.setrecursionlimit(10000)

        def dfs(n):
            seen.add(n)
            for m in sorted(self.cg.edges.get(n, ())):
                if m in self.reach and m not in seen:
                    dfs(m)
            order.append(n)
        for r in sorted(self.reach):
            if r not in seen and r in ROOTS:
                dfs(r)
        for r in sorted(self.reach):
            if r not in seen:
                dfs(r)
        return list(reversed(order))

    def hook_for(self, f):
        hyp = self.arg_hyp.get(f.name, {})
        chyp = self.closure_hyp.get(f.name)
        used = self.used_hyps.setdefault(f.name, set())

        def hook(na, st):
            for l in range(1, f.argc + 1):
                ty = f.locals[l]["ty"]
                self.apply_type_inv(st, l, ty, used)
                h = hyp.get(l)
                for (suffix, pi), (k2, lo2, hi2, hn) in EXTRA_ARG_HYP.items():
                    if pi == l and f.name.endswith(suffix):
                        used.add(hn)
                        h = (k2, lo2, hi2) if h is None or h[0] != k2 else (k2, max(h[1], lo2), min(h[2], hi2))
                if h is not None:
                    kind, lo, hi = h
                    v = ("v", l, ()) if kind == "int" else ("len", l, ())
                    r = int_range(ty) if kind == "int" else (0, 2 ** 63 - 1)
                    if r:
                        st.z.set_interval(v, max(lo, r[0]), min(hi, r[1]))
            if chyp is not None:
                bl = ("len", chyp["param"], ())
                st.z.set_interval(bl, max(0, chyp["lo"]), min(2 ** 63 - 1, chyp["hi"]))
                for cv, dlo, dhi in chyp["rels"]:
                    # bl - cv in [dlo, dhi]
                    st.z.add(bl, cv, dhi)
                    st.z.add(cv, bl, -dlo)
        return hook

    def apply_type_inv(self, st, l, ty, used):
        for rx, base, fields, rels, hname in TYPE_INVARIANTS:
            if rx.match(ty):
                used.add(hname)
                for kind, path, lo, hi in fields:
                    pr = proj_of(base + path)
                    if kind == "len":
                        while pr and pr[-1] == ("deref",):
                            pr = pr[:-1]
                    st.z.set_interval((kind, l, pr), lo, hi)
                for pa, pb, c in rels:
                    st.z.add(("v", l, proj_of(base + pa)), ("v", l, proj_of(base + pb)), c)

    def run(self):
        pos = {n: i for i, n in enumerate(self.order)}
        # a call from a function that is analysed *after* its callee (recursion): the callee gets no argument hypotheses
        self.no_hyp = set()
        for n in self.order:
            f = self.P.get(CR, n)
            if f is None or f.kind == "promoted" or excluded(f):
                continue
            for b, c, callee in self._callees(f):
                if pos.get(callee, -1) <= pos[n]:
                    self.no_hyp.add(callee)
        for n in self.order:
            f = self.P.get(CR, n)
            if f is None or f.kind == "promoted" or excluded(f):
                continue
            if n in self.no_hyp:
                self.arg_hyp.pop(n, None)
            try:
                used = self.used_hyps.setdefault(f.name, set())
                na = NumAnalysis(f, self.P, entry_hook=self.hook_for(f), partition_discr=True, max_disj=48, ret_summary=self.ret_of,
                                 local_inv=lambda na_, st_, l_, ty_, used=used: self.apply_type_inv(st_, l_, ty_, used))
            except Exception as e:  # fail closed at the sites of this function
                self.na[n] = e
                continue
            self.na[n] = na
            for b, c, callee in self._callees(f):
                g = self.P.get(CR, callee)
                if g is None:
                    continue
                sts = na.states_at_term(b)
                if not sts:
                    continue  # unreachable call site
                self._closure_contract(f, na, b, c, callee, sts)
                if callee in self.no_hyp:
                    continue
                for i, a in enumerate(c["args"]):
                    pl = i + 1
                    if pl > g.argc:
                        break
                    ty = g.locals[pl]["ty"]
                    kind = "int" if int_range(ty) else ("len" if is_slice_ref(ty) else None)
                    if kind is None:
                        continue
                    lo, hi = INF, -INF
                    for st in sts:
                        try:
                            v = na.ev_operand(st, a) if kind == "int" else na.ev_len_of_ref(st, a)
                        except Exception:
                            v = None
                        if v is None:
                            lo, hi = -INF, INF
                            break
                        lo, hi = min(lo, v["lo"]), max(hi, v["hi"])
                    d = self.arg_hyp.setdefault(callee, {})
                    key = (callee, pl)
                    if key not in self._sites:
                        self._sites.add(key)
                        d[pl] = (kind, lo, hi)
                    else:
                        cur = d[pl]
                        d[pl] = (kind, min(cur[1], lo), max(cur[2], hi))

    def in_context(self, g, b):
        """numeric obligations of block b of g, decided in the context of g's only call site among the analysed functions: the caller
        is analysed with g's body folded in at that site (a helper whose precondition is established by its caller).
        -> True (all discharged / block unreachable there), False, or None (no unique call site)"""
        import copy
        from analysis.ir import Fn
        from analysis.normalize import inline_call
        sites = []
        for n in self.order:
            f = self.P.get(CR, n)
            if f is None or f.kind == "promoted" or excluded(f):
                continue
            for cb, c, callee in self._callees(f):
                if callee == g.name and c.get("via") == "direct":
                    sites.append((f, cb))
        if len(sites) != 1 or sites[0][0].name == g.name:
            return None
        f, cb = sites[0]
        key = (f.name, g.name)
        if key not in self._ctx:
            fj = copy.deepcopy(f.j)
            B0 = len(fj["blocks"])
            inline_call(fj, cb, g.j, g.name)
            fe = Fn(f.name, fj, f.crate)
            used = self.used_hyps.setdefault(f.name, set())
            try:
                na = NumAnalysis(fe, self.P, entry_hook=self.hook_for(fe), partition_discr=True, max_disj=48, ret_summary=self.ret_of,
                                 local_inv=lambda na_, st_, l_, ty_, used=used: self.apply_type_inv(st_, l_, ty_, used))
            except Exception:
                na = None
            self._ctx[key] = (na, B0)
        na, B0 = self._ctx[key]
        if na is None:
            return None
        if not na.entry.get(B0 + b):
            return True
        obs = [o for (bb, tag), o in na.obligations.items() if bb == B0 + b]
        return bool(obs) and all(o["ok"] for o in obs)

    def _closure_contract(self, f, na, b, c, callee, sts):
        spec = None
        for suffix, sp in HOF_BUFFER.items():
            if callee == suffix or callee.endswith(suffix):
                spec = sp
        if spec is None:
            return
        li, ci, bparam = spec
        cop = c["args"][ci]
        cpj = cop.get("mv") or cop.get("cp")
        cl_name, fields = None, None
        for blk in f.blocks:
            for s in blk.stmts:
                if "a" in s and cpj is not None and s["a"]["l"] == cpj["l"] and not s["a"].get("p") and s["rv"].get("agg") == "closure":
                    cl_name, fields = s["rv"]["closure"], s["rv"]["fields"]
        if cl_name is None:
            return
        # captured places: upvar i -> (place in the parent, by_ref)
        caps = {}
        for i, fo in enumerate(fields):
            pj = fo.get("mv") or fo.get("cp")
            if pj is None or pj.get("p"):
                continue
            from analysis.ir import mk_place
            root = na.ref_root(mk_place(pj))
            if root is not None:
                caps[i] = (root, True)
        lo, hi = INF, -INF
        rels = None
        for st in sts:
            v = na.ev_operand(st, c["args"][li])
            lo, hi = min(lo, v["lo"]), max(hi, v["hi"])
            cur = {}
            rel_all = []
            for var in list(st.z.vars()):
                if not (isinstance(var, tuple) and len(var) == 3 and var[0] in ("len", "mlen", "v")):
                    continue
                if not any(var[1] == root[0] for root, _ in caps.values()):
                    continue
                other = dict(lo=st.z.lo(var), hi=st.z.hi(var), rel=[(var, 0, 0)])
                dlo, dhi = na.diff_bounds(st, v, other)
                if dlo == -INF or dhi == INF or dhi - dlo > 8:
                    continue  # keep genuine relations only (not consequences of the two intervals)
                rel_all.append((var, dlo, dhi))
            for (var, dlo, dhi) in rel_all:
                for i, (root, by_ref) in caps.items():
                    rl, rp = root
                    vp = var[2]
                    if var[1] != rl:
                        continue
                    cands = []
                    if vp[:len(rp)] == rp:
                        cands.append((("f", str(i)), ("deref",)) + vp[len(rp):])
                    if var[0] == "len" and rp[:len(vp)] == vp and all(e == ("deref",) for e in rp[len(vp):]):
                        cands.append((("f", str(i)),))
                    for cp in cands:
                        pr = cp
                        if var[0] == "len":
                            while pr and pr[-1] == ("deref",):
                                pr = pr[:-1]
                        cur[(var[0], 1, pr)] = (dlo, dhi)
            if rels is None:
                rels = cur
            else:
                rels = {k: (min(rels[k][0], cur[k][0]), max(rels[k][1], cur[k][1])) for k in rels if k in cur}
        prev = self.closure_hyp.get(cl_name)
        h = dict(param=bparam, lo=lo, hi=hi, rels=[(k, v[0], v[1]) for k, v in (rels or {}).items()])
        if prev is not None:
            pr = {k: (a, b_) for k, a, b_ in prev["rels"]}
            h = dict(param=bparam, lo=min(lo, prev["lo"]), hi=max(hi, prev["hi"]),
                     rels=[(k, min(a, pr[k][0]), max(b_, pr[k][1])) for k, a, b_ in h["rels"] if k in pr])
        self.closure_hyp[cl_name] = h


# ------------------------------------------------------------------------------------------------------------------
def delegate(ctx, name, runner, module_pid):
    """re-run a clause of another rule in a sub-context; returns True when all of its obligations hold"""
    sub = rule.Ctx(module_pid, ctx.tier, ctx.config, ctx.prog)
    runner(sub)
    ok = True
    for o in sub.obligations:
        k = o["key"].split("|", 2)[2]
        ctx.ob("D." + name, k, o["ok"], o["detail"], o["loc"])
        ok = ok and o["ok"]
    for a in sub.anchors:
        ctx.anchor("[%s] %s" % (name, a["name"]), a["found"], a["floor"])
    ctx.analysed_fns |= sub.analysed_fns
    for a in sub.assumptions:
        ctx.assume("[%s] %s" % (name, a))
    return ok


def check(ctx):
    P = ctx.prog
    cg = CallGraph(P, CR)
    roots = [f.name for f in P.crate_fns(CR) if f.name in ROOTS]
    ctx.anchor("poll entry points", len(roots), 2)
    seen, st = set(), list(roots)
    skipped = set()
    while st:
        n = st.pop()
        f = P.get(CR, n)
        if n in seen or f is None:
            continue
        if excluded(f):
            skipped.add(n)
            continue
        seen.add(n)
        st.extend(cg.edges.get(n, ()))
    reach = seen
    fns = [P.get(CR, n) for n in sorted(reach)]
    fns = [f for f in fns if f.kind != "promoted"]
    ctx.analysed_fns |= {f.name for f in fns}
    ctx.anchor("functions reachable from poll()/poll_multi() (PHY back ends excluded)", len(fns), 120)
    ctx.assume("PHY back ends (%d functions under src/phy/ other than mod.rs) are the environment: they deliver arbitrary bytes and times" % len(skipped))
    ctx.assume("functions of core/alloc and of the dependencies (bitvec, managed, log, bitflags) outside analysis/panics.py:MAY_PANIC_EXTERN do not panic")

    # ---- D: delegated clauses
    from rules import C10, C12, C17
    delegated = {}
    ok10 = delegate(ctx, "C10.a", lambda s: C10.check_totality(s, P), "C10")
    for n in C10.DECODERS:
        f = P.fn(CR, n)
        delegated[f.name] = ("C10.a", ok10)
    ok17 = delegate(ctx, "C17.a", lambda s: (C17.check_invariant(s, P), C17.check_iter(s, P)), "C17")
    for f in fns:
        if f.module == "dp::diagnostics" and ("ExtDiagBlockIter" in f.name and f.name.endswith("::next") or f.name.endswith("::raw_diag_buffer")):
            delegated[f.name] = ("C17.a", ok17)
    ok12 = delegate(ctx, "C12.a", lambda s: C12.check_next_gap_poll(s, P), "C12")
    for f in fns:
        if f.name.endswith("FdlActiveStation::next_gap_poll"):
            delegated[f.name] = ("C12.a", ok12)
    # the authors' GAP assertions (poll address != own address, poll address == DoPoll payload) are clauses of C12
    ok12p = ok12 and delegate(ctx, "C12.prov", lambda s: C12.check_provenance(s, P), "C12")
    # serialize's closing `debug_assert_eq!(cursor, telegram_len(..))` is the agreement of the writer layout with the length table (C09.b/d)
    from rules import C09
    ok09 = delegate(ctx, "C09.b", lambda s: (C09.check_frames(s, P), C09.check_counts(s, P)), "C09")
    site_delegated = {
        ("fdl::active::FdlActiveStation::transmit_gap_poll_if_pending", "debug_assert_ne"): ("C12.prov", ok12p),
        ("fdl::active::FdlActiveStation::await_gap_poll_response", "debug_assert_ne"): ("C12.prov", ok12p),
        ("fdl::active::FdlActiveStation::await_gap_poll_response", "debug_assert"): ("C12.prov", ok12p),
        ("fdl::telegram::DataTelegramHeader::serialize", "debug_assert_eq"): ("C09.b", ok09),
    }

    # ---- T: typestate contexts (only those reachable from poll_inner started in a state of the invariant)
    ip, inv, muts = fdlstate.station_analysis(P)
    pollf = [m for m in muts if m.name.endswith("::poll_inner")]
    ctx.anchor("poll_inner", len(pollf), 1)
    rootcx = [ip.analyze(pollf[0], [e]) for e in inv] if pollf else []
    cxs, stack = [], [c for c in rootcx if c is not None]
    seen_cx = set()
    while stack:
        cx = stack.pop()
        if id(cx) in seen_cx:
            continue
        seen_cx.add(id(cx))
        cxs.append(cx)
        for _, sub in cx.sub:
            stack.append(sub)
    visited, flagged = {}, {}
    for cx in cxs:
        v = visited.setdefault(cx.fn.name, set())
        for b, S in cx.ga.entry.items():
            if S:
                v.add(b)
        for p in cx.panics:
            if p["fn"].name == cx.fn.name:
                flagged.setdefault((cx.fn.name, p["b"]), p)
    ctx.anchor("interprocedural contexts reachable from poll_inner", len(cxs), 100)
    ctx.anchor("atoms of the FdlActiveStation invariant", len(inv), 10)
    # functions never entered by the typestate analysis although every caller is covered by it: unreachable
    direct = {}
    for f in fns:
        d = set()
        for b, c in call_sites(f):
            if c.get("via") in ("direct", "trait_impl", "trait_default") and P.get(CR, c.get("callee") or "") is not None:
                d.add(c["callee"])
        direct[f.name] = d
    preds = {}
    for f in fns:
        for m in cg.edges.get(f.name, ()):
            preds.setdefault(m, set()).add(f.name)
    tun = {f.name for f in fns if f.name not in visited and f.name not in ROOTS}
    changed = True
    while changed:
        changed = False
        for n in sorted(tun):
            ok = bool(preds.get(n))
            for p_ in preds.get(n, ()):
                if p_ not in reach:
                    continue
                if not (p_ in visited or p_ in tun) or n not in direct.get(p_, ()):
                    if not (p_ in tun):
                        ok = False
            if not ok:
                tun.discard(n)
                changed = True
    ctx.notes.append("functions unreachable in the typestate analysis (all callers covered, never entered): %d, e.g. %s" % (len(tun), sorted(tun)[:5]))

    # ---- A: application-side typestate under the FDL delivery contract
    avisited, aflagged = app_typestate(ctx, P, cg)

    # ---- N: numeric
    num = Numeric(P, cg, reach)
    num.run()

    ms = ModSets(P)
    counts = {}
    used_h = set()
    nsites = 0
    for f in fns:
        ss = panic_sites(f, P, CR)
        if not ss:
            continue
        na = num.na.get(f.name)
        byb = {}
        if isinstance(na, NumAnalysis):
            for (bb, tag), o in na.obligations.items():
                byb.setdefault(bb, []).append(o)
        ga = None
        tb = None
        ordinal = {}
        for s in ss:
            nsites += 1
            b = s["b"]
            loc = f.loc(b)
            mac = ",".join(m for m in s["mac"] if not m.startswith(("$", "desugar")))
            what = s["what"].split("::")[-1]
            base = "%s|%s|%s" % (f.name, s["kind"], mac or what)
            ordinal[base] = ordinal.get(base, 0) + 1
            key = "%s#%d" % (base, ordinal[base])
            how, detail = None, ""
            if s["kind"] == "ubcheck":
                how = "U"
            elif f.name in delegated:
                # decided by the delegated clause; when that clause fails its own obligations (D.*) carry the report
                how = "D"
            elif (f.name in visited and b not in visited[f.name]) or f.name in tun:
                how = "T"
            elif f.name in avisited and f.name not in visited and (b not in avisited[f.name] or
                                                                      (s["kind"] in ("panic-call", "extern-unwrap") and (f.name, b) not in aflagged and s["kind"] == "extern-unwrap")):
                how = "A"
            if how is None and isinstance(na, NumAnalysis):
                obs = byb.get(b)
                if s["kind"] in ("assert", "extern-index") or (s["kind"] == "extern-unwrap" and obs):
                    if obs and all(o["ok"] for o in obs):
                        how = "N"
                    elif obs and num.in_context(f, b) is True:
                        how = "N"  # decided in the context of the function's only call site
                    elif obs:
                        detail = "; ".join(str(o["detail"])[:160] for o in obs if not o["ok"])
                    elif b not in na.entry or not na.entry.get(b):
                        how = "N"  # numerically unreachable block
                elif s["kind"] == "panic-call" and (b not in na.entry or not na.entry.get(b)):
                    how = "N"
            if how is None and s["kind"] == "extern-unwrap":
                if f.name in visited and (f.name, b) not in flagged:
                    how = "T"
                else:
                    if ga is None:
                        ga = GuardAnalysis(f, P, mem_kill=True, modsets=ms)
                    must = ga.must(b)
                    arg = strip_refs(ga.tb.joperand(f.blocks[b].term["call"]["args"][0]))
                    if must is None:
                        how = "G"
                    else:
                        vs = must.get(("discr", arg))
                        if vs is not None and vs[0] == "in" and vs[1] <= frozenset(["Some", "Ok"]):
                            how = "G"
                        else:
                            detail = "unwrap of %s which may be None/Err" % show(arg)[:100]
            if how is None and (f.name, mac) in site_delegated:
                nm, okd = site_delegated[(f.name, mac)]
                if okd:
                    how = "D"
                else:
                    detail = "delegated clause %s failed" % nm
            if how is None:
                h = residual(f, s, detail, P)
                if h is not None:
                    how = "H:" + h
                    used_h.add(h)
            counts[how] = counts.get(how, 0) + 1
            if os.environ.get("C05_DUMP"):
                print("SITE %-4s %-14s %-28s %s %s" % (how, s["kind"], loc, mac or what, f.name))
            ctx.ob("a.panic", key, how is not None,
                   "%s `%s` is not discharged: %s" % (s["kind"], mac or what, detail or "reachable in the typestate analysis and no numeric / guard argument applies"), loc)
            if how and how[0] in "TNG" and len(ctx.samples) < 10:
                ctx.sample("%s: %s `%s` discharged by %s" % (loc, s["kind"], mac or what, {"T": "typestate (unreachable in every context)", "N": "interval/zone proof", "G": "must-guard"}[how[0]]))
    ctx.anchor("panic sources inventoried", nsites, 100)
    check_loops(ctx, P, fns, ok17)
    check_support(ctx, P, cg, num, used_h | {x for v in num.used_hyps.values() for x in v})
    for h in sorted(used_h | {x for v in num.used_hyps.values() for x in v}):
        ctx.assume("%s: %s" % (h, HYPOTHESES[h]))
    ctx.notes.append("discharge methods: " + ", ".join("%s=%d" % (k, v) for k, v in sorted(counts.items(), key=lambda kv: str(kv[0]))))


def app_typestate(ctx, P, cg):
    """Interprocedural variant analysis of the application callbacks, entered with what the FDL layer guarantees about a delivered
    reply (clause c.fdl-admission of C04, re-run here): it is a short confirmation or a data telegram whose function code is a
    response.  transmit_telegram / handle_timeout are entered without assumptions."""
    from analysis.interproc import Interproc
    from analysis.guards import Facts
    from rules import C04
    okc = delegate(ctx, "C04.c", lambda s: C04.check_fdl_admission(s, P), "C04")
    ipa = Interproc(P, CR, max_disj=64)
    tel = ("arg", "telegram")
    fc = ("field", ("field", ("field", ("dc", tel, "Data"), "0"), "h"), "fc")
    reply_entries = [Facts({("discr", tel): ("in", frozenset(["ShortConfirmation"]))}),
                     Facts({("discr", tel): ("in", frozenset(["Data"])), ("discr", fc): ("in", frozenset(["Response"]))})]
    n = 0
    for meth in ("receive_reply", "transmit_telegram", "handle_timeout"):
        for name in cg.dyn_impls.get("fdl::FdlApplication::" + meth, []):
            f = P.get(CR, name)
            if f is None:
                continue
            n += 1
            if meth == "receive_reply" and okc:
                for e in reply_entries:
                    ipa.analyze(f, [e])
            else:
                ipa.analyze(f, [Facts()])
    ctx.anchor("application callback implementations analysed", n, 6)
    visited, flagged = {}, {}
    for cx in ipa.contexts:
        v = visited.setdefault(cx.fn.name, set())
        for b, S in cx.ga.entry.items():
            if S:
                v.add(b)
        for p in cx.panics:
            if p["fn"].name == cx.fn.name:
                flagged.setdefault((cx.fn.name, p["b"]), p)
    return visited, flagged


FINITE_ITERATORS = re.compile(r"^&mut (std::ops::Range(Inclusive)?<\w+>|std::slice::Iter(Mut)?<'\w+, .*>|bitvec::slice::Iter\w*<.*>|"
                              r"std::iter::(Enumerate|Skip|Take|Rev|Copied|Cloned)<(std::slice::Iter(Mut)?<.*>|std::ops::Range<\w+>)>)$")


_FIN_BASE = re.compile(r"^(std::ops::Range(Inclusive)?<\w+>|std::slice::(Iter|IterMut|Chunks\w*|Windows)<'\w+, .*>|bitvec::slice::Iter\w*<.*>|"
                       r"std::option::(Iter|IterMut|IntoIter)<.*>|std::array::IntoIter<.*>|std::vec::IntoIter<.*>|std::str::(Chars|Bytes|CharIndices)<.*>)$")
_FIN_ADAPT1 = ("Enumerate", "Skip", "Take", "Rev", "Copied", "Cloned", "Peekable", "Fuse", "StepBy")
_FIN_ADAPT_F = ("Filter", "Map", "FilterMap", "TakeWhile", "SkipWhile", "Inspect", "MapWhile")


def _generic_args(ty):
    """top-level generic arguments of `path<...>`"""
    i = ty.find("<")
    if i < 0 or not ty.endswith(">"):
        return ty, []
    head, body = ty[:i], ty[i + 1:-1]
    out, depth, cur = [], 0, ""
    for ch in body:
        if ch in "<([{":
            depth += 1
        elif ch in ">)]}":
            depth -= 1
        if ch == "," and depth == 0:
            out.append(cur.strip())
            cur = ""
        else:
            cur += ch
    if cur.strip():
        out.append(cur.strip())
    return head, out


def finite_iterator(ty):
    """the iterator type is a finite source under adapters that cannot make it infinite (the adapters' closures are functions of the
    reachable set themselves and are checked as such)"""
    ty = re.sub(r"^&(mut )?", "", ty.strip())
    if _FIN_BASE.match(ty) or FINITE_ITERATORS.match("&mut " + ty):
        return True
    head, args = _generic_args(ty)
    short = head.split("::")[-1]
    if head.startswith("std::iter::") and args:
        if short in _FIN_ADAPT1 or short in _FIN_ADAPT_F:
            return finite_iterator(args[0])
        if short == "Zip" and len(args) == 2:
            return finite_iterator(args[0]) or finite_iterator(args[1])
        if short == "Chain" and len(args) == 2:
            return finite_iterator(args[0]) and finite_iterator(args[1])
    return False


def check_loops(ctx, P, fns, ok17):
    """b.loop: every loop reachable from poll() terminates: `for` over a finite iterator, or a registered progress argument that is checked."""
    n = 0
    for f in fns:
        be = f.back_edges()
        heads = sorted({h for (_, h) in be})
        for h in heads:
            n += 1
            key = "%s|loop#%d" % (f.name, heads.index(h))
            loc = f.loc(h)
            t = f.blocks[h].term
            it_ty = None
            if "call" in t and "desugar:ForLoop" in (t.get("mac") or []) and (t["call"].get("callee") or "").endswith("::next"):
                it_ty = t["call"]["argtys"][0]
            if it_ty is not None and finite_iterator(it_ty):
                ctx.ob("b.loop", key, True, "", loc)
                ctx.sample("%s: `for` over %s terminates (finite iterator)" % (loc, it_ty[5:]))
                continue
            if it_ty is not None and "ExtDiagBlockIter" in it_ty:
                ctx.ob("b.loop", key, ok17, "the block iterator's progress clause (C17.b, delegated) failed", loc)
                continue
            if f.name.endswith("DpMaster<'a> as fdl::FdlApplication>::transmit_telegram"):
                from rules import C14
                ok = delegate(ctx, "C14.a", lambda s: C14.check_progress(s, P), "C14")
                ctx.ob("b.loop", key, ok, "the slot loop's progress clause (C14.a, delegated) failed", loc)
                continue
            if f.name == "phy::ProfibusPhy::receive_all_telegrams":
                ok, why = receive_loop_progress(P, f, h)
                ctx.ob("b.loop", key, ok, "the receive loop can go around without consuming input: " + why, loc)
                if ok:
                    ctx.assume("ProfibusPhy::receive_data drops the number of bytes its closure returns from a finite receive buffer (trait documentation)")
                continue
            ctx.ob("b.loop", key, False, "loop without a registered termination argument (iterator type: %s)" % it_ty, loc)
    ctx.anchor("loops reachable from poll()", n, 3)
    # recursion is a loop, too: no cycle in the call graph of the reachable set (none is needed by the library)
    names = {f.name for f in fns}
    edges = {f.name: set() for f in fns}
    for f in fns:
        for b, c in call_sites(f):
            cal = c.get("callee") or ""
            if cal in names:
                edges[f.name].add(cal)
        for b_, i_, s_ in __import__("analysis.query", fromlist=["stmts"]).stmts(f):
            if "a" in s_ and s_["rv"].get("agg") == "closure" and s_["rv"]["closure"] in names:
                edges[f.name].add(s_["rv"]["closure"])
    color, cyc = {}, []

    def dfs(u, path):
        color[u] = 1
        for v in sorted(edges.get(u, ())):
            if color.get(v) == 1:
                cyc.append(path[path.index(v):] + [v] if v in path else [u, v])
            elif v not in color:
                dfs(v, path + [v])
        color[u] = 2
    import sys
    sys.setrecursionlimit(10000)
    for f in fns:
        if f.name not in color:
            dfs(f.name, [f.name])
    # self-recursion with a checked depth bound: at every recursive call site a dispatch discriminant has a known value, and entered with that
    # value none of the recursive call sites is reachable (so the depth is at most 1)
    proven = []
    for c_ in list(cyc):
        if len(set(c_)) != 1:
            continue
        fn_ = P.get(CR, c_[0])
        sites_ = [b for b, cc in call_sites(fn_) if (cc.get("callee") or "") == fn_.name]
        g0 = GuardAnalysis(fn_, P, mem_kill=True, modsets=ModSets(P))
        ok_all = bool(sites_)
        for b in sites_:
            m = g0.must(b)
            cands = [(k, vs) for k, vs in (m.items() if m else []) if k[0] == "discr" and vs[0] == "in" and len(vs[1]) == 1 and "self" in show(k[1])]
            ok_site = False
            for k, vs in cands:
                from analysis.guards import Facts
                g1 = GuardAnalysis(fn_, P, mem_kill=True, modsets=ModSets(P), entry_facts=[Facts({k: vs})])
                if all(not g1.at(b2) for b2 in sites_):
                    ok_site = True
                    ctx.sample("%s: self-recursion bounded: entered with %s = %s no recursive call site is reachable" % (fn_.loc(b), show(k), sorted(vs[1])))
                    break
            ok_all = ok_all and ok_site
        if ok_all:
            proven.append(c_)
    cyc = [c_ for c_ in cyc if c_ not in proven]
    ctx.ob("b.loop", "no-recursion", not cyc, "recursive call cycle reachable from poll() without a termination argument: %s" % [" -> ".join(x.split("::")[-2] + "::" + x.split("::")[-1] for x in c_) for c_ in cyc[:2]],
           P.get(CR, cyc[0][0]).loc(0) if cyc else "")


def receive_loop_progress(P, f, head):
    """receive_all_telegrams: the loop continues only when the closure reported `is_last == false`, which it does only together with
    consuming `length` bytes of an accepted telegram (length >= 1 by C10.a.length, and != buffer.len())."""
    # the closure handed to receive_data inside the loop
    c = None
    for b, cs in call_sites(f):
        if (cs.get("callee") or cs.get("decl") or "").endswith("ProfibusPhy::receive_data"):
            pj = cs["args"][-1].get("mv") or cs["args"][-1].get("cp")
            for blk in f.blocks:
                for s_ in blk.stmts:
                    if "a" in s_ and pj is not None and s_["a"]["l"] == pj["l"] and not s_["a"].get("p") and s_["rv"].get("agg") == "closure":
                        c = P.get(CR, s_["rv"]["closure"])
    if c is None:
        return False, "closure passed to receive_data not found"
    tb = TermBuilder(c, P)
    from analysis.query import return_terms
    rts = return_terms(c, tb)
    if not rts:
        return False, "closure return value not found"
    nlast = 0
    for b, i, t in rts:
        # (consumed, (is_last, result))
        if not (t[0] == "agg" and len(t[3]) == 2 and t[3][1][0] == "agg" and len(t[3][1][3]) == 2):
            return False, "unexpected shape of the closure result %s" % show(t)[:80]
        consumed, flag = t[3][0], t[3][1][3][0]
        if flag == ("const", True):
            continue
        sflag, scons = show(flag), show(consumed)
        # is_last := (length == buffer.len()) and the same `length` is consumed, where `length` is the byte count reported by
        # Telegram::deserialize for an accepted telegram (>= 1 by C10 a.length, which is re-run in this rule)
        if flag[0] == "bin" and flag[1] == "Eq" and scons in sflag and "len(" in sflag:
            if "deserialize(" in scons and ", Ok)" in scons and scons.rstrip(")").endswith(", 1"):
                nlast += 1
                continue
            return False, "%s bytes are consumed on the continuing path, which is not the length of an accepted telegram (may be 0)" % scons[:60]
        return False, "is_last is %s while %s bytes are consumed" % (sflag[:60], scons[:40])
    # the loop must leave when is_last is true: the back edge is only taken on the false branch of the flag
    tbf = TermBuilder(f, P)
    ok_exit = False
    for b, blk in enumerate(f.blocks):
        t = blk.term
        if "switch" in t and t.get("sty") == "bool":
            ot = tbf.joperand(t["switch"])
            s_ = show(ot)
            if ot[0] == "field" and str(ot[2]) == "0" and "receive_data" in s_ and t["targets"] and int(t["targets"][0][0]) == 0:
                # is_last == true leaves the loop; only is_last == false may come back to the head
                true_reach = reach_no_head(f, t["otherwise"], head)
                back_from_true = any(head in f.succ[x] for x in true_reach)
                ok_exit = any("ret" in f.blocks[x].term for x in true_reach) and not back_from_true
    if not ok_exit:
        return False, "no exit of the loop on is_last == true found"
    return nlast >= 1, "no consuming continuation found" if nlast < 1 else ""


def reach_no_head(f, start, head):
    seen, st = set(), [start]
    while st:
        x = st.pop()
        if x in seen or x == head:
            continue
        seen.add(x)
        st.extend(f.succ[x])
    return seen


def check_support(ctx, P, cg, num, used):
    """support checks tying the internal invariants (I-*) to the code: who-writes and shape rules"""
    from analysis.query import mut_uses_of_field, stmts
    from analysis.ir import mk_place

    def writers(field, ty=None, kinds=("assign", "calldest", "setdiscr")):
        return sorted({u["fn"].name for u in mut_uses_of_field(P, CR, field, ty) if u["kind"] in kinds and not u["fn"].j.get("derived")})

    if "H-PARAM" in used:
        w = [n for n in writers("p", "Parameters") if "FdlActiveStation" in n]
        ok = set(w) <= {"fdl::active::FdlActiveStation::new", "fdl::active::FdlActiveStation::set_state"}
        ctx.ob("s.support", "H-PARAM|writers-of-station-parameters", ok, "FdlActiveStation.p is written outside new()/set_state(): %s" % w)
        # the builder asserts the ranges used as hypotheses
        b = P.get(CR, "fdl::parameters::ParametersBuilder::highest_station_address")
        n_assert = 0
        for f in P.crate_fns(CR):
            if f.name.startswith("fdl::parameters::ParametersBuilder::"):
                n_assert += sum(1 for s in panic_sites(f, P, CR) if s["kind"] == "panic-call" and "assert" in s["mac"])
        ctx.anchor("assert!s in the ParametersBuilder setters (ranges of H-PARAM)", n_assert, 8)
        check_builder_ranges(ctx, P)
    if "H-APPS" in used:
        # the documentation allows changing the application list while the station is offline: going offline must forget the
        # application index (the whole station is re-created)
        f = P.get(CR, "fdl::active::FdlActiveStation::set_state")
        ok = False
        if f is not None:
            marks = {}
            for b, i, s in stmts(f):
                if "a" in s and mk_place(s["a"]) == (1, (("deref",),)):
                    marks[(b, i)] = "whole"
            for b, c in call_sites(f):
                if mk_place(c["dest"]) == (1, (("deref",),)):
                    marks[(b, None)] = "whole"
            g = GuardAnalysis(f, P, mem_kill=True, modsets=ModSets(P), marks=marks)
            ok = bool(marks)
            for rb in f.return_blocks:
                for fs in g.at(rb):
                    off = [vs for k, vs in fs.items() if k[0] == "discr" and show(k[1]) in ("state", "self.connectivity_state") and vs == ("in", frozenset(["Offline"]))]
                    if off and 0 in g.count_of(fs, "whole"):
                        zero = [1 for k, vs in fs.items() if show(k).endswith("next_application") and vs == ("in", frozenset([0]))]
                        if not zero:
                            ok = False
        ctx.ob("s.support", "H-APPS|offline-resets-application-index", ok,
               "set_state(Offline) can return without re-creating the station / resetting next_application: a shorter application list after going "
               "offline (allowed by the documentation) would be indexed out of bounds")
    if "I-ADDR125" in used:
        for fld in ("this_station", "next_station", "previous_station"):
            w = writers(fld, "u8")
            ok = set(w) <= {"fdl::token_ring::TokenRing::new", "fdl::token_ring::TokenRing::update_next_previous"}
            ctx.ob("s.support", "I-ADDR125|writers-of-%s" % fld, ok and (bool(w) or fld == "this_station"), "TokenRing.%s written in %s" % (fld, w))
    if "I-PSET" in used or "I-INFLIGHT" in used:
        w = writers("inner", "Peripheral")
        ok = set(w) <= {"dp::peripheral_set::PeripheralSet::<'a>::add"}
        ctx.ob("s.support", "I-PSET|writers-of-slot", ok and bool(w), "PeripheralStorage.inner is assigned in %s (only PeripheralSet::add may fill or clear a slot)" % w)
        add = P.get(CR, "dp::peripheral_set::PeripheralSet::<'a>::add")
        n = 0
        if add is not None:
            n = sum(1 for b, c in call_sites(add) if "try_from" in (c.get("callee") or "") or "try_into" in (c.get("callee") or ""))
        nfill = 1 + (1 if add is not None and any((c.get("callee") or "").endswith("Vec::<T, A>::push") for b, c in call_sites(add)) else 0)
        ctx.ob("s.support", "I-PSET|index-converted-when-filling", n >= nfill, "PeripheralSet::add converts the slot index with try_from/try_into on %d of its %d filling paths" % (n, nfill))
    if "I-INFLIGHT" in used:
        w = writers("cycle_state", "CycleState")
        allowed = {"dp::master::DpMaster::<'a>::new", "dp::master::DpMaster::<'a>::increment_cycle_state",
                   "<dp::master::DpMaster<'a> as fdl::FdlApplication>::transmit_telegram", "<dp::master::DpMaster<'a> as fdl::FdlApplication>::receive_reply"}
        from analysis.callgraph import reached_only_from
        allowed |= {w_ for w_ in w if reached_only_from(P, CR, cg, w_, allowed)}
        ctx.ob("s.support", "I-INFLIGHT|writers-of-cycle-state", set(w) <= allowed and bool(w), "DpMasterState.cycle_state written in %s" % w)
        # requests are sent only while cycle_state is DataExchange: the only transmitting path of the slot loop reads the index from that arm
        f = P.get(CR, "<dp::master::DpMaster<'a> as fdl::FdlApplication>::transmit_telegram")
        ok = False
        if f is not None:
            ga = GuardAnalysis(f, P, mem_kill=True, modsets=ModSets(P))
            ok = True
            seen_site = 0
            for b, c in call_sites(f):
                if (c.get("callee") or "").endswith("Peripheral::<'a>::transmit_telegram"):
                    seen_site += 1
                    m = ga.must(b)
                    key = [vs for k, vs in (m.items() if m else []) if k[0] == "discr" and show(k[1]).endswith("state.cycle_state")]
                    ok = ok and bool(key) and key[0] == ("in", frozenset(["DataExchange"]))
            ok = ok and seen_site >= 1
        ctx.ob("s.support", "I-INFLIGHT|requests-only-in-data-exchange", ok, "a peripheral request can be sent while cycle_state is not DataExchange")
    if "I-FCB" in used:
        bad = []
        nw = 0
        for u in mut_uses_of_field(P, CR, "fcb", "FrameCountBit"):
            f = u["fn"]
            if f.j.get("derived") or "Peripheral" not in f.name:
                continue
            nw += 1
            if u["kind"] == "assign":
                rv = u["rv"]
                vname = rv.get("variant") or ((rv.get("use") or {}).get("k") or {}).get("variant")
                if not (vname in ("First", "Low", "High")):
                    bad.append("%s assigns %s" % (f.loc(u["b"]), rv.get("variant") or "a computed value"))
            elif u["kind"] == "refmut":
                # the &mut borrow must flow into FrameCountBit::reset / cycle only
                from analysis.query import flows_to_calls
                cal = [c.get("callee") or "" for (_, c, _) in flows_to_calls(f, u["dest"][0])] if not u["dest"][1] else ["?"]
                if not cal or not all(x.endswith(("FrameCountBit::reset", "FrameCountBit::cycle")) for x in cal):
                    bad.append("%s lends &mut fcb to %s" % (f.loc(u["b"]), cal))
        for name, allowed in (("fdl::telegram::FrameCountBit::reset", {"First"}), ("fdl::telegram::FrameCountBit::cycle", {"Low", "High"})):
            g = P.get(CR, name)
            got = set()
            if g is not None:
                for b, i, st_ in stmts(g):
                    if "a" not in st_:
                        continue
                    rv_ = st_["rv"]
                    k_ = (rv_.get("use") or {}).get("k") or {}
                    if (rv_.get("adt") or "").endswith("FrameCountBit") and rv_.get("variant"):
                        got.add(rv_["variant"])
                    elif (k_.get("adt") or "").endswith("FrameCountBit") and k_.get("variant"):
                        got.add(k_["variant"])
            if not got or not got <= allowed:
                bad.append("%s stores %s" % (name, sorted(got)))
        ctx.ob("s.support", "I-FCB|writers", not bad and nw >= 2, "; ".join(bad) or "writers of Peripheral.fcb not found")
    if "I-COLLISION" in used:
        check_counters(ctx, P)
    if "I-TXRESP" in used:
        h = num.arg_hyp.get("fdl::telegram::TelegramTxResponse::new", {}).get(1)
        ctx.ob("s.support", "I-TXRESP|new-called-with-serialize-result", h is not None and h[2] <= 255,
               "TelegramTxResponse::new is called with bytes_sent in %s (must be <= 255)" % (h,))
    if "I-PROBE" in used:
        from rules import C18
        sub = rule.Ctx("C18", ctx.tier, ctx.config, ctx.prog)
        C18.check(sub)
        bad = [o for o in sub.obligations if o["clause"] == "a.range" and not o["ok"]]
        ctx.ob("s.support", "I-PROBE|C18.a.range", not bad, "; ".join(o["detail"] for o in bad[:2]))
    # the closure of send_data_telegram gets exactly pdu_len bytes
    check_hof_support(ctx, P)


def check_builder_ranges(ctx, P):
    """H-PARAM support: every ParametersBuilder setter leaves the field it writes inside the range the analyses assume (the setter's own
    assert! is what establishes it) - an interval proof per setter."""
    n = 0
    for f in P.crate_fns(CR):
        if not f.name.startswith("fdl::parameters::ParametersBuilder::") or f.kind != "assoc":
            continue
        written = set()
        for b, i, s in stmts_(f):
            if "a" in s:
                fl = [e.get("f") for e in s["a"].get("p", []) if isinstance(e, dict) and "f" in e]
                if len(fl) >= 2 and fl[0] == "0":
                    written.add(fl[1])
        for kind, path, lo, hi in PARAM_FIELDS:
            fld = path[0]
            if fld not in written:
                continue
            n += 1
            na = NumAnalysis(f, P)
            v = ("v", 1, (("deref",), ("f", "0"), ("f", fld)))
            bad = []
            for rb in f.return_blocks:
                for st in na.states_at_term(rb):
                    if not (st.z.lo(v) >= lo and st.z.hi(v) <= hi):
                        bad.append("[%s,%s]" % (st.z.lo(v), st.z.hi(v)))
            ctx.ob("s.support", "H-PARAM|builder-range|%s|%s" % (f.name.split("::")[-1], fld), not bad,
                   "ParametersBuilder::%s can leave %s in %s, outside the range %s..=%s that the station code relies on" % (
                       f.name.split("::")[-1], fld, sorted(set(bad))[:2], lo, hi), f.loc(0))
    ctx.anchor("range-establishing ParametersBuilder setters", n, 4)


def stmts_(f):
    from analysis.query import stmts
    return stmts(f)


def check_counters(ctx, P):
    """I-COLLISION: at every `*collision_count += 1`, each path to the function's exit either leaves the counter at 1 or replaces the
    state (set_offline / a transition), so the counter never exceeds 1 between polls; constructions start it at 0."""
    from analysis.query import stmts, constructions
    n = 0
    # every function (or closure) of the active station that increments a collision counter, wherever it lives
    for f in sorted([f for f in P.crate_fns(CR) if f.module == "fdl::active" and f.kind in ("assoc", "fn", "closure")], key=lambda f: f.name):
        name = f.name
        if 'collision_count' not in json.dumps(f.j.get("blocks")):
            continue
        tb = TermBuilder(f, P)
        marks = {}
        for b, i, s in stmts(f):
            if "a" in s and s["a"].get("p") == ["deref"] and "use" in s["rv"]:
                src = show(tb.rvalue(s["rv"]))
                if "collision_count" in src and ("Add" in src) and "1" in src:
                    marks[(b, i)] = "inc"
        for b, c in call_sites(f):
            cal = c.get("callee") or ""
            if cal.endswith(("::set_offline", "::set_state")) or "::transition_" in cal:
                marks[(b, None)] = "replace"
        ninc = sum(1 for v in marks.values() if v == "inc")
        n += ninc
        if not ninc:
            continue
        ga = GuardAnalysis(f, P, marks=marks, max_disj=64)
        bad = []
        for rb in f.return_blocks:
            for fs in ga.at(rb):
                if ga.count_of(fs, "inc") == {0}:
                    continue
                if 0 not in ga.count_of(fs, "replace") and ga.count_of(fs, "replace"):
                    continue
                one = [vs for k, vs in fs.items() if "collision_count" in show(k) and vs == ("in", frozenset([1]))]
                if not one:
                    bad.append(f.loc(rb))
        ctx.ob("s.support", "I-COLLISION|bounded|" + name, not bad,
               "after incrementing the collision counter a path returns without the counter being 1 and without replacing the state: %s" % sorted(set(bad))[:3])
    ctx.anchor("collision counter increments", n, 2)
    for var in ("ListenToken", "ActiveIdle"):
        cons = [c for c in constructions(P, CR, "fdl::active::State", var)]
        bad = []
        for c in cons:
            rv = c["rv"]
            if "collision_count" in (rv.get("fnames") or []):
                fo = rv["fields"][rv["fnames"].index("collision_count")]
                if (fo.get("k") or {}).get("int") != 0:
                    bad.append(c["fn"].loc(c["b"], c["i"]))
        ctx.ob("s.support", "I-COLLISION|init|" + var, bool(cons) and not bad, "State::%s constructed with a non-zero collision counter at %s" % (var, bad))


def check_hof_support(ctx, P):
    """send_data_telegram forwards (pdu_len, closure) unchanged to serialize, which calls the closure once with a slice of pdu_len bytes"""
    sd = P.get(CR, "fdl::telegram::TelegramTx::<'a>::send_data_telegram")
    ser = P.get(CR, "fdl::telegram::DataTelegramHeader::serialize")
    if sd is None or ser is None:
        ctx.ob("s.support", "HOF|anchors", False, "send_data_telegram / serialize not found")
        return
    tb = TermBuilder(sd, P)
    ok = False
    for b, c in call_sites(sd):
        if (c.get("callee") or "").endswith("DataTelegramHeader::serialize"):
            a2, a3 = tb.joperand(c["args"][2]), tb.joperand(c["args"][3])
            ok = a2 == ("arg", "pdu_len") and a3 == ("arg", "write_pdu")
    ctx.ob("s.support", "HOF|forwarded", ok, "send_data_telegram does not pass its pdu_len / closure arguments unchanged to serialize")
    ser = inline_expand(P, ser)
    na = NumAnalysis(ser, P, partition_discr=True, max_disj=64)
    n, good = 0, True
    for b, c in call_sites(ser):
        if "FnOnce" in (c.get("callee") or c.get("decl") or "") or "call_once" in (c.get("callee") or c.get("decl") or ""):
            n += 1
            for st in na.states_at_term(b):
                tup = c["args"][1]
                pj = tup.get("mv") or tup.get("cp")
                from analysis.ir import mk_place
                ln = ("len", pj["l"], (("f", "0"),))
                d_hi = st.z.get(ln, ("v", 3, ()))
                d_lo = -st.z.get(("v", 3, ()), ln)
                if not (d_hi == 0 and d_lo == 0):
                    good = False
    ctx.ob("s.support", "HOF|closure-buffer-is-pdu_len", n == 1 and good, "serialize must call the PDU writer exactly once with a slice of exactly pdu_len bytes (calls: %d, equal: %s)" % (n, good))


# residual table: (function suffix, site kind, detail regex or None) -> hypothesis
RESIDUAL = [
    ("<time::Instant as std::ops::Add<time::Duration>>::add", "assert", r"Overflow\(Add\)", "H-TIME"),
    ("<time::Instant as std::ops::Sub>::sub", "assert", r"Overflow\(Sub\)", "H-TIME"),
    ("<time::Instant as std::ops::Sub<time::Duration>>::sub", "assert", r"Overflow\(Sub\)", "H-TIME"),
    ("<time::Instant as std::ops::SubAssign<time::Duration>>::sub_assign", "assert", r"Overflow\(Sub\)", "H-TIME"),
    ("<time::Instant as std::ops::AddAssign<time::Duration>>::add_assign", "assert", r"Overflow\(Add\)", "H-TIME"),
    ("<time::Duration as std::ops::Mul<u32>>::mul", "assert", r"Overflow\(Mul\)", "H-TIME"),
    ("<time::Duration as std::ops::Add>::add", "assert", r"Overflow\(Add\)", "H-TIME"),
    ("<dp::master::DpMaster<'a> as fdl::FdlApplication>::receive_reply", "panic-call", r"unreachable", "I-INFLIGHT"),
    # I-PSET: `u8::try_from(<slot index>).unwrap()` anywhere in the peripheral set's look-ups (the writer `add` is checked by s.support)
    ("dp::peripheral_set::PeripheralSet::<'a>::get_at_index_mut", "extern-unwrap", r"unwrap of try_from\(", "I-PSET"),
    ("dp::peripheral_set::PeripheralSet::<'a>::get_next_index", "extern-unwrap", r"unwrap of try_from\(", "I-PSET"),
    ("fdl::telegram::FrameCountBit::cycle", "panic-call", r"panic", "I-FCB"),
]

# residual sites identified by WHAT is computed, wherever the code lives: (module, assert kind regex, operand index, operand term regex)
RESIDUAL_OPERAND = [
    # I-COLLISION: `*collision_count += 1`
    ("fdl::active", r"Overflow\(Add\)", 0, r"collision_count", "I-COLLISION"),
    # H-APPS: `apps[self.next_application]` and the round-robin increment `self.next_application + 1`
    ("fdl::active", r"BoundsCheck", 1, r"^self\.next_application$", "H-APPS"),
    ("fdl::active", r"Overflow\(Add\)", 0, r"^self\.next_application$", "H-APPS"),
]
_TB = {}


def residual(f, s, detail, P=None):
    for suffix, kind, rx, h in RESIDUAL:
        if (f.name.endswith(suffix) or (suffix.startswith("dp::peripheral_set::") and f.name.startswith(suffix + "::{closure"))) and s["kind"] == kind and (rx is None or re.search(rx, s["what"] + " " + " ".join(s["mac"]) + " " + detail)):
            return h
    if s["kind"] == "assert" and P is not None:
        t = f.blocks[s["b"]].term
        for mod, krx, oi, orx, h in RESIDUAL_OPERAND:
            if f.module != mod or not re.search(krx, t.get("kind") or "") or len(t.get("ops") or []) <= oi:
                continue
            if f.name not in _TB:
                _TB[f.name] = TermBuilder(f, P)
            term = strip_casts(strip_refs(_TB[f.name].joperand(t["ops"][oi])))
            while term[0] == "deref":
                term = strip_refs(term[1])
            if re.search(orx, path_str(term) or show(term)):
                return h
    return None


if __name__ == "__main__":
    rule.run(PID, check, "other",
             "R-PANIC/R-LOOP over the call graph of poll(): typestate unreachability from the proved station invariant, interval/zone proofs with "
             "call-site and type-invariant hypotheses, must-guards, delegated totality clauses, named hypotheses.",
             trusted_base=["rustc MIR (nightly) via engines/mirfacts", "analysis/panics.py MAY_PANIC_EXTERN table", "numdom transfer functions",
                           "callback contracts of ProfibusPhy helpers (C16)"],
             thorough_configs=("no_default", "alloc", "debug_measure"))
