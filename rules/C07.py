"""C07  The DP master always brings a healthy peripheral back into data exchange.

The property is a liveness statement (bounded recovery against a conforming slave for every loss history); that is NOT decided.
Decided: the *progress graph* of one peripheral's state machine - structural necessary conditions without which a healthy
peripheral is provably never (or not stably) brought into data exchange:
 a  every state polls: the transmit handler gives up its turn without transmitting only for the three reasons a healthy,
    configured peripheral cannot be stuck in (retry limit exceeded = Offline verdict; no retransmission while Offline, the
    counter being zeroed on that exit; user parameters / configuration not supplied yet);
 b  healthy step: for every bring-up rank r < DataExchange there is an edge r -> r+1 whose path class carries nothing but the
    acknowledgement a conforming slave gives (diagnostics reply accepted, short confirmation, the four readiness bits clear,
    Data reply with status DL/DH/OK and the configured length, SC for an empty input image); both `DL` and `DH` replies have one;
    no edge lowers the rank on a path class that carries only such healthy facts (a healthy peripheral is never demoted);
    while validating, an accepted diagnostics reply whose Prm_Req bit has not been found clear leads back to parameterisation;
 c  every exit of the reply handler that stores the state or reports an event has zeroed the retry counter (otherwise accepted
    replies count as retransmissions and the peripheral is declared Offline after max_retry_limit healthy cycles);
 d  a diagnostics request does not starve data exchange: the accepted diagnostics reply clears `diag_needed`, and the service
    selector is re-evaluated from it on every new message cycle.
Together with C08.a/c (Offline verdict, FCB reset), C03 (guards present) and C14 (every peripheral gets its turn).
"""
from analysis import rule
from analysis.guards import GuardAnalysis
from analysis.terms import TermBuilder, show, path_str, strip_refs, strip_casts, subterms
from analysis.query import call_sites, callee_is, stmts, has_field
from analysis import match as M
from rules import C03, C08

PID = "C07"
CR = "profirust"
RANK = C03.RANK
DIAG = C03.DIAG
READY_BITS = (DIAG["prm_fault"], DIAG["cfg_fault"], DIAG["prm_req"], DIAG["station_not_ready"])


# ---- fact vocabulary ---------------------------------------------------------------------------
def mentions_field(k, name):
    return any(isinstance(s, tuple) and len(s) == 3 and s[0] == "field" and s[2] == name for s in subterms(k))


def is_state_fact(k):
    return k[0] == "discr" and path_str(k[1]) == "self.state"


def flag_bits(k):
    """bits of a `contains(<flags of the accepted diagnostics>, const)` test, else None"""
    if k[0] != "call" or not k[1].endswith("::contains") or len(k[2]) != 2:
        return None
    consts = [s[1] for s in subterms(k[2][1]) if isinstance(s, tuple) and s and s[0] == "const" and isinstance(s[1], int)]
    return consts[0] if len(consts) == 1 else None


def status_fact(k):
    return k[0] == "discr" and M.mentions(k[1], M.t_call("is_response"))


def pure_flag_local(f, tb, lid, _seen=None):
    """a local all of whose definitions are constants / aggregates of constants (a decision flag or decision tuple): the
    conditions under which it has a value are the branch facts of the path class, which are judged on their own"""
    _seen = _seen or set()
    if lid in _seen:
        return True
    _seen.add(lid)
    defs = 0
    for b, i, s in stmts(f):
        if "a" in s and s["a"].get("l") == lid and not [x for x in s["a"].get("p", []) if x != "deref"]:
            defs += 1
            v = tb.rvalue(s["rv"])
            for t in subterms(v):
                if isinstance(t, tuple) and t and t[0] in ("arg", "call", "field", "len", "cmp", "bin"):
                    return False
                if isinstance(t, tuple) and t and t[0] == "local" and not pure_flag_local(f, tb, t[1], _seen):
                    return False
    for b, c in call_sites(f):
        d = c.get("dest")
        if d and d.get("l") == lid:
            return False
    return defs > 0


def root_local(k):
    for s in subterms(k):
        if isinstance(s, tuple) and s and s[0] == "local":
            return s[1]
    return None


def classify(f, tb, k, vs):
    """'neutral' | 'healthy' | 'fault' | 'extra' for one fact of a reply-handler path class"""
    if is_state_fact(k):
        return "neutral"
    if k[0] == "discr" and strip_refs(k[1])[0] == "call" and strip_refs(k[1])[1].endswith("::branch") and len(strip_refs(k[1])[2]) == 1 and vs[0] == "in":
        # `x?` on an Option: Continue <=> Some, Break <=> None (the same outcome is also recorded on `x` itself)
        m = {"Continue": "Some", "Break": "None"}
        return classify(f, tb, ("discr", strip_refs(k[1])[2][0]), ("in", frozenset(m.get(v, v) for v in vs[1])))
    if mentions_field(k, "retry_count"):
        # value facts are post-store values; a *comparison* with the retry counter as acceptance condition is an extra requirement
        return "extra" if k[0] == "cmp" else "neutral"
    if mentions_field(k, "diag_in_flight") or mentions_field(k, "diag_needed"):
        return "neutral"
    if C03.is_diag_accept(k):
        return "healthy" if vs == ("in", frozenset(["Some"])) else "fault"
    bits = flag_bits(k)
    if bits is not None:
        if bits in READY_BITS:
            return "healthy" if vs == ("in", frozenset([False])) else "fault"
        return "extra"
    if k[0] == "discr" and path_str(k[1]) == "telegram":
        return "healthy" if vs[0] == "in" and vs[1] <= {"ShortConfirmation", "Data"} else "fault"
    if status_fact(k):
        return "healthy" if vs[0] == "in" and vs[1] <= {"Ok", "DataLow", "DataHigh"} else "fault"
    if k[0] == "cmp" and k[1] == "eq" and (M.t_len_of("self.pi_i")(k[2]) or M.t_len_of("self.pi_i")(k[3])):
        other = k[3] if M.t_len_of("self.pi_i")(k[2]) else k[2]
        if strip_casts(other) == ("const", 0) or strip_casts(other)[0] == "len":
            return "healthy" if vs == ("in", frozenset([True])) else "fault"
        return "extra"
    if k[0] == "call" and (k[1].endswith("::is_operate") or k[1].endswith("::is_clear")):
        return "neutral"
    lid = root_local(k)
    if lid is not None and not any(isinstance(s, tuple) and s and s[0] == "arg" for s in subterms(k)):
        return "neutral" if pure_flag_local(f, tb, lid) else "extra"
    return "extra"


# ---- a: every state polls ------------------------------------------------------------------------
def check_polls(ctx, P, f):
    ctx.analysed_fns.add(f.name)
    tb = TermBuilder(f, P)
    g = GuardAnalysis(f, P)
    limit = M.key_cmp("lt", lambda t: "max_retry_limit" in show(t), M.t_path("self.retry_count"))
    zero_cmp = M.key_cmp("eq", M.t_const(0), M.t_path("self.retry_count"))
    nerr = 0
    nclasses = 0
    for b, i, s in stmts(f):
        if "a" not in s:
            continue
        v = tb.rvalue(s["rv"])
        if not (v[0] == "agg" and v[2] == "Err" and str(v[1]).endswith("Result")):
            continue
        nerr += 1
        bad = []
        for fs in g.at(b, i):
            nclasses += 1
            st = [vs for k, vs in fs.items() if is_state_fact(k)]
            st = st[0] if st else None
            r1 = any(limit(k) and vs == ("in", frozenset([True])) for k, vs in fs.items())
            r2 = st == ("in", frozenset(["Offline"])) and any(
                (zero_cmp(k) and vs == ("in", frozenset([False]))) or (path_str(k) == "self.retry_count" and vs == ("notin", frozenset([0])))
                for k, vs in fs.items())
            r3 = any(k[0] == "discr" and path_str(k[1]) in ("self.options.user_parameters", "self.options.config")
                     and vs == ("in", frozenset(["None"])) for k, vs in fs.items())
            if not (r1 or r2 or r3):
                bad.append(M.fmt_facts(fs))
        ctx.ob("a.polls", "give-up|%s|%d" % (f.name, nerr - 1), not bad,
               "the transmit handler gives up the peripheral's turn without transmitting on a path class that is neither the Offline verdict "
               "(retry_count > max_retry_limit), nor the no-retry-while-Offline rule, nor missing user parameters / configuration - a healthy "
               "peripheral in that state is never polled again: " + "; ".join(bad[:2]), f.loc(b, i))
    ctx.anchor("non-transmitting (Err) result constructions in the transmit handler", nerr, 4)
    ctx.anchor("path classes at the non-transmitting sites", nclasses, 4)
    # every state has a transmission site (its guard): states named by the send sites' state facts cover the enum
    covered = set()
    nsend = 0
    for b, c in call_sites(f, lambda c: callee_is(c, "send_data_telegram", "send_diagnostics_request")):
        nsend += 1
        for fs in g.at(b):
            for k, vs in fs.items():
                if is_state_fact(k) and vs[0] == "in":
                    covered |= set(vs[1])
    ctx.anchor("transmission sites in the transmit handler", nsend, 5)
    ctx.ob("a.polls", "states-with-request|%s" % f.name, covered >= set(RANK),
           "states without any request: %s - a peripheral in such a state is never polled" % sorted(set(RANK) - covered), f.loc(0))
    ctx.sample({"clause": "a.polls", "err_sites": nerr, "path_classes": nclasses, "states_with_request": sorted(covered)})


# ---- b: healthy step / no healthy demotion ------------------------------------------------------------
def check_steps(ctx, P):
    edges, nstores = C03.extract_state_edges(ctx, P)
    ctx.anchor("direct stores to Peripheral.state", nstores, 7)
    tbs = {}
    healthy_up = {}    # pre-rank -> [edge]
    blocked_up = {}    # pre-rank -> [(edge, extras)]
    status_up = set()
    nlower = 0
    for e in edges:
        f = e["fn"]
        if e["post"] is None:
            continue
        pre = e["pre"] if e["pre"] is not None else set(RANK)
        tb = tbs.setdefault(f.name, TermBuilder(f, P))
        cls = {}
        for k, vs in e["facts"].items():
            cls.setdefault(classify(f, tb, k, vs), []).append((k, vs))
        in_tx = any(M.key_cmp("lt", lambda t: "max_retry_limit" in show(t), M.t_path("self.retry_count"))(k) and vs == ("in", frozenset([True]))
                    for k, vs in e["facts"].items())
        for post in sorted(e["post"]):
            for p in sorted(pre):
                rise = RANK[post] - RANK[p]
                if rise == 1:
                    if not cls.get("extra") and not cls.get("fault"):
                        healthy_up.setdefault(RANK[p], []).append(e)
                        for k, vs in e["facts"].items():
                            if status_fact(k) and vs[0] == "in":
                                status_up |= set(vs[1])
                    else:
                        blocked_up.setdefault(RANK[p], []).append((e, cls.get("extra", []) + cls.get("fault", [])))
                elif rise < 0:
                    nlower += 1
                    ok = bool(cls.get("fault")) or in_tx
                    ctx.ob("b.no-healthy-demotion", "demote|%s|%s->%s%s" % (f.name.split("::")[-1], p, post, "" if ok else "|healthy"), ok,
                           "edge %s->%s lowers the bring-up rank on a path class that carries no fault indication (fault flag, rejected reply, "
                           "`SAP not enabled`, retry limit): a healthy peripheral is thrown out of data exchange: %s" % (p, post, M.fmt_facts(e["facts"])), e["loc"])
    ctx.anchor("rank-lowering edges judged", nlower, 4)
    # a slave that (re)started sits in Wait_Prm and says so with Prm_Req (together with Station_Not_Ready): only Set_Prm moves it on.
    # While validating, every edge taken on an accepted diagnostics reply that has not established "Prm_Req clear" must lead back to
    # a state that parameterises again (WaitForParam, or Offline whose way back passes WaitForParam) - never stay / advance
    nval = 0
    for e in edges:
        if e["post"] is None or e["pre"] is None or not e["pre"] <= {"ValidateConfig"}:
            continue
        fs = e["facts"]
        if not any(C03.is_diag_accept(k) and vs == ("in", frozenset(["Some"])) for k, vs in fs.items()):
            continue
        nval += 1
        clear = any(flag_bits(k) == DIAG["prm_req"] and vs == ("in", frozenset([False])) for k, vs in fs.items())
        ok = clear or e["post"] <= {"WaitForParam", "Offline"}
        ctx.ob("b.prm-req", "validate|->%s%s" % ("/".join(sorted(e["post"])), "" if ok else "|prm-req-not-examined"), ok,
               "while validating the configuration an accepted diagnostics reply leads to %s on a path class that has not established that "
               "Prm_Req (0x0100) is clear: a restarted slave (Prm_Req + Station_Not_Ready) is polled for diagnostics for ever instead of being "
               "parameterised again: %s" % (sorted(e["post"]), M.fmt_facts(fs)), e["loc"])
    ctx.anchor("edges taken on an accepted diagnostics reply while validating", nval, 4)
    for r in range(5):
        name = [n for n, v in RANK.items() if v == r][0]
        ok = bool(healthy_up.get(r))
        why = ""
        if not ok:
            bl = blocked_up.get(r, [])
            why = "; ".join("%s requires %s" % (e["loc"], ", ".join("%s∈%s" % (show(k)[:120], M.fmt_vs(vs)) for k, vs in ex)) for e, ex in bl[:3]) or "no edge raising the rank from this state"
        ctx.ob("b.healthy-step", "step|%s" % name, ok,
               "no edge leaves %s towards the next bring-up state on the acknowledgement of a conforming peripheral alone (%s): a healthy "
               "peripheral is stuck in %s" % (name, why, name), (blocked_up.get(r) or [[{"loc": ""}]])[0][0]["loc"] if blocked_up.get(r) else "")
    for stv in ("DataLow", "DataHigh"):
        ctx.ob("b.healthy-step", "status|%s" % stv, stv in status_up,
               "a Data_Exchange reply with response status %s (the two statuses a conforming peripheral answers with) does not lead into "
               "DataExchange" % stv)
    ctx.anchor("ranks with a healthy rank-raising edge", len(healthy_up), 5)
    ctx.sample({"clause": "b", "healthy_edges": {str(r): sorted({e["loc"] for e in es}) for r, es in healthy_up.items()}, "rank_lowering": nlower})


# ---- b'': the diagnostics helper rejects only what is not a diagnostics reply -----------------------------
def check_helper_rejections(ctx, P):
    """`diagnostics reply accepted` is an atom of the healthy vocabulary above; it is healthy only if the helper rejects (returns None)
    for nothing but: reply is not a Data telegram, wrong DSAP / SSAP, PDU shorter than the 6-octet header."""
    hs = [g_ for g_ in P.crate_fns(CR) if g_.name.endswith("::handle_diagnostics_response") and g_.module == "dp::peripheral"]
    ctx.anchor("diagnostics helper of the peripheral", len(hs), 1)
    for f in hs:
        ctx.analysed_fns.add(f.name)
        g = GuardAnalysis(f, P)
        n = 0
        bad = []
        for b, i, s in stmts(f):
            if not ("a" in s and s["a"].get("l") == 0 and not s["a"].get("p")):
                continue
            v = g.tb.rvalue(s["rv"])
            if not (v[0] == "agg" and v[2] == "None"):
                continue
            for fs in g.at(b, i):
                n += 1
                ok = False
                for k, vs in fs.items():
                    if k[0] == "discr" and path_str(strip_refs(k[1])) == "telegram" and ((vs[0] == "in" and "Data" not in vs[1]) or (vs[0] == "notin" and "Data" in vs[1])):
                        ok = True
                    if (mentions_field(k, "dsap") or mentions_field(k, "ssap")) and (
                            (k[0] == "cmp" and k[1] == "eq" and vs == ("in", frozenset([False]))) or (k[0] == "discr" and vs == ("in", frozenset(["None"])))):
                        ok = True
                    if k[0] == "cmp" and k[1] == "lt" and mentions_field(k[2], "pdu") and k[2][0] == "len" and strip_casts(k[3])[0] == "const" \
                            and strip_casts(k[3])[1] <= 6 and vs == ("in", frozenset([True])):
                        ok = True
                if not ok:
                    bad.append((f.loc(b, i), M.fmt_facts(fs)[:300]))
        ctx.anchor("rejecting path classes of the diagnostics helper", n, 4)
        ctx.ob("b.diag-accept", "helper-rejects-only-non-diagnostics|%s" % f.name, not bad,
               "the diagnostics helper rejects a reply that is a well-formed diagnostics reply (Data, DSAP 62, SSAP 60, at least 6 octets): a "
               "conforming slave whose reply takes this path is never seen Online / Configured: " + "; ".join("%s %s" % b_ for b_ in bad[:2]),
               bad[0][0] if bad else f.loc(0))


# ---- c: retry counter zeroed on every accepting exit of the reply handler -----------------------------
def check_reset(ctx, P, f):
    ctx.analysed_fns.add(f.name)
    tb = TermBuilder(f, P)
    inc, zero, other = C08.retry_stores(f, tb)
    marks = {z: "zero" for z in zero}
    nst = 0
    for b, i, s in stmts(f):
        if "a" in s and has_field(s["a"], "state", "PeripheralState"):
            marks[(b, i)] = "st"
            nst += 1
    # the diagnostics helper may zero the counter itself when it accepts (summary per outcome, as for fcb.cycle() in C08.b)
    hsum = {}
    for b, c in call_sites(f, lambda c: callee_is(c, "handle_diagnostics_response")):
        hf = P.get(CR, c["callee"])
        if hf is None:
            continue
        marks[(b, None)] = "helper"
        if hf.name not in hsum:
            ctx.analysed_fns.add(hf.name)
            htb = TermBuilder(hf, P)
            _, hz, _ = C08.retry_stores(hf, htb)
            hg = GuardAnalysis(hf, P, mem_kill=True, marks={z: "zero" for z in hz})
            out = {}
            for rb in hf.return_blocks:
                for fs in hg.at(rb):
                    for v in (C08.ret_discr(fs) or {"?"}):
                        out.setdefault(v, set()).update(hg.count_of(fs, "zero"))
            hsum[hf.name] = out
            zero = zero + [("helper", z) for z in hz]
    helper_zeroes_on_some = bool(hsum) and all(0 not in cnt for s_ in hsum.values() for o_, cnt in s_.items() if o_ != "None") and all(set(s_) - {"None"} for s_ in hsum.values())
    ctx.anchor("retry_count = 0 stores in the reply handler (incl. the diagnostics helper)", len(zero), 4)
    g = GuardAnalysis(f, P, marks=marks)
    bad = []
    nacc = 0
    for rb in f.return_blocks:
        for fs in g.at(rb):
            ev = C08.ret_discr(fs)
            stored = g.count_of(fs, "st") != {0}
            if stored or ev != {"None"}:
                nacc += 1
                if 0 in g.count_of(fs, "zero"):
                    via_helper = (helper_zeroes_on_some and 0 not in g.count_of(fs, "helper")
                                  and any(C03.is_diag_accept(k) and vs == ("in", frozenset(["Some"])) for k, vs in fs.items()))
                    if not via_helper:
                        bad.append(M.fmt_facts(fs))
    ctx.anchor("exit classes of the reply handler that store the state or report an event", nacc, 6)
    ctx.ob("c.retry-reset", "accepting-exits-zero-retry|%s" % f.name, not bad,
           "the reply handler changes the state or reports an event on a path that does not zero retry_count: the next request counts as a "
           "retransmission and healthy cycles add up to the Offline verdict: " + "; ".join(bad[:2]), f.loc(f.return_blocks[0]) if f.return_blocks else "")


# ---- d: diagnostics requests do not starve data exchange ----------------------------------------------
def check_diag(ctx, P, tx, rx):
    tb = TermBuilder(rx, P)
    marks = {}
    for b, i, s in stmts(rx):
        if "a" in s and has_field(s["a"], "diag_needed", "bool") and tb.rvalue(s["rv"]) == ("const", False):
            marks[(b, i)] = "clear"
    ctx.anchor("`diag_needed = false` stores in the reply handler", len(marks), 1)
    g = GuardAnalysis(rx, P, marks=marks)
    bad = []
    n = 0
    for rb in rx.return_blocks:
        for fs in g.at(rb):
            inflight = any(path_str(k) == "self.diag_in_flight" and vs == ("in", frozenset([True])) for k, vs in fs.items())
            acc = any(C03.is_diag_accept(k) and vs == ("in", frozenset(["Some"])) for k, vs in fs.items())
            if inflight and acc:
                n += 1
                if g.count_of(fs, "clear") != {1}:
                    bad.append(M.fmt_facts(fs))
    ctx.anchor("exit classes: diagnostics reply accepted while in data exchange", n, 1)
    ctx.ob("d.diag", "accepted-diagnostics-clears-request|%s" % rx.name, not bad,
           "a diagnostics reply is accepted in data exchange without clearing `diag_needed`: every following cycle asks for diagnostics again "
           "and cyclic data exchange never resumes: " + "; ".join(bad[:2]), rx.loc(0))
    # transmit side: on a new message cycle (retry_count == 0) in the data-exchange states the selector is re-evaluated from diag_needed
    tbt = TermBuilder(tx, P)
    marks = {}
    for b, i, s in stmts(tx):
        if "a" in s and has_field(s["a"], "diag_in_flight", "bool"):
            v = strip_casts(tbt.rvalue(s["rv"]))
            marks[(b, i)] = "sel" if path_str(v) == "self.diag_needed" else "sel-other"
    ctx.anchor("stores to `diag_in_flight` in the transmit handler", len(marks), 1)
    g = GuardAnalysis(tx, P, marks=marks)
    zero_cmp = M.key_cmp("eq", M.t_const(0), M.t_path("self.retry_count"))
    bad = []
    n = 0
    for b, c in call_sites(tx, lambda c: callee_is(c, "send_data_telegram", "send_diagnostics_request")):
        for fs in g.at(b):
            st = [vs for k, vs in fs.items() if is_state_fact(k)]
            if not st or st[0][0] != "in" or not st[0][1] <= {"DataExchange", "PreDataExchange"}:
                continue
            new_cycle = any((zero_cmp(k) and vs == ("in", frozenset([True]))) or (path_str(k) == "self.retry_count" and vs == ("in", frozenset([0])))
                            for k, vs in fs.items())
            if new_cycle:
                n += 1
                if g.count_of(fs, "sel") != {1} or g.count_of(fs, "sel-other") != {0}:
                    bad.append(M.fmt_facts(fs))
    ctx.anchor("new-cycle path classes at the data-exchange request sites", n, 2)
    ctx.ob("d.diag", "selector-from-diag-needed|%s" % tx.name, not bad,
           "a new message cycle in (Pre)DataExchange does not re-evaluate the service selector from `diag_needed`: once diagnostics were "
           "requested the peripheral is asked for diagnostics for ever (or never): " + "; ".join(bad[:2]), tx.loc(0))


def check(ctx):
    P = ctx.prog
    tx = [f for f in P.crate_fns(CR) if f.module == "dp::peripheral" and f.kind == "assoc"
          and f.locals[0]["ty"].startswith("std::result::Result<fdl::telegram::TelegramTxResponse")]
    rx = [f for f in P.crate_fns(CR) if f.module == "dp::peripheral" and f.kind == "assoc"
          and f.locals[0]["ty"].startswith("std::option::Option<dp::peripheral::PeripheralEvent>")
          and any("Telegram" in l["ty"] for l in f.locals[1:f.argc + 1])]
    ctx.anchor("peripheral transmit handler (returns Result<TelegramTxResponse, ..>)", len(tx), 1)
    ctx.anchor("peripheral reply handler (Telegram -> Option<PeripheralEvent>)", len(rx), 1)
    for f in tx:
        check_polls(ctx, P, f)
    check_steps(ctx, P)
    check_helper_rejections(ctx, P)
    for f in rx:
        check_reset(ctx, P, f)
    if tx and rx:
        check_diag(ctx, P, tx[0], rx[0])
    # the Offline verdict and what follows it (C08.a, C08.c) are part of the way back
    rule.import_clauses(ctx, "C08", lambda s_: [(C08.check_retry(s_, P, f), C08.check_offline_reset(s_, P, f)) for f in tx],
                        clauses=("a.retry", "c.offline-reset"), as_clause="e.offline-verdict")
    # a conforming slave detects retransmissions by the frame count bit: an answered request must be followed by a toggled bit
    # (C08.b), else the slave repeats its previous response for ever (seed C07-1)
    rule.import_clauses(ctx, "C08", lambda s_: [C08.check_cycle(s_, P, f) for f in rx], clauses=("b.cycle",), as_clause="e.fcb-toggle")
    ctx.assume("decides the progress graph of ONE peripheral's state machine (necessary conditions); bounded-time recovery against a "
               "reference slave over all loss histories is not decided")


if __name__ == "__main__":
    rule.run(PID, check, level="other",
             explanation="Progress graph of the peripheral state machine from the typestate edges of Peripheral.state and the path classes of the "
                         "transmit / reply handlers: non-transmitting exits only for the three legitimate reasons, a healthy rank-raising edge "
                         "per bring-up rank with no extra requirement, no demotion on healthy facts, retry counter zeroed on accepting exits, "
                         "diagnostics request cleared / selector re-evaluated. Necessary conditions of C07; the liveness statement itself is "
                         "not decided.",
             trusted_base=["rustc MIR (nightly) as extracted by engines/mirfacts", "rules/spec_tables.json (DP diagnostic bits)"],
             thorough_configs=("no_default", "alloc", "debug_measure"))
