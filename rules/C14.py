"""C14  DP cycles visit every peripheral once and events are accounted exactly.

Decides (structural clauses on DpMaster / Peripheral):
 a  the master's turn always ends: the slot loop of DpMaster::transmit_telegram makes progress
    (every path around the loop advances the cycle state) – for any number of peripherals incl. zero;
 b  no assertion / panic site in the master's transmit path (two peripheral events in one turn);
 c  cycle_completed: reported `true` exactly on paths where the slot iteration reported the end
    of the pass (or no peripheral exists at/after the index), reported `false` otherwise; in the
    reply path the flag is the iteration's own result;
 d  event accounting: every return of transmit_telegram / receive_reply is preceded by exactly one
    store of the events slot on that path; an event obtained from a peripheral on a path is the
    event stored (never overwritten by None, never dropped);
 e  life-cycle pairing in Peripheral: Online only on Offline->WaitForParam, Configured only on
    ValidateConfig->PreDataExchange, DataExchanged only into DataExchange, Parameter/ConfigError only
    into Offline, Offline event only together with state = Offline; is_live()/is_running() tables;
    the retry/Offline pairing of C08.a (exactly one Offline per drop-out).
Does not decide: "exactly one turn per peripheral in slot order" under storage mutation mid-cycle
(iterator-adaptor semantics of get_next_index; assumed to return a strictly larger slot or None).
"""
from analysis import rule
from analysis.guards import GuardAnalysis
from analysis.terms import TermBuilder, show, path_str, strip_refs, strip_casts, subterms, simplify
from analysis.query import call_sites, callee_is, stmts, has_field, variant_uses
from analysis.modset import ModSets
from analysis.ir import mk_place
from analysis import match as M
from rules import C08, C10

PID = "C14"
CR = "profirust"
TX = "<dp::master::DpMaster<'a> as fdl::FdlApplication>::transmit_telegram"
RX = "<dp::master::DpMaster<'a> as fdl::FdlApplication>::receive_reply"


def check(ctx):
    P = ctx.prog
    tx = ctx.need_fn(CR, TX)
    rx = ctx.need_fn(CR, RX)
    if tx is None or rx is None:
        return
    ms = ModSets(P)
    check_progress(ctx, P, tx, ms)
    check_rest(ctx, P, tx, rx, ms)


def check_progress(ctx, P, tx=None, ms=None):
    """clause a.progress (also used by C05's R-LOOP)"""
    if tx is None:
        tx = ctx.need_fn(CR, TX)
        if tx is None:
            return
    ms = ms or ModSets(P)
    # ---------------- a: loop progress ----------------------------------------------------------
    tb = TermBuilder(tx, P)
    progress = set()
    for b, c in call_sites(tx):
        w = ms.call_writes(tx, tb, c)
        if any(p[:3] == ("self", "state", "cycle_state") or p == ("self", "state") or p == ("self",) for p in w):
            # only calls that *necessarily* write it count: the local helper
            tgt = P.get(CR, c.get("callee") or "")
            if tgt is not None and must_write_cycle_state(P, tgt):
                progress.add(b)
    for b, i, s in stmts(tx):
        if "a" in s and has_field(s["a"], "cycle_state", "CycleState"):
            progress.add(b)
    be = tx.back_edges()
    ctx.anchor("loop back edges in DpMaster::transmit_telegram", len(be), 1)
    for src, head in be:
        # is src reachable from head without passing a progress block?
        seen, st = set(), [head]
        reach = False
        while st:
            n = st.pop()
            if n in seen:
                continue
            seen.add(n)
            if n in progress:
                continue
            if n == src:
                reach = True
                break
            st.extend(tx.succ[n])
        ctx.ob("a.progress", "loop|%d" % be.index((src, head)), not reach,
               "the slot loop of DpMaster::transmit_telegram has a path around the loop that does not advance the cycle state "
               "(poll() can hang, e.g. when no peripheral exists at the index)", tx.loc(head))
    ctx.assume("PeripheralSet::get_next_index returns a strictly later slot or None (iterator adaptor semantics)")
    # ---------------- a': a declined turn is over ----------------------------------------------
    # when the peripheral at the current slot declines to transmit (its transmit handler returns Err: nothing to send, or the Offline
    # verdict), the master leaves the function or goes round the loop only after advancing the slot - otherwise the same peripheral
    # gets a second turn (a second, different request) within the same pass
    marks = {}
    nptx = 0
    for b, c in call_sites(tx, lambda c: callee_is(c, "dp::peripheral::Peripheral::transmit_telegram")):
        marks[(b, None)] = "ptx"
        nptx += 1
    for b in progress:
        marks.setdefault((b, None), "prog")
    ctx.anchor("calls of Peripheral::transmit_telegram in DpMaster::transmit_telegram", nptx, 1)
    g = GuardAnalysis(tx, P, marks=marks, iter_marks=("ptx", "prog"))
    bad = []
    ncls = 0
    ends = [(rb, None) for rb in tx.return_blocks] + [(src, "back") for src, head in be]
    for b, kind in ends:
        S = g.at(b)
        for fs in S:
            declined = any(k[0] == "discr" and strip_refs(k[1])[0] == "call" and M.callee_matches(strip_refs(k[1])[1], "dp::peripheral::Peripheral::transmit_telegram")
                           and vs == ("in", frozenset(["Err"])) for k, vs in fs.items()) or \
                any(k[0] == "discr" and show(k[1]) == "res" and vs == ("in", frozenset(["Err"])) for k, vs in fs.items())
            if g.count_of(fs, "ptx") == {0} or not declined:
                continue
            ncls += 1
            if 0 in g.count_of(fs, "prog"):
                bad.append(M.fmt_facts(fs)[:300])
    ctx.anchor("path classes ending a declined turn", ncls, 2)
    ctx.ob("a.progress", "declined-turn-advances-slot", not bad,
           "DpMaster::transmit_telegram returns (or goes round its loop) after the peripheral at the current slot declined to transmit "
           "without advancing the cycle state: the same peripheral gets a second turn in the same pass: " + "; ".join(bad[:2]), tx.loc(0))


def check_rest(ctx, P, tx, rx, ms):
    # ---------------- b: no panic sites in the transmit path ------------------------------------
    n = 0
    for b, c in call_sites(tx):
        cal = c.get("callee") or ""
        if cal.startswith(C10.PANIC_PREFIXES) or cal.endswith("::unwrap") or cal.endswith("::expect"):
            n += 1
            ctx.ob("b.no-assert", "panic|%s|%d" % (cal.split("::")[-1], n), False,
                   "panic site in DpMaster::transmit_telegram (%s): the master's turn must not assert on the number of peripheral events" % cal, tx.loc(b))
    ctx.ob("b.no-assert", "none", n == 0, "", tx.loc(0))
    # ---------------- c/d: event slot stores ------------------------------------------------------
    for f in (tx, rx):
        ctx.analysed_fns.add(f.name)
        ftb = TermBuilder(f, P)
        marks = {}
        stores = []
        for b, i, s in stmts(f):
            if "a" in s and has_field(s["a"], "last_events", "DpEvents"):
                marks[(b, i)] = "store"
                stores.append((b, i, simplify(ftb.rvalue(s["rv"]))))
        for b, c in call_sites(f, lambda c: callee_is(c, "increment_cycle_state")):
            marks[(b, None)] = "inc"
            # persistent (not per-iteration) mark on the branch taken when the iteration reported "pass complete"
            dl = c["dest"]["l"]
            t_ = c.get("target")
            if t_ is not None:
                sw = f.blocks[t_].term
                if "switch" in sw and (sw["switch"].get("mv") or sw["switch"].get("cp") or {}).get("l") == dl and sw.get("sty") == "bool" \
                        and sw["targets"] and int(sw["targets"][0][0]) == 0:
                    bt = sw["otherwise"]
                    marks[(bt, 0 if f.blocks[bt].stmts else None)] = "inc_true"
        # current-state facts (mem_kill): a variant test of cycle_state made in an earlier turn of the slot loop must not survive
        # the call that advances the cycle state, or the next turn's CycleCompleted arm would look unreachable
        g = GuardAnalysis(f, P, marks=marks, iter_marks=("inc",), mem_kill=True, modsets=ms)
        short = f.name.split("::")[-1]
        ctx.anchor("stores to the events slot in DpMaster::" + short, len(stores), 3 if f is tx else 1)
        bad = []
        for rb in f.return_blocks:
            for fs in g.at(rb):
                if g.count_of(fs, "store") != {1}:
                    bad.append("%s stores on path %s" % (sorted(g.count_of(fs, "store")), M.fmt_facts(fs)[:300]))
        ctx.ob("d.accounting", "one-store-per-return|" + short, not bad,
               "a return of DpMaster::%s is not preceded by exactly one store of the events slot: %s" % (short, "; ".join(bad[:2])), f.loc(0))
        is_inc = lambda k: strip_refs(k)[0] == "call" and M.callee_matches(strip_refs(k)[1], "increment_cycle_state")
        for b, i, v in stores:
            loc = f.loc(b, i)
            S = g.at(b, i)
            if v[0] == "call" and "default" in v[1]:
                continue  # stop / global control: empty events
            if not (v[0] == "agg" and str(v[1]).endswith("DpEvents")):
                ctx.ob("d.accounting", "store-shape|%s" % short, False, "unrecognised value stored into the events slot: " + show(v), loc)
                continue
            cc, per = v[3][0], v[3][1]
            n_ = sum(1 for o in ctx.obligations if o["key"].startswith("%s|c.cycle|cc|%s|" % (PID, short)))
            for fs in S:
                inc = [vs for k, vs in fs.items() if is_inc(k)]
                inc_true = bool(inc) and inc[0] == ("in", frozenset([True]))
                no_slot = any(k[0] == "discr" and M.mentions(k[1], M.t_call("get_at_index_mut")) and not M.mentions(k[1], M.t_call("transmit_telegram"))
                              and vs == ("in", frozenset(["None"])) for k, vs in fs.items())
                if is_inc(cc):
                    ok = True  # the flag *is* the iteration result
                elif cc == ("const", True):
                    ok = inc_true or no_slot
                else:  # default (false)
                    ok = not inc_true and g.count_of(fs, "inc_true") == {0}  # also not in an earlier turn of the slot loop
                    if g.count_of(fs, "inc") != {0} and not (inc and inc[0] == ("in", frozenset([False]))):
                        ok = False  # the iteration was advanced in this pass but its verdict was not consulted
                ctx.ob("c.cycle", "cc|%s|%d" % (short, n_), ok,
                       "cycle_completed = %s stored on a path where the slot iteration %s: %s" % (
                           show(cc), "reported the end of the pass" if inc_true else "did not report the end of the pass", M.fmt_facts(fs)[:300]), loc)
            # d: the stored peripheral event
            for fs in S:
                got = [vs for k, vs in fs.items() if k[0] == "discr" and vs == ("in", frozenset(["Some"]))
                       and M.mentions(k[1], lambda t: t[0] == "call" and (M.callee_matches(t[1], "dp::peripheral::Peripheral::transmit_telegram")))
                       and show(k[1]).rstrip(")").endswith("1")]
                pd = fs.get(("discr", strip_refs(per)))
                if got and not (pd is not None and pd == ("in", frozenset(["Some"]))):
                    ctx.ob("d.accounting", "event-kept|%s" % short, False,
                           "a peripheral reported an event on this path but the events slot is stored with %s = %s: the event is lost: %s" % (
                               show(per), pd, M.fmt_facts(fs)[:300]), loc)
        ctx.ob("d.accounting", "event-kept-checked|" + short, True, "", f.loc(0))
    # the verdict of every increment_cycle_state call is consumed (tested or stored as cycle_completed)
    import json as _json
    for f in (tx, rx):
        for b, c in call_sites(f, lambda c: callee_is(c, "increment_cycle_state")):
            dl = c["dest"]["l"]
            used = False
            for blk in f.blocks:
                if blk.cleanup:
                    continue
                t = blk.term
                if "switch" in t and (t["switch"].get("mv") or t["switch"].get("cp") or {}).get("l") == dl:
                    used = True
                for s_ in blk.stmts:
                    if "a" in s_ and ('"l": %d' % dl) in _json.dumps(s_["rv"]):
                        used = True
            ctx.ob("c.cycle", "inc-result-consumed|%s" % f.name.split("::")[-1], used,
                   "the result of increment_cycle_state (\"this pass is complete\") is discarded: the completed pass is never reported as cycle_completed", f.loc(b))
    # receive_reply: event of Peripheral::receive_reply flows into the slot
    rtb = TermBuilder(rx, P)
    for b, i, s in stmts(rx):
        if "a" in s and has_field(s["a"], "last_events", "DpEvents"):
            v = simplify(rtb.rvalue(s["rv"]))
            def from_reply(t, depth=0):
                """the stored event is the event of Peripheral::receive_reply - directly, or through a variable every definition of
                which is `None` or built from that event (`event.map(|ev| (handle, ev))` written out as a match)"""
                if M.mentions(t, M.t_call("dp::peripheral::Peripheral::receive_reply")):
                    return True
                t = strip_refs(t)
                if t[0] == "local" and depth < 3:
                    some = 0
                    for d in rtb.defs.get(t[1], ()):
                        dv = rtb.rvalue(rx.blocks[d[1]].stmts[d[2]]["rv"]) if d[0] == "stmt" else rtb.call_term(rx.blocks[d[1]].term["call"])
                        if dv[0] == "agg" and dv[2] == "None":
                            continue
                        if not from_reply(dv, depth + 1):
                            return False
                        some += 1
                    return some >= 1
                return False
            ok = v[0] == "agg" and from_reply(v[3][1]) and M.mentions(v[3][0], M.t_call("increment_cycle_state"))
            ctx.ob("d.accounting", "reply-event-flow", ok, "the reply path must store (cycle_completed = iteration result, peripheral = event of Peripheral::receive_reply), found " + show(v)[:200], rx.loc(b, i))
    # ---------------- a': what the slot iteration stores --------------------------------------------
    inc = P.get(CR, "dp::master::DpMaster::<'a>::increment_cycle_state")
    if inc is None:
        ctx.ob("anchor", "fn:increment_cycle_state", False, "DpMaster::increment_cycle_state not found")
    else:
        gi = GuardAnalysis(inc, P, mem_kill=True, modsets=ms)
        tbl = {}
        for rb in inc.return_blocks:
            for fs in gi.at(rb):
                r0 = fs.get(("local", 0, None))
                cs = [vs for k, vs in fs.items() if k[0] == "discr" and show(k[1]).endswith("state.cycle_state")]
                key = tuple(sorted(r0[1])) if r0 is not None else ("?",)
                tbl.setdefault(key, set()).update(cs[0][1] if cs and cs[0][0] == "in" else {"?"})
        want = {(True,): {"CycleCompleted"}, (False,): {"DataExchange"}}
        ctx.ob("a.progress", "slot-iteration-table", tbl == want,
               "increment_cycle_state must park the cycle in CycleCompleted exactly when it reports the end of the pass (so that the master's turn ends "
               "once before the next pass starts); found result -> stored state: %s" % {str(k): sorted(v) for k, v in tbl.items()}, inc.loc(0))
    # ---------------- f: the cycle position belongs to the cycle ------------------------------------
    # a pass visits every peripheral once only if nothing but the slot iteration itself moves the cycle position: who writes it?
    from analysis.query import mut_uses_of_field
    w = sorted({u["fn"].name for u in mut_uses_of_field(P, CR, "cycle_state", "CycleState") if u["kind"] in ("assign", "calldest", "setdiscr", "refmut")
                and not u["fn"].j.get("derived")})
    allowed = {"dp::master::DpMaster::<'a>::new", "dp::master::DpMaster::<'a>::increment_cycle_state", TX, RX}
    allowed |= {P.fn(CR, TX).name, P.fn(CR, RX).name}
    from analysis.callgraph import CallGraph, reached_only_from
    cg_ = CallGraph(P, CR)
    allowed |= {w_ for w_ in w if reached_only_from(P, CR, cg_, w_, allowed)}
    ctx.ob("f.who", "writers-of-cycle-state", bool(w) and set(w) <= allowed,
           "the DP cycle position (DpMasterState.cycle_state) is written outside the slot iteration (%s): peripherals can be visited twice or skipped "
           "in one pass" % sorted(set(w) - allowed), "")
    # the retry guard `retry_count > max_retry_limit` separates "still trying" from "declared offline" only for a limit >= 1: the
    # builder must keep the limit in 1..=15 (interval proof per setter, shared with C05's H-PARAM support)
    from rules import C05
    rule.import_clauses(ctx, "C05", lambda s_: C05.check_builder_ranges(s_, P), as_clause="e.lifecycle")
    # ---------------- e: life-cycle pairing -------------------------------------------------------
    check_lifecycle(ctx, P)
    for f in [f for f in P.crate_fns(CR) if f.module == "dp::peripheral" and f.kind == "assoc"
              and f.locals[0]["ty"].startswith("std::result::Result<fdl::telegram::TelegramTxResponse")]:
        C08.check_retry(ctx, P, f)


def must_write_cycle_state(P, f):
    """every return path of f stores into cycle_state"""
    marks = {(b, i): "w" for b, i, s in stmts(f) if "a" in s and has_field(s["a"], "cycle_state", "CycleState")}
    if not marks:
        return False
    g = GuardAnalysis(f, P, marks=marks)
    return all(g.count_of(fs, "w") != {0} and 0 not in g.count_of(fs, "w") for rb in f.return_blocks for fs in g.at(rb))


EVENT_EDGES = {
    "Online": ({"Offline"}, {"WaitForParam"}),
    "Configured": ({"ValidateConfig"}, {"PreDataExchange"}),
    "DataExchanged": ({"PreDataExchange", "DataExchange"}, {"DataExchange"}),
    "ParameterError": ({"ValidateConfig"}, {"Offline"}),
    "ConfigError": ({"ValidateConfig"}, {"Offline"}),
    "Offline": (None, {"Offline"}),
    "Diagnostics": ({"PreDataExchange", "DataExchange"}, None),
}


def check_lifecycle(ctx, P):
    n = 0
    # decision tables split off into private single-call-site helpers are read in their caller's context
    from analysis.inline import expanded_fns
    fns = expanded_fns(P, [f for f in P.crate_fns(CR) if f.module == "dp::peripheral" and f.kind == "assoc" and not f.j.get("derived")])
    uses = {var: variant_uses(P, CR, "dp::peripheral::PeripheralEvent", var, fns) for var in EVENT_EDGES}
    for f in fns:
        evs = []
        for var in EVENT_EDGES:
            for e in uses[var]:
                if e["fn"] is f:
                    evs.append((var, e))
        if not evs:
            continue
        ctx.analysed_fns.add(f.name)
        marks = {(e["b"], e["i"]): "ev_" + var for var, e in evs}
        g_pre = GuardAnalysis(f, P)
        g_post = GuardAnalysis(f, P, mem_kill=True, marks=marks)
        for var, (pre_ok, post_ok) in EVENT_EDGES.items():
            mine = [e for v, e in evs if v == var]
            if not mine:
                continue
            n += len(mine)
            bad = []
            for e in mine:
                for fs in g_pre.at(e["b"], e["i"]):
                    st = [vs for k, vs in fs.items() if k[0] == "discr" and path_str(k[1]) == "self.state"]
                    if pre_ok is not None and not (st and st[0][0] == "in" and st[0][1] <= pre_ok):
                        bad.append("raised from state %s" % (st[0] if st else "?",))
            # post state at the exits of paths that raised the event
            for rb in f.return_blocks:
                for fs in g_post.at(rb):
                    if g_post.count_of(fs, "ev_" + var) == {0}:
                        continue
                    st = [vs for k, vs in fs.items() if k[0] == "discr" and path_str(k[1]) == "self.state"]
                    if post_ok is not None and not (st and st[0][0] == "in" and st[0][1] <= post_ok):
                        bad.append("function returns in state %s after raising it" % (st[0] if st else "?",))
            ctx.ob("e.lifecycle", "event-edge|%s|%s" % (var, f.name), not bad,
                   "PeripheralEvent::%s is inconsistent with the peripheral life-cycle (allowed from %s into %s): %s" % (var, pre_ok, post_ok, "; ".join(sorted(set(bad))[:3])), f.loc(mine[0]["b"], mine[0]["i"]))
    ctx.anchor("PeripheralEvent constructions in dp::peripheral", n, 7)
    # is_live / is_running
    for name, want in (("dp::peripheral::Peripheral::is_live", ("ne", "Offline")), ("dp::peripheral::Peripheral::is_running", ("eq", "DataExchange"))):
        f = ctx.need_fn(CR, name)
        if f is None:
            continue
        # the predicate as a table result -> set of states, however the test is spelled (`==`, `!=`, `matches!`, `match`)
        from analysis.guards import canon_bool
        g = GuardAnalysis(f, P)
        tb = g.tb
        allv = set(P.enum_variants(CR, "dp::peripheral::PeripheralState") or [])
        rows = {True: set(), False: set()}
        det = True

        def states(vs):
            if vs is None:
                return None
            return set(vs[1]) if vs[0] == "in" else allv - set(vs[1])

        def row(res, st):
            nonlocal det
            if st is None:
                det = False
            else:
                rows[res] |= st
        for b_, i_, s_ in stmts(f):
            if "a" in s_ and mk_place(s_["a"]) == (0, ()):
                t = tb.rvalue(s_["rv"])
                for fs in g.at(b_, i_):
                    cur = [vs for k, vs in fs.items() if k[0] == "discr" and path_str(strip_refs(k[1])) == "self.state"]
                    if t[0] == "const" and isinstance(t[1], bool):
                        row(t[1], states(cur[0]) if cur else None)
                    else:
                        kt, vt = canon_bool(t, True)
                        kf, vf = canon_bool(t, False)
                        if fs.get(kt) in (vt, vf):  # computed from a flag whose value is known on this path class
                            row(fs.get(kt) == vt, states(cur[0]) if cur else None)
                            continue
                        for pol in (True, False):
                            k, vs = canon_bool(t, pol)
                            row(pol, states(vs) if k[0] == "discr" and path_str(strip_refs(k[1])) == "self.state" else None)
        for b_, c_ in call_sites(f):
            if mk_place(c_["dest"]) == (0, ()):
                t = tb.call_term(c_)
                for pol in (True, False):
                    k, vs = canon_bool(t, pol)
                    row(pol, states(vs) if k[0] == "discr" and path_str(strip_refs(k[1])) == "self.state" else None)
        yes = (allv - {want[1]}) if want[0] == "ne" else {want[1]}
        ok = det and bool(allv) and rows[True] == yes and rows[False] == allv - yes
        ctx.ob("e.lifecycle", "table|" + name.split("::")[-1], ok, "%s must be `state %s %s`" % (name, "!=" if want[0] == "ne" else "==", want[1]), f.loc(0))


if __name__ == "__main__":
    rule.run(PID, check, level="other",
             explanation="Loop progress of the DP master's slot loop (cut-set of cycle-state writers on every path around the loop), absence of "
                         "assertions in the transmit path, cycle_completed and event-slot pairing by per-path counters and facts, life-cycle edges of "
                         "peripheral events, retry/Offline pairing.",
             trusted_base=["rustc MIR (nightly) as extracted by engines/mirfacts", "get_next_index returns a later slot or None"],
             thorough_configs=("no_default", "alloc", "debug_measure"))
