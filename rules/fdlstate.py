"""Shared driver: global typestate invariant of FdlActiveStation and interprocedural contexts of poll().

The invariant is the least fixpoint of the constructor's state under every public `&mut self` method
(set_state / set_online / set_offline / set_passive / poll / poll_multi) with a fully non-deterministic
environment (PHY bytes, applications, time).  Elements are fact-sets over the *tracked cells*:
discriminants / flags of  self.state (and the fields of its variants),  self.connectivity_state,
self.gap_state.
"""
from analysis.interproc import Interproc, subst, leaves
from analysis.guards import Facts, join_all
from analysis.terms import path_str, show, field_path

CR = "profirust"
STATION = "fdl::active::FdlActiveStation"
SELF = ("deref", ("arg", "self"))
TRACK_FIELDS = ("state", "connectivity_state", "gap_state")


def tracked(k):
    t = k[1] if k[0] == "discr" else k
    fp = field_path(t)
    if fp is None or len(fp) < 2 or fp[0] != "self":
        return False
    return fp[1] in TRACK_FIELDS


def project(fs):
    return Facts({k: v for k, v in fs.items() if tracked(k) and v[0] == "in" and keep_vs(v)})


TOP_KEYS = [("discr", ("field", SELF, "connectivity_state")), ("discr", ("field", SELF, "state")), ("discr", ("field", SELF, "gap_state"))]


def atoms(fs, universe):
    """expand a projected fact-set into atomic entries over the three top-level cells (sub-variant
    facts are kept only when the top-level variant is a single value)"""
    import itertools
    choices = []
    for k in TOP_KEYS:
        vs = fs.get(k)
        choices.append(sorted(vs[1]) if vs is not None else sorted(universe[k]))
    out = []
    for combo in itertools.product(*choices):
        d = {k: ("in", frozenset([v])) for k, v in zip(TOP_KEYS, combo)}
        single = all(fs.get(k) is not None and len(fs.get(k)[1]) == 1 for k in TOP_KEYS[1:2])
        if single:
            for k, vs in fs.items():
                if k not in d and len(vs[1]) == 1:
                    d[k] = vs
        out.append(Facts(d))
    return out


# Facts that cross function boundaries in the station analysis: variants and flags of the control state.
# (Dropping facts is always sound; this only bounds the number of contexts.)
DROP_FIELDS = {"token_ring", "last_bus_activity", "pending_bytes", "p", "last_token_time", "end_token_hold_time",
               "next_application", "collision_count", "rotation_count", "baudrate"}


def keep_key(k):
    if k[0] in ("cmp", "bin", "index", "cidx", "un", "cast", "len"):
        return False
    t = k[1] if k[0] == "discr" else k
    # only the place spine counts (field chain from the root), not arguments of calls inside the term
    while isinstance(t, tuple) and t and t[0] in ("field", "dc", "deref", "ref"):
        if t[0] == "field" and t[2] in DROP_FIELDS:
            return False
        t = t[1]
    return True


def keep_vs(vs):
    return all(isinstance(v, (str, bool)) for v in vs[1])


_cache = {}


def station_analysis(P):
    """returns (interproc engine, invariant (set of Facts), entry function objects)"""
    if id(P) in _cache:
        return _cache[id(P)]
    ip = Interproc(P, CR, keep_key=keep_key, max_disj=256)
    new = P.fn(CR, STATION + "::new")
    cx = ip.analyze(new, [Facts()])
    universe = {
        TOP_KEYS[0]: set(P.enum_variants(CR, "fdl::active::ConnectivityState")),
        TOP_KEYS[1]: set(P.enum_variants(CR, "fdl::active::State")),
        TOP_KEYS[2]: set(P.enum_variants(CR, "fdl::active::GapState")),
    }
    inv = set()
    for ex in cx.exits:
        # facts about the returned value become facts about *self
        tr = ip.translate(ex, {("local", 0, None): SELF}, lambda l: l == ("arg", "self"))
        if tr is not None:
            inv.update(atoms(project(tr), universe))
    muts = [P.fn(CR, STATION + "::" + n) for n in ("set_state", "poll_inner")]
    conn_vars = sorted(universe[TOP_KEYS[0]])
    work = list(inv)
    rounds = 0
    while work and rounds < 3000:
        rounds += 1
        e = work.pop()
        runs = []
        for f in muts:
            if f.name.endswith("::set_state"):
                # the requested connectivity state is an environment choice: one context per variant
                for v in conn_vars:
                    runs.append((f, e.add(("discr", ("arg", "state")), ("in", frozenset([v])))))
            else:
                runs.append((f, e))
        for f, ent in runs:
            r = ip.analyze(f, [ent])
            if r is None:
                continue
            for ex in r.exits:
                for p in atoms(project(ex), universe):
                    if p not in inv:
                        inv.add(p)
                        work.append(p)
    res = (ip, inv, muts)
    _cache[id(P)] = res
    return res


def fmt(fs):
    return "{" + "; ".join("%s∈%s" % (show(k), ",".join(sorted(map(str, v[1])))) for k, v in sorted(fs.items(), key=lambda kv: show(kv[0]))) + "}"
