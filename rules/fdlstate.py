"""Shared driver: global typestate invariant of FdlActiveStation and interprocedural contexts of poll().

The invariant is the least fixpoint of the constructor's state under every public `&mut self` method
(set_state / set_online / set_offline / set_passive / poll / poll_multi) with a fully non-deterministic
environment (PHY bytes, applications, time).  Elements are fact-sets over the *tracked cells*:
discriminants / flags of  self.state (and the fields of its variants),  self.connectivity_state,
self.gap_state.
"""
from analysis.interproc import Interproc, subst, leaves
from analysis.guards import Facts, join_all
from analysis.terms import path_str, show, field_path

CR = "profirust"
STATION = "fdl::active::FdlActiveStation"
SELF = ("deref", ("arg", "self"))
TRACK_FIELDS = ("state", "connectivity_state", "gap_state")


def tracked(k):
    t = k[1] if k[0] == "discr" else k
    fp = field_path(t)
    if fp is None or len(fp) < 2 or fp[0] != "self":
        return False
    return fp[1] in TRACK_FIELDS


def project(fs):
    return Facts({k: v for k, v in fs.items() if tracked(k) and v[0] == "in"})


_cache = {}


def station_analysis(P):
    """returns (interproc engine, invariant (set of Facts), entry function objects)"""
    if id(P) in _cache:
        return _cache[id(P)]
    ip = Interproc(P, CR)
    new = P.fn(CR, STATION + "::new")
    cx = ip.analyze(new, [Facts()])
    inv = set()
    for ex in cx.exits:
        # facts about the returned value become facts about *self
        tr = ip.translate(ex, {("local", 0, None): SELF}, lambda l: l == ("arg", "self"))
        if tr is not None:
            inv.add(project(tr))
    muts = [P.fn(CR, STATION + "::" + n) for n in ("set_state", "set_online", "set_offline", "poll_inner")]
    work = list(inv)
    rounds = 0
    while work and rounds < 400:
        rounds += 1
        e = work.pop()
        for f in muts:
            r = ip.analyze(f, [e])
            if r is None:
                continue
            for ex in r.exits:
                p = project(ex)
                if p not in inv:
                    inv.add(p)
                    work.append(p)
    res = (ip, inv, muts)
    _cache[id(P)] = res
    return res


def fmt(fs):
    return "{" + "; ".join("%s∈%s" % (show(k), ",".join(sorted(map(str, v[1])))) for k, v in sorted(fs.items(), key=lambda kv: show(kv[0]))) + "}"
