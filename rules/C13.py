"""C13  Token hold time is honoured and token rotation stays bounded.

Decides (guard structure and provenance of the hold-time deadline; single station):
 a  applications are offered a normal message cycle only while now < end_token_hold_time; after the
    deadline only one high-priority cycle, and only if this visit had no cycle yet; these are the only
    two ways an application is asked to transmit;
 b  whenever no transmission is started the token use ends with a pass request (with GAP maintenance);
 c  the deadline is previous token receipt + target rotation time (computed before the receipt time is
    updated, once per visit), reduced by a GAP-poll reserve only when a poll is due; receipt times are `now`
    at the three places a token is received; the rotation time derives from token_rotation_bits;
 e  at most one GAP poll per token visit (DoGap::Yes only from the end of the token use; shared with C12.c);
 d  the "one cycle per visit" flag starts false on every token receipt, is set before each application
    cycle and stays set when the token use resumes after a reply or time-out.
Does not decide: the rotation-time bound and non-starvation over a ring (sums of runtime durations).
"""
from analysis import rule
from analysis.guards import GuardAnalysis
from analysis.terms import TermBuilder, show, path_str, strip_refs, strip_casts, subterms, simplify
from analysis.query import call_sites, callee_is, stmts, has_field, constructions, return_terms
from analysis.callgraph import CallGraph
from analysis.ir import mk_place
from analysis import match as M
from rules import fdlstate
from rules.C11 import fdl_fns, states_of

PID = "C13"
CR = "profirust"
FCD = lambda k: (path_str(k) or "").endswith("<UseToken>.first_cycle_done")
DEADLINE = M.key_cmp("lt", M.t_path("now"), M.t_path("self.end_token_hold_time"))


def check(ctx):
    P = ctx.prog
    # "no application is starved": round-robin needs every application to end its cycle; the library's own sweeping applications
    # (LiveList, DpScanner) must mark the probed address done after every reply / time-out and advance only then (C18 c.sweep)
    from rules import C18
    rule.import_clauses(ctx, "C18", lambda s_: C18.check(s_), clauses=("c.sweep",), as_clause="e.cooperation")
    fns = fdl_fns(P)
    sites = []
    for f in fns:
        for b, c in call_sites(f, lambda c: callee_is(c, "apps_transmit_telegram")):
            sites.append((f, b, c))
    ctx.anchor("apps_transmit_telegram call sites", len(sites), 2)
    kinds = set()
    for f, b, c in sites:
        g = GuardAnalysis(f, P)
        hp = g.tb.joperand(c["args"][-1])
        kind = hp[2] if hp[0] == "agg" else "?"
        kinds.add(kind)
        S = g.at(b)
        if kind == "No":
            ok, w = M.all_disj(S, DEADLINE, {True})
            ctx.ob("a.hold-time", "normal-cycle-before-deadline", ok, "applications are offered a normal message cycle without `now < end_token_hold_time`: " + w, f.loc(b))
        elif kind == "Yes":
            ok1, w1 = M.all_disj(S, DEADLINE, {False})
            ok2, w2 = M.all_disj(S, FCD, {False})
            ctx.ob("a.hold-time", "high-prio-cycle-once", ok1 and ok2,
                   "the high-priority cycle after the deadline must be guarded by (deadline passed ∧ no cycle yet in this visit): %s %s" % (w1, w2), f.loc(b))
        else:
            ctx.ob("a.hold-time", "prio-arg", False, "apps_transmit_telegram called with a non-constant priority filter " + show(hp), f.loc(b))
    ctx.ob("a.hold-time", "both-kinds", kinds == {"No", "Yes"}, "expected one normal and one high-priority cycle site, found " + str(sorted(kinds)))
    # who may ask an application to transmit
    cg = CallGraph(P, CR)
    dyn_tx = [(f, b) for f in P.crate_fns(CR) if f.module.startswith("fdl") for b, c in call_sites(f) if c.get("via") == "dyn" and callee_is(c, "fdl::FdlApplication::transmit_telegram")]
    ctx.anchor("dyn FdlApplication::transmit_telegram call sites", len(dyn_tx), 1)
    for f, b in dyn_tx:
        # the enclosing non-closure function must be reached only through apps_transmit_telegram
        top = f
        while top.kind == "closure":
            top = P.get(CR, top.parent)
        callers = [g_.name for g_ in P.crate_fns(CR) if top.name in cg.edges.get(g_.name, ()) and g_.name != top.name and not g_.name.startswith(top.name)]
        ok = all(c.endswith("::apps_transmit_telegram") for c in callers) and callers
        ctx.ob("a.hold-time", "only-via-hold-time-gate|%s" % top.name, bool(ok), "applications can be asked to transmit from %s (must only be through the two hold-time-gated sites)" % callers, f.loc(b))
    # ---------------- b / c / d in the token-use function -----------------------------------------
    users = {f.name: f for f, b, c in sites}
    for f in users.values():
        ctx.analysed_fns.add(f.name)
        tb = TermBuilder(f, P)
        marks = {}
        for b, c in call_sites(f, lambda c: callee_is(c, "fdl::active::State::transition_pass_token")):
            marks[(b, None)] = "pass"
            args = [tb.joperand(a) for a in c["args"]]
            ok = args[1][0] == "agg" and args[1][2] == "Yes" and args[2][0] == "agg" and args[2][2] == "First"
            ctx.ob("b.pass", "pass-args", ok, "the token use must end with a pass request (DoGap::Yes, first attempt), found %s" % [show(a) for a in args[1:]], f.loc(b))
        for b, i, s in stmts(f):
            if "a" in s and has_field(s["a"], "last_token_time", "Instant") and len([e for e in s["a"]["p"] if isinstance(e, dict)]) == 1:
                marks[(b, i)] = "ltt"
        g = GuardAnalysis(f, P, marks=marks)
        is_apps = lambda k: k[0] == "discr" and strip_refs(k[1])[0] == "call" and M.callee_matches(strip_refs(k[1])[1], "apps_transmit_telegram")
        bad = []
        for rb in f.return_blocks:
            for fs in g.at(rb):
                started = any(is_apps(k) and vs == ("in", frozenset(["Some"])) for k, vs in fs.items())
                waiting = any(k[0] == "discr" and "wait_synchronization_pause" in show(k) and vs == ("in", frozenset(["Some"])) for k, vs in fs.items())
                if not started and not waiting and g.count_of(fs, "pass") != {1}:
                    bad.append(M.fmt_facts(fs)[:300])
        ctx.ob("b.pass", "pass-when-idle|%s" % f.name, not bad, "the token use returns without a transmission and without requesting the token pass: " + "; ".join(bad[:2]), f.loc(0))
        # d: flag set before each application cycle
        for fb, b, c in [s for s in sites if s[0] is f]:
            gm = GuardAnalysis(f, P, mem_kill=True)
            ok, w = M.all_disj(gm.at(b), FCD, {True})
            ctx.ob("d.flag", "set-before-cycle#%s" % show(tb.joperand(c["args"][-1])), ok, "an application cycle starts without marking the visit's guaranteed cycle as used: " + w, f.loc(b))
    check_deadline(ctx, P, fns)
    # receipt times
    n = 0
    for f in fns:
        tb = None
        for b, c in call_sites(f, lambda c: callee_is(c, "fdl::active::UseTokenData::with_token_time")):
            tb = tb or TermBuilder(f, P)
            n += 1
            a = tb.joperand(c["args"][0])
            ctx.ob("c.deadline", "receipt-is-now|%s|%d" % (f.name, n), path_str(a) == "now", "a token receipt is stamped with %s instead of the current time" % show(a), f.loc(b))
    ctx.anchor("token receipt sites (UseTokenData::with_token_time)", n, 3)
    for c in constructions(P, CR, "fdl::active::UseTokenData"):
        f = c["fn"]
        if f.j.get("derived"):
            continue
        tb = TermBuilder(f, P)
        vals = {nm: tb.joperand(o) for nm, o in zip(c["rv"]["fnames"], c["rv"]["fields"])}
        ctx.ob("c.deadline", "token-data-init|%s" % f.name, path_str(vals.get("token_time")) == "token_time" and vals.get("first_app", ("?",))[0] == "agg" and vals["first_app"][2] == "None",
               "UseTokenData must be created with the given receipt time and no first application yet, found %s" % {k: show(v) for k, v in vals.items()}, f.loc(c["b"], c["i"]))
    trt = ctx.need_fn(CR, "fdl::parameters::Parameters::token_rotation_time")
    if trt is not None:
        tb = TermBuilder(trt, P)
        rets = [show(t) for b, i, t in return_terms(trt, tb)]
        ctx.ob("c.deadline", "ttr-source", any("token_rotation_bits" in r and "bits_to_time" in r for r in rets), "token_rotation_time must be bits_to_time(token_rotation_bits), found %s" % rets, trt.loc(0))
    # d: flag initial value and after resuming
    for c in constructions(P, CR, "fdl::active::State", "UseToken"):
        f = c["fn"]
        tb = TermBuilder(f, P)
        v = tb.joperand(c["rv"]["fields"][c["rv"]["fnames"].index("first_cycle_done")])
        ctx.ob("d.flag", "starts-false|%s" % f.name, v == ("const", False), "UseToken must be entered with first_cycle_done = false, found " + show(v), f.loc(c["b"], c["i"]))
    check_resume_flag(ctx, P)


def check_resume_flag(ctx, P):
    fns = fdl_fns(P)
    for f in fns:
        resume = [(b, c) for b, c in call_sites(f, lambda c: callee_is(c, "fdl::active::State::transition_use_token"))]
        if not resume or f.kind == "closure":
            continue
        tb = TermBuilder(f, P)
        resume = [(b, c) for b, c in resume if "AwaitDataResponse" in (path_str(strip_refs(tb.joperand(c["args"][1]))) or "")]
        if not resume:
            continue
        marks = {(b, None): "resume" for b, c in resume}
        for b, c in call_sites(f, lambda c: callee_is(c, "do_use_token")):
            marks[(b, None)] = "usecall"
        gm = GuardAnalysis(f, P, mem_kill=True, marks=marks)
        bad = []
        pts = [(rb, None) for rb in f.return_blocks] + [(b, None) for b, c in call_sites(f, lambda c: callee_is(c, "do_use_token"))]
        for b, i in pts:
            for fs in gm.at(b, i):
                if gm.count_of(fs, "usecall") != {0}:
                    continue  # the token use already continued (checked at that call site)
                if gm.count_of(fs, "resume") != {0}:
                    v = [vs for k, vs in fs.items() if FCD(k)]
                    if not v or v[0] != ("in", frozenset([True])):
                        bad.append(M.fmt_facts(fs)[:250])
        ctx.ob("d.flag", "stays-set-after-resume|%s" % f.name, not bad,
               "the token use is resumed after a reply / time-out without keeping the visit's cycle marked as used (every reply would grant another cycle after the deadline): " + "; ".join(bad[:2]), f.loc(resume[0][0]))
        ctx.anchor("resume sites (transition_use_token with carried data) in " + f.name.split("::")[-1], len(resume), 2)


def check_all(ctx):
    check(ctx)
    # e: at most one GAP poll per token visit (shared with C12.c) – the visit's length stays bounded
    from rules import C12
    C12.check_typestate(ctx, ctx.prog)


def check_deadline(ctx, P, fns):
    """c.deadline, evaluated wherever the deadline is stored (the token-use handler or a helper it calls)"""
    nde = 0
    for f in fns:
        has = any("a" in s and has_field(s["a"], "end_token_hold_time", "Instant") for b, i, s in stmts(f)) or \
            any(True for b, c in call_sites(f, lambda c: (c.get("callee") or "").endswith("SubAssign<time::Duration>>::sub_assign")))
        if not has:
            continue
        ctx.analysed_fns.add(f.name)
        tb = TermBuilder(f, P)
        marks = {}
        for b, i, s in stmts(f):
            if "a" in s and has_field(s["a"], "last_token_time", "Instant") and len([e for e in s["a"]["p"] if isinstance(e, dict)]) == 1:
                marks[(b, i)] = "ltt"
        g = GuardAnalysis(f, P, marks=marks)
        for b, i, s in stmts(f):
            if "a" in s and has_field(s["a"], "end_token_hold_time", "Instant") and len([e for e in s["a"]["p"] if isinstance(e, dict)]) == 1:
                nde += 1
                v = simplify(tb.rvalue(s["rv"]))
                sv = show(v)
                ok_v = "self.last_token_time" in sv and "token_rotation_time" in sv and strip_refs(v)[0] == "call" and strip_refs(v)[1].endswith("::add")
                S = g.at(b, i)
                fresh = all(g.count_of(fs, "ltt") == {0} for fs in S)
                ok_g, w = M.all_disj(S, M.key_cmp("eq", M.t_path("self.last_token_time"), lambda t: (path_str(t) or "").endswith("data.token_time")), {False})
                ctx.ob("c.deadline", "deadline-value", ok_v and fresh and ok_g,
                       "end_token_hold_time must be (previous token receipt + target rotation time), computed before the receipt time is updated and once per visit; found %s; receipt already updated: %s; %s" % (sv, not fresh, w), f.loc(b, i))
        for b, c in call_sites(f, lambda c: (c.get("callee") or "").endswith("SubAssign<time::Duration>>::sub_assign")):
            a0 = path_str(strip_refs(tb.joperand(c["args"][0]))) or ""
            if a0 == "self.end_token_hold_time":
                ok, w = M.all_disj(g.at(b), lambda k: k == ("discr", ("field", fdlstate.SELF, "gap_state")), {"DoPoll"})
                ctx.ob("c.deadline", "gap-reserve-only-when-polling", ok, "the GAP-poll reserve is subtracted from the hold time although no poll is due: " + w, f.loc(b))
        for b, i, s in stmts(f):
            if (b, i) in marks and marks[(b, i)] == "ltt":
                v = tb.rvalue(s["rv"])
                ctx.ob("c.deadline", "receipt-time-source", (path_str(strip_casts(v)) or "").endswith("data.token_time"), "last_token_time must be the visit's token receipt time, found " + show(v), f.loc(b, i))
    ctx.anchor("stores of end_token_hold_time", nde, 1)


if __name__ == "__main__":
    rule.run(PID, check_all, level="other",
             explanation="Hold-time guard structure of the token-use function, deadline provenance (value terms, store order via counters), "
                         "first-cycle flag discipline (current-state facts), and who-may-call check for application transmit requests.",
             trusted_base=["rustc MIR (nightly) as extracted by engines/mirfacts"],
             thorough_configs=("no_default", "alloc"))
