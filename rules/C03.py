"""C03  A peripheral enters data exchange only after a complete, correct bring-up.

Decides (for every reply/loss/fault history of one peripheral):
 a  ordering as a typestate over `Peripheral.state`: every store to the field is an edge
    pre-state -> post-state (pre-states from current-state facts, mem-kill mode); no edge raises
    the rank Offline<WaitForParam<WaitForConfig<ValidateConfig<PreDataExchange<DataExchange by
    more than one; each rank-raising edge carries its acknowledgement guard (diagnostics reply
    accepted / short confirmation / readiness flags by their PROFIBUS bit values);
    whole-object construction starts Offline; re-addressing (a write to `address`) resets to Offline;
 b  request kind per state: which SAPs / service each state sends, Data_Exchange only in
    rank >= PreDataExchange; da = peripheral address, sa = own address;
 c  Set_Prm / Chk_Cfg writer tables against the DP-V0 octet layout, each optional bit written
    exactly when its option is set (mark counters at the closure exits).
Does not decide: the watchdog factor search arithmetic, interaction of several peripherals.
"""
import json
import os

from analysis import rule
from analysis.inline import expand as inline_expand
from analysis.guards import GuardAnalysis
from analysis.terms import TermBuilder, show, path_str, strip_refs, strip_casts, subterms
from analysis.query import (call_sites, callee_is, mut_uses_of_field, stmts, has_field, constructions,
                            whole_object_writes)
from analysis.bufwrites import buffer_writes, fmt_index
from analysis.ir import mk_place
from analysis import match as M

PID = "C03"
CR = "profirust"
RANK = {"Offline": 0, "WaitForParam": 1, "WaitForConfig": 2, "ValidateConfig": 3, "PreDataExchange": 4, "DataExchange": 5}
SPEC = json.load(open(os.path.join(os.path.dirname(__file__), "spec_tables.json")))
DIAG = SPEC["slave_diag"]
SAP = SPEC["sap"]


def state_sets(S, g):
    """per fact-set: (pre variants | None)"""
    out = []
    for fs in S:
        pre = None
        for k, vs in fs.items():
            if k[0] == "discr" and path_str(k[1]) == "self.state" and vs[0] == "in":
                pre = set(vs[1])
        out.append((fs, pre))
    return out


def is_diag_accept(k):
    return k[0] == "discr" and strip_refs(k[1])[0] == "call" and M.callee_matches(strip_refs(k[1])[1], "handle_diagnostics_response")


def flag_test(bits):
    """key predicate: contains(<flags of the accepted diagnostics>, const bits)"""
    def m(k):
        if k[0] != "call" or not k[1].endswith("::contains") or len(k[2]) != 2:
            return False
        if not M.mentions(k[2][0], M.t_call("handle_diagnostics_response")):
            return False
        consts = [s[1] for s in subterms(k[2][1]) if isinstance(s, tuple) and s and s[0] == "const" and isinstance(s[1], int)]
        return consts == [bits]
    return m


def extract_state_edges(ctx, P):
    """abstract edges of `Peripheral.state`: one record per (store, path class): pre/post variant sets + the path-class facts"""
    uses = mut_uses_of_field(P, CR, "state", "PeripheralState")
    edges = []
    per_fn = {}
    for u in uses:
        per_fn.setdefault(u["fn"].name, []).append(u)
    nstores = 0
    for fname, us in sorted(per_fn.items()):
        # a decision table split off into a private single-call-site helper is read as part of the storing function
        f = inline_expand(P, us[0]["fn"])
        ctx.analysed_fns.add(f.name)
        g = GuardAnalysis(f, P, mem_kill=True)
        n = 0
        for u in sorted(us, key=lambda u: (u["b"], u["i"] if u["i"] is not None else 10**6)):
            loc = f.loc(u["b"], u["i"])
            if u["kind"] != "assign":
                ctx.ob("a.who-writes", "state-mut|%s|%s" % (f.name, u["kind"]), False,
                       "`Peripheral.state` is mutated other than by a direct store (%s) – the typestate extraction cannot follow it" % u["kind"], loc)
                continue
            nstores += 1
            S = g.at(u["b"], u["i"])
            S2 = g.stmt_transfer(S, u["b"], u["i"])
            # pair pre/post per path class: re-run transfer per fact-set
            for fs, pre in state_sets(S, g):
                after = g.stmt_transfer(frozenset([fs]), u["b"], u["i"])
                post = None
                for fs2 in after:
                    for k, vs in fs2.items():
                        if k[0] == "discr" and path_str(k[1]) == "self.state" and vs[0] == "in":
                            post = set(vs[1])
                edges.append(dict(fn=f, loc=loc, pre=pre, post=post, facts=fs, n=n))
            n += 1
    return edges, nstores


def check(ctx):
    P = ctx.prog
    ms = None
    # ---------------- a: edges of Peripheral.state ------------------------------------------------
    edges, nstores = extract_state_edges(ctx, P)
    ctx.anchor("direct stores to Peripheral.state", nstores, 7)
    raising = 0
    seen_edge_keys = {}
    for e in edges:
        f = e["fn"]
        if e["pre"] is None and e["post"] is not None:
            e["pre"] = set(RANK)  # no constraint on the current state: any state
        if e["pre"] is None or e["post"] is None:
            ctx.ob("a.edges", "edge-unknown|%s|%d" % (f.name, e["n"]), False,
                   "store to Peripheral.state whose pre- or post-state is not determined on a path class (pre=%s post=%s): %s" % (
                       e["pre"], e["post"], M.fmt_facts(e["facts"])), e["loc"])
            continue
        for post in sorted(e["post"]):
            for pre in sorted(e["pre"]):
                rise = RANK[post] - RANK[pre]
                ek = "%s->%s" % (pre, post)
                key = "edge|%s|%s" % (f.name, ek)
                if rise <= 0:
                    ctx.ob("a.edges", key, True, "non-raising edge " + ek, e["loc"])
                    continue
                if rise > 1:
                    ctx.ob("a.edges", key, False,
                           "bring-up step skipped: edge %s raises the rank by %d on path class %s" % (ek, rise, M.fmt_facts(e["facts"])), e["loc"])
                    continue
                raising += 1
                one = frozenset([e["facts"]])
                need = []
                if RANK[post] == 1:
                    need = [("diagnostics reply accepted", is_diag_accept, {"Some"})]
                elif RANK[post] in (2, 3):
                    need = [("reply is a short confirmation", M.key_discr("telegram"), {"ShortConfirmation"})]
                elif RANK[post] == 4:
                    need = [("diagnostics reply accepted", is_diag_accept, {"Some"}),
                            ("Prm_Fault (0x40) clear", flag_test(DIAG["prm_fault"]), {False}),
                            ("Cfg_Fault (0x04) clear", flag_test(DIAG["cfg_fault"]), {False}),
                            ("Prm_Req (0x0100) clear", flag_test(DIAG["prm_req"]), {False}),
                            ("Station_Not_Ready (0x02) clear", flag_test(DIAG["station_not_ready"]), {False})]
                elif RANK[post] == 5:
                    # a data reply accepted (kind Data + length equality: C04 has the full list) or SC with empty input image
                    kinds = [vs for k, vs in e["facts"].items() if k[0] == "discr" and path_str(k[1]) == "telegram"]
                    if kinds and kinds[0] == ("in", frozenset(["ShortConfirmation"])):
                        need = [("SC only for an empty input image", M.key_cmp("eq", M.t_const(0), M.t_len_of("self.pi_i")), {True})]
                    else:
                        need = [("reply kind Data", M.key_discr("telegram"), {"Data"}),
                                ("len(pdu) == len(pi_i)", M.key_cmp("eq", M.t_len_of("self.pi_i"), lambda t: t[0] == "len"), {True})]
                missing = []
                for what, kp, allowed in need:
                    ok, w = M.all_disj(one, kp, allowed)
                    if not ok:
                        missing.append(what)
                ctx.ob("a.edges", key + "|guards" + ("" if not missing else ":" + ",".join(missing)), not missing,
                       "rank-raising edge %s without its acknowledgement guard(s): %s; path class %s" % (ek, ", ".join(missing), M.fmt_facts(e["facts"])), e["loc"])
                ctx.sample({"edge": ek, "site": e["loc"], "facts": M.fmt_facts(e["facts"])})
    ctx.anchor("rank-raising edges of the peripheral state machine", raising, 5)
    # every rank must be enterable only through rank-1 (completeness of the chain): targets reached
    reached = {RANK[p] for e in edges if e["post"] for p in e["post"]}
    ctx.ob("a.edges", "all-ranks-reachable", reached >= {1, 2, 3, 4, 5}, "state machine lost a bring-up state: ranks entered = %s" % sorted(reached))

    # whole-object constructions start Offline
    ncons = 0
    for c in constructions(P, CR, "dp::peripheral::Peripheral"):
        f = c["fn"]
        ncons += 1
        tb = TermBuilder(f, P)
        names = c["rv"]["fnames"]
        idx = names.index("state") if "state" in names else None
        val = tb.joperand(c["rv"]["fields"][idx]) if idx is not None else None
        ok = val is not None and initial_is_offline(P, val)
        ctx.ob("a.init", "construct|%s" % f.name, ok, "a Peripheral is constructed with a state other than Offline: %s" % (show(val) if val else "?"), f.loc(c["b"], c["i"]))
    ctx.anchor("aggregate constructions of Peripheral", ncons, 1)
    # re-addressing resets the state machine
    for u in mut_uses_of_field(P, CR, "address", None):
        f = u["fn"]
        fields = [x for x in u["place"].get("p", []) if isinstance(x, dict) and "f" in x]
        if not fields or fields[-1]["f"] != "address" or f.module != "dp::peripheral":
            continue
        if not f.locals[u["place"]["l"]]["ty"].startswith("&mut dp::peripheral::Peripheral"):
            continue
        g = GuardAnalysis(f, P, mem_kill=True)
        bad = []
        for rb in f.return_blocks:
            for fs in g.at(rb):
                st = [vs for k, vs in fs.items() if k[0] == "discr" and path_str(k[1]) == "self.state"]
                if not st or st[0] != ("in", frozenset(["Offline"])):
                    bad.append(M.fmt_facts(fs))
        ctx.ob("a.readdress", "address-write|%s" % f.name, not bad,
               "the peripheral's address is changed in place without resetting the bring-up state to Offline on every path: " + "; ".join(bad[:2]), f.loc(u["b"], u["i"]))

    check_reset_address(ctx, P)
    check_watchdog_factors(ctx, P)
    # replies are attributed to the polled peripheral only if they come from it: the FDL admission filter (C04 c.fdl-admission)
    from rules import C04
    rule.import_clauses(ctx, "C04", lambda s_: C04.check_fdl_admission(s_, P), as_clause="a.edges")
    check_fresh_diagnostics(ctx, P)
    # ---------------- b: request kind per state --------------------------------------------------
    check_requests(ctx, P)
    # ---------------- c: Set_Prm / Chk_Cfg layout -------------------------------------------------
    check_layout(ctx, P)
    check_pdu_zero_fill(ctx, P)


def check_pdu_zero_fill(ctx, P):
    """c.set_prm / c.zero-fill: the Set_Prm builder ORs bits into octet 0 and leaves the watchdog octets alone when no watchdog is
    configured (and the Data_Exchange builder writes nothing in Clear): every PDU builder closure relies on receiving an all-zero
    buffer.  The function that calls the `FnOnce(&mut [u8])` builder must zero-fill exactly the slice it hands over, on every path."""
    n = 0
    for f in P.crate_fns(CR):
        if f.module != "fdl::telegram" or f.kind == "promoted":
            continue
        sites = [(b, c) for b, c in call_sites(f) if (c.get("callee") or "").endswith("FnOnce::call_once")]
        if not sites:
            continue
        tb = TermBuilder(f, P)
        for b, c in sites:
            arg = tb.joperand(c["args"][1]) if len(c["args"]) == 2 else None
            sl = [x for x in subterms(arg) if isinstance(x, tuple) and x and x[0] == "call" and x[1].endswith("index_mut")] if arg else []
            if not sl or "u8" not in show(tb.joperand(c["args"][0])) + "".join(l["ty"] for l in f.locals if "FnOnce" in l["ty"] or "u8" in l["ty"]):
                continue
            n += 1
            marks = {}
            for b2, c2 in call_sites(f):
                if (c2.get("callee") or "").endswith("::fill") and len(c2["args"]) == 2 and strip_casts(tb.joperand(c2["args"][1])) == ("const", 0) \
                        and tb.joperand(c2["args"][0]) == sl[0]:
                    marks[(b2, None)] = "zf"
            g = GuardAnalysis(f, P, marks=marks)
            bad = [M.fmt_facts(fs) for fs in g.at(b) if 0 in g.count_of(fs, "zf")]
            ctx.ob("c.set_prm", "pdu-zero-filled|%s" % f.name, bool(marks) and not bad,
                   "the PDU builder closure is handed a buffer region that was not zero-filled (%s): builders that OR flags into an octet or "
                   "skip optional octets (Set_Prm status / watchdog octets, Data_Exchange in Clear) transmit stale bytes of the transmit buffer" % (
                       "no fill(0) of that slice" if not marks else "; ".join(bad[:2])), f.loc(b))
    ctx.anchor("PDU builder call sites (FnOnce(&mut [u8]) handed a sub-slice)", n, 1)


def check_reset_address(ctx, P):
    """a.readdress: Peripheral::reset_address() restarts the bring-up on *every* path (also when the new address equals the old one:
    the documented purpose is a new parameterisation): each return is preceded by the whole-object replacement."""
    f = None
    for g_ in P.crate_fns(CR):
        if g_.module == "dp::peripheral" and g_.name.endswith("::reset_address"):
            f = g_
    if f is None:
        ctx.notes.append("a.readdress: Peripheral::reset_address not found - not decided")
        return
    marks = {}
    for b, i, s in stmts(f):
        if "a" in s and mk_place(s["a"]) == (1, (("deref",),)):
            marks[(b, i)] = "whole"
    for b, c in call_sites(f):
        if mk_place(c["dest"]) == (1, (("deref",),)):
            marks[(b, None)] = "whole"
    g = GuardAnalysis(f, P, marks=marks)
    bad = [f.loc(rb) for rb in f.return_blocks for fs in g.at(rb) if 0 in g.count_of(fs, "whole")]
    ctx.ob("a.readdress", "reset-on-every-path", bool(marks) and not bad,
           "Peripheral::reset_address can return without re-creating the peripheral (no new bring-up): %s" % sorted(set(bad))[:2], f.loc(0))


def check_watchdog_factors(ctx, P):
    """c.set_prm (watchdog): the two factors written into Set_Prm must not under-run the configured time-out: the second factor is the
    rounded-up quotient.  Decided only for the recognised shape (quotient of the 10 ms count by the first factor)."""
    cands = [f for f in P.crate_fns(CR) if f.module == "fdl::parameters" and "watchdog_factors" in f.name]
    found = False
    for f in cands:
        tb = TermBuilder(f, P)
        for b, c in call_sites(f):
            cal = c.get("callee") or ""
            if cal.endswith("::div_ceil"):
                found = True
                ctx.ob("c.set_prm", "watchdog-rounds-up", True, "", f.loc(b))
        for b, i, s in stmts(f):
            if "a" in s and s["rv"].get("bin") == "Div":
                a, d = show(tb.joperand(s["rv"]["a"])), show(tb.joperand(s["rv"]["b"]))
                if d == "10":
                    continue  # the conversion of the duration into 10 ms units
                found = True
                ctx.ob("c.set_prm", "watchdog-rounds-up", False,
                       "the second watchdog factor is the truncated quotient %s / %s: the watchdog programmed into the peripheral can be shorter than "
                       "the configured time-out" % (a[:40], d[:20]), f.loc(b, i))
    if not found:
        ctx.notes.append("c.set_prm watchdog factors: computation not in the recognised shape - not decided")


def check_fresh_diagnostics(ctx, P):
    """a.edges (freshness): the acknowledgement guards of the bring-up edges read the value returned by handle_diagnostics_response.
    That value must describe *this* reply: every path returning something other than `None` stores the diagnostics decoded from the
    telegram in this call (otherwise a short confirmation / foreign reply would be taken for an earlier diagnostics reply)."""
    f = None
    for g_ in P.crate_fns(CR):
        if g_.name.endswith("::handle_diagnostics_response") and g_.module == "dp::peripheral":
            f = g_
    if f is None:
        ctx.ob("anchor", "fn:handle_diagnostics_response", False, "Peripheral::handle_diagnostics_response not found")
        return
    ctx.analysed_fns.add(f.name)
    tb = TermBuilder(f, P)
    marks = {}
    nstore = 0
    for b, i, s in stmts(f):
        if "a" not in s:
            continue
        if has_field(s["a"], "diag"):
            sv = tb.rvalue(s["rv"])
            if sv[0] == "agg" and sv[2] == "Some":
                marks[(b, i)] = "store"
                nstore += 1
        if mk_place(s["a"]) == (0, ()):
            v = tb.rvalue(s["rv"])
            if not (v[0] == "agg" and v[2] == "None"):
                marks[(b, i)] = "retsome"
    for b, c in call_sites(f):
        cal = c.get("callee") or ""
        # `self.diag.insert(v)` / `.replace(v)` store Some(v) (core::option): the same store, and `insert` hands back the reference
        if (cal.endswith("option::Option::<T>::insert") or cal.endswith("option::Option::<T>::replace")) and len(c["args"]) == 2:
            a0 = strip_refs(tb.joperand(c["args"][0]))
            if (path_str(a0) or "").endswith("self.diag"):
                marks[(b, None)] = "store+retsome" if mk_place(c["dest"]) == (0, ()) else "store"
                nstore += 1
                continue
        if mk_place(c["dest"]) == (0, ()):
            marks[(b, None)] = "retsome"
    ctx.anchor("stores of the decoded diagnostics in handle_diagnostics_response", nstore, 1)
    g = GuardAnalysis(f, P, marks=marks)
    bad = []
    for rb in f.return_blocks:
        for fs in g.at(rb):
            if g.count_of(fs, "retsome") != {0} and 0 in g.count_of(fs, "store"):
                bad.append(M.fmt_facts(fs)[:200])
    ctx.ob("a.edges", "diagnostics-fresh", not bad,
           "handle_diagnostics_response can return diagnostics that were not decoded from this reply (e.g. for a short confirmation): the "
           "bring-up guards would be evaluated on stale data: %s" % "; ".join(bad[:1]), f.loc(0))


def initial_is_offline(P, val):
    """value of the `state` field in a constructor: literal Offline, or Default::default() of PeripheralState
    whose derived body returns Offline, or copied from another Peripheral's Default (..Default::default())."""
    val = strip_refs(val)
    if val[0] == "agg" and val[2] == "Offline":
        return True
    if val[0] == "call" and "default" in val[1]:
        f = P.get(CR, val[1])
        if f is not None:
            tb = TermBuilder(f, P)
            rets = [tb.rvalue(s["rv"]) for _, _, s in stmts(f) if "a" in s and mk_place(s["a"]) == (0, ())]
            return bool(rets) and all(r[0] == "agg" and r[2] == "Offline" for r in rets)
    if val[0] == "field" and val[2] == "state":
        # `..Default::default()` : field taken from <Peripheral as Default>::default()
        base = strip_refs(val[1])
        if base[0] == "call" and "default" in base[1]:
            f = P.get(CR, base[1])
            if f is not None:
                tb = TermBuilder(f, P)
                for c in constructions(P, CR, "dp::peripheral::Peripheral"):
                    if c["fn"] is f:
                        names = c["rv"]["fnames"]
                        return initial_is_offline(P, tb.joperand(c["rv"]["fields"][names.index("state")]))
    return False


def header_of(tb, c):
    h = tb.joperand(c["args"][1])
    if h[0] == "agg" and str(h[1]).endswith("DataTelegramHeader"):
        return h[3]  # da, sa, dsap, ssap, fc
    return None


def sap_val(t):
    if t[0] == "agg" and t[2] == "None":
        return None
    if t[0] == "agg" and t[2] == "Some" and t[3] and t[3][0][0] == "const":
        return t[3][0][1]
    return "?"


def fc_kind(P, t):
    """('SrdLow'|'SrdHigh'|..., fcb term) from FunctionCode::new_srd_*(fcb) or a literal aggregate"""
    t = strip_refs(t)
    if t[0] == "call":
        f = P.get(CR, t[1])
        if f is not None:
            tb = TermBuilder(f, P)
            for _, _, s in stmts(f):
                if "a" in s and mk_place(s["a"]) == (0, ()):
                    r = tb.rvalue(s["rv"])
                    if r[0] == "agg" and r[2] == "Request":
                        req = r[3][1]
                        return (req[2] if req[0] == "agg" else "?"), t[2][0] if t[2] else None
    if t[0] == "agg" and t[2] == "Request":
        return (t[3][1][2] if t[3][1][0] == "agg" else "?"), t[3][0]
    return "?", None


def is_own_address(sa):
    """`fdl.parameters().address` – through the accessor or (accessor inlined) as the path <fdl>.p.address"""
    sa = strip_casts(sa)
    p = path_str(sa)
    if p is not None:
        return p.endswith(".p.address") and p.count(".") == 2 and not p.startswith("self.")
    return sa[0] == "field" and sa[2] == "address" and M.mentions(sa, M.t_call("parameters"))


def check_requests(ctx, P):
    # the diagnostics request helper
    diag_fns = []
    sends = []
    for f in P.crate_fns(CR):
        if f.module != "dp::peripheral" or f.kind == "promoted":
            continue
        for b, c in call_sites(f, lambda c: callee_is(c, "fdl::telegram::TelegramTx::send_data_telegram")):
            sends.append((f, b, c))
    ctx.anchor("send_data_telegram sites in dp::peripheral", len(sends), 4)
    table = {}  # state -> set of (dsap, ssap, req)
    for f, b, c in sends:
        ctx.analysed_fns.add(f.name)
        tb = TermBuilder(f, P)
        h = header_of(tb, c)
        loc = f.loc(b)
        if h is None:
            ctx.ob("b.requests", "header|%s" % f.name, False, "send_data_telegram with a header I cannot read: " + show(tb.joperand(c["args"][1])), loc)
            continue
        da, sa, dsap, ssap, fc = h
        req, fcb = fc_kind(P, fc)
        kind = (sap_val(dsap), sap_val(ssap), req)
        ok_da = path_str(strip_casts(da)) == "self.address"
        ok_sa = is_own_address(sa)
        ctx.ob("b.requests", "da|%s|%s" % (f.name, kind), ok_da, "request not addressed to the peripheral's own address: da = " + show(da), loc)
        ctx.ob("b.requests", "sa|%s|%s" % (f.name, kind), ok_sa, "request source is not this station's address: sa = " + show(sa), loc)
        ctx.ob("b.requests", "fcb|%s|%s" % (f.name, kind), fcb is not None and path_str(fcb) == "self.fcb",
               "acknowledged request does not carry the peripheral's frame count bit: " + (show(fcb) if fcb else "?"), loc)
        # states in which this send happens
        if f.name.endswith("send_diagnostics_request"):
            diag_fns.append((f, kind))
            continue
        g = GuardAnalysis(f, P)
        for fs in g.at(b):
            st = [vs for k, vs in fs.items() if k[0] == "discr" and path_str(k[1]) == "self.state"]
            states = st[0][1] if st and st[0][0] == "in" else {"?"}
            for s_ in states:
                table.setdefault(s_, set()).add(kind)
    # call sites of the diagnostics helper
    for df, kind in diag_fns:
        ctx.ob("b.requests", "diag-kind", kind == (SAP["slave_diag"], SAP["master_ms0"], "SrdLow"),
               "diagnostics request must be SRD-low to DSAP 60 from SSAP 62, found %s" % (kind,), df.loc(0))
        for f in P.crate_fns(CR):
            if f.module != "dp::peripheral":
                continue
            sites = list(call_sites(f, lambda c: callee_is(c, df.name)))
            if not sites:
                continue
            g = GuardAnalysis(f, P)
            for b, c in sites:
                for fs in g.at(b):
                    st = [vs for k, vs in fs.items() if k[0] == "discr" and path_str(k[1]) == "self.state"]
                    states = st[0][1] if st and st[0][0] == "in" else {"?"}
                    # "diagnostics selected": the request-side service selector (C04/C08) has the value opposite
                    # to the one under which Data_Exchange is sent
                    from rules import C04
                    sel = C04.service_selection_facts(ctx, P)
                    dn = bool(sel) and all(fs.get(kk) is not None and fs.get(kk)[0] == "in" and not (fs.get(kk)[1] & vs[1]) for kk, vs in sel)
                    for s_ in states:
                        table.setdefault(s_, set()).add(kind + (("diag-selected",) if dn else ()))
    want = {
        "Offline": {(SAP["slave_diag"], SAP["master_ms0"], "SrdLow")},
        "WaitForParam": {(SAP["set_prm"], SAP["master_ms0"], "SrdLow")},
        "WaitForConfig": {(SAP["chk_cfg"], SAP["master_ms0"], "SrdLow")},
        "ValidateConfig": {(SAP["slave_diag"], SAP["master_ms0"], "SrdLow")},
        "PreDataExchange": {(None, None, "SrdHigh"), (SAP["slave_diag"], SAP["master_ms0"], "SrdLow", "diag-selected")},
        "DataExchange": {(None, None, "SrdHigh"), (SAP["slave_diag"], SAP["master_ms0"], "SrdLow", "diag-selected")},
    }
    for st in sorted(set(want) | set(table)):
        got = table.get(st, set())
        ctx.ob("b.requests", "table|%s" % st, got == want.get(st),
               "in state %s the master sends %s but the bring-up sequence requires %s (dsap, ssap, service)" % (st, sorted(map(str, got)), sorted(map(str, want.get(st, set())))))
        ctx.sample({"state": st, "requests": sorted(map(str, got))})


def is_arg_buf(t):
    from analysis.terms import field_path
    fp = field_path(t)
    return fp is not None and len(fp) == 1 and t[0] != "upvar" and (t[0] == "arg" or (t[0] == "deref" and t[1][0] == "arg"))


def closure_of(P, tb, c, argidx):
    clo = tb.joperand(c["args"][argidx])
    if clo[0] == "agg" and str(clo[1]).startswith("closure:"):
        return P.get(CR, clo[1][len("closure:"):]), clo
    return None, clo


def upvar_map(cf, clo):
    return {cf.upvars.get(i, i): strip_refs(t) for i, t in enumerate(clo[3])}


def check_layout(ctx, P):
    f = None
    for fn in P.crate_fns(CR):
        if fn.module == "dp::peripheral" and fn.kind != "closure" and fn.kind != "promoted":
            for b, c in call_sites(fn, lambda c: callee_is(c, "fdl::telegram::TelegramTx::send_data_telegram")):
                tb = TermBuilder(fn, P)
                h = header_of(tb, c)
                if h is None:
                    continue
                d = sap_val(h[2])
                if d == SAP["set_prm"] and sap_val(h[3]) == SAP["master_ms0"]:
                    layout_set_prm(ctx, P, fn, tb, b, c)
                    f = fn
                elif d == SAP["chk_cfg"] and sap_val(h[3]) == SAP["master_ms0"]:
                    layout_chk_cfg(ctx, P, fn, tb, b, c)
    ctx.anchor("Set_Prm construction site", 1 if f is not None else 0, 1)


def resolve(t, up):
    """replace upvar leaves by the parent's captured terms"""
    t = strip_refs(strip_casts(t))
    if t[0] == "upvar":
        return strip_refs(up.get(t[1], t))
    return t


def layout_set_prm(ctx, P, f, tb, b, c):
    loc = f.loc(b)
    cf, clo = closure_of(P, tb, c, 3)
    ln = strip_casts(tb.joperand(c["args"][2]))
    # length = 7 + len(user_parameters)
    lt = ln[1] if ln[0] == "field" and ln[1][0] == "bin" else ln
    ok_len = lt[0] == "bin" and lt[1].startswith("Add") and {("const", 7)} & {lt[2], lt[3]} and any(
        x[0] == "len" and "user_parameters" in (path_str(x[1]) or "") for x in (lt[2], lt[3]))
    ctx.ob("c.set_prm", "len", bool(ok_len), "Set_Prm PDU length must be 7 + len(user_parameters), found " + show(ln), loc)
    if cf is None:
        ctx.ob("c.set_prm", "closure", False, "Set_Prm PDU writer is not an analysable closure: " + show(clo), loc)
        return
    ctx.analysed_fns.add(cf.name)
    up = upvar_map(cf, clo)
    ctb = TermBuilder(cf, P)
    ws = buffer_writes(cf, ctb, is_arg_buf)
    marks = {}
    for n, w in enumerate(ws):
        w["name"] = "w%d" % n
        marks[(w["b"], w["i"])] = w["name"]
    g = GuardAnalysis(cf, P, marks=marks)
    exits = [fs for rb in cf.return_blocks for fs in g.at(rb)]
    sp = SPEC["set_prm"]

    def executed(w, cond_key=None, want=True):
        """w executes exactly once on every exit path class where cond holds (all classes if cond_key None), never otherwise"""
        bad = []
        for fs in exits:
            cnt = g.count_of(fs, w["name"])
            if cond_key is None:
                if cnt != {1}:
                    bad.append(M.fmt_facts(fs))
                continue
            vals = [vs for k, vs in fs.items() if cond_key(k)]
            if not vals:
                bad.append("condition undetermined: " + M.fmt_facts(fs))
                continue
            holds = vals[0] == ("in", frozenset([want]))
            if holds and cnt != {1} or (not holds and cnt != {0}):
                bad.append(M.fmt_facts(fs))
        return bad

    def up_is(path):
        return lambda k: (path_str(resolve(k, up)) or "") == path

    def find(pred):
        return [w for w in ws if pred(w)]

    found = 0
    # octet 0 bits
    for name, mask, cond in (("lock_req", sp["lock_req"], None),
                             ("sync_req", sp["sync_req"], up_is("self.options.sync_mode")),
                             ("freeze_req", sp["freeze_req"], up_is("self.options.freeze_mode")),
                             ("wd_on", sp["wd_on"], "wd")):
        cands = find(lambda w: w["kind"] == "store" and w["index"] == ("const", 0) and w["or_mask"] == mask)
        if len(cands) != 1:
            ctx.ob("c.set_prm", "octet0|" + name, False, "Set_Prm octet 1: expected exactly one `buf[0] |= 0x%02x` (%s), found %d" % (mask, name, len(cands)), loc)
            continue
        found += 1
        w = cands[0]
        if cond == "wd":
            ck = lambda k: k[0] == "discr" and "watchdog_factors" in show(k[1])
            bad = executed(w, ck, "Some") if False else _exec_variant(g, exits, w, ck, "Some")
        else:
            bad = executed(w, cond)
        ctx.ob("c.set_prm", "octet0|" + name + "|exact", not bad,
               "Set_Prm %s bit (0x%02x) is not written exactly when its option is set: %s" % (name, mask, "; ".join(bad[:2])), cf.loc(w["b"], w["i"]))
    # any other write into octet 0 is a violation (e.g. Unlock_Req)
    others = find(lambda w: w["kind"] == "store" and w["index"] == ("const", 0) and w["or_mask"] not in (sp["lock_req"], sp["sync_req"], sp["freeze_req"], sp["wd_on"]))
    ctx.ob("c.set_prm", "octet0|no-other", not others, "unexpected write into Set_Prm octet 1: " + ", ".join(show(w["value"]) for w in others), loc)
    # plain octets
    def value_is(path_or_pred):
        if callable(path_or_pred):
            return path_or_pred
        return lambda v: (path_str(resolve(v, up)) or show(resolve(v, up))).endswith(path_or_pred)
    plain = [
        ("wd_fact_1", 1, lambda v: "watchdog_factors" in show(v) and show(v).rstrip(")").endswith("0"), "wd"),
        ("wd_fact_2", 2, lambda v: "watchdog_factors" in show(v) and show(v).rstrip(")").endswith("1"), "wd"),
        ("min_tsdr", 3, lambda v: show(v).endswith("min_tsdr_bits)") or (path_str(v) or "").endswith("min_tsdr_bits"), None),
        ("group", 6, value_is("self.options.groups"), None),
    ]
    for name, k, vp, cond in plain:
        cands = find(lambda w: w["kind"] == "store" and w["index"] == ("const", k))
        if len(cands) != 1:
            ctx.ob("c.set_prm", "octet|" + name, False, "Set_Prm octet %d (%s): expected exactly one store, found %d" % (k + 1, name, len(cands)), loc)
            continue
        found += 1
        w = cands[0]
        ctx.ob("c.set_prm", "octet|" + name + "|value", bool(vp(w["value"])) and not w["reads_old"],
               "Set_Prm octet %d must carry %s, found %s" % (k + 1, name, show(resolve(w["value"], up))), cf.loc(w["b"], w["i"]))
        if cond == "wd":
            bad = _exec_variant(g, exits, w, lambda k_: k_[0] == "discr" and "watchdog_factors" in show(k_[1]), "Some")
        else:
            bad = executed(w)
        ctx.ob("c.set_prm", "octet|" + name + "|exact", not bad, "Set_Prm %s not written on exactly the required paths: %s" % (name, "; ".join(bad[:2])), cf.loc(w["b"], w["i"]))
    # ident big-endian at [4..6]
    cands = find(lambda w: w["kind"] == "copy" and w["index"][0] == "range" and w["index"][1] == ("const", 4) and w["index"][2] == ("const", 6))
    ok = len(cands) == 1
    if ok:
        found += 1
        v = cands[0]["value"]
        vv = strip_refs(strip_casts(v))
        ok = vv[0] == "call" and vv[1].endswith("to_be_bytes") and (path_str(resolve(vv[2][0], up)) or "") == "self.options.ident_number"
        ok = ok and not executed(cands[0])
    ctx.ob("c.set_prm", "ident", ok, "Set_Prm octets 5–6 must be options.ident_number.to_be_bytes() (MSB first), found %s" % ([show(resolve(w["value"], up)) for w in cands] or "no write"), loc)
    # user parameters at [7..]
    cands = find(lambda w: w["kind"] == "copy" and w["index"][0] == "from" and w["index"][1] == ("const", 7))
    ok = len(cands) == 1
    if ok:
        found += 1
        ok = "user_parameters" in (path_str(resolve(cands[0]["value"], up)) or "") and not executed(cands[0])
    ctx.ob("c.set_prm", "user_prm", ok, "Set_Prm octets 8.. must be options.user_parameters, found %s" % ([show(resolve(w["value"], up)) for w in cands] or "no write"), loc)
    # nothing else is written
    ctx.ob("c.set_prm", "write-count", len(ws) == 10, "Set_Prm writer must consist of the 10 specified writes, found %d: %s" % (
        len(ws), ", ".join("buf%s" % fmt_index(w["index"]) for w in ws)), loc)
    ctx.anchor("Set_Prm writer-table entries matched", found, 10)
    ctx.sample({"set_prm_writes": ["buf%s %s %s" % (fmt_index(w["index"]), "|=" if w["or_mask"] else "=", show(resolve(w["value"], up)) if not w["or_mask"] else hex(w["or_mask"])) for w in ws]})


def _exec_variant(g, exits, w, cond_key, variant):
    bad = []
    for fs in exits:
        cnt = g.count_of(fs, w["name"])
        vals = [vs for k, vs in fs.items() if cond_key(k)]
        if not vals:
            bad.append("condition undetermined: " + M.fmt_facts(fs))
            continue
        holds = vals[0] == ("in", frozenset([variant]))
        if holds and cnt != {1} or (not holds and cnt != {0}):
            bad.append(M.fmt_facts(fs))
    return bad


def layout_chk_cfg(ctx, P, f, tb, b, c):
    loc = f.loc(b)
    ln = strip_casts(tb.joperand(c["args"][2]))
    ok = ln[0] == "len" and "options.config" in (path_str(ln[1]) or "")
    ctx.ob("c.chk_cfg", "len", ok, "Chk_Cfg PDU length must be len(options.config), found " + show(ln), loc)
    cf, clo = closure_of(P, tb, c, 3)
    if cf is None:
        ctx.ob("c.chk_cfg", "closure", False, "Chk_Cfg PDU writer is not an analysable closure", loc)
        return
    ctx.analysed_fns.add(cf.name)
    up = upvar_map(cf, clo)
    ctb = TermBuilder(cf, P)
    ws = buffer_writes(cf, ctb, is_arg_buf)
    ok = len(ws) == 1 and ws[0]["kind"] == "copy" and ws[0]["index"] == ("whole",) and "options.config" in (path_str(resolve(ws[0]["value"], up)) or "")
    if ok:
        g = GuardAnalysis(cf, P, marks={(ws[0]["b"], ws[0]["i"]): "w"})
        ok = all(g.count_of(fs, "w") == {1} for rb in cf.return_blocks for fs in g.at(rb))
    ctx.ob("c.chk_cfg", "payload", ok, "Chk_Cfg PDU must be exactly options.config (one whole-buffer copy), found %s" % (
        ["buf%s <- %s" % (fmt_index(w["index"]), show(resolve(w["value"], up))) for w in ws]), loc)


if __name__ == "__main__":
    rule.run(PID, check, level="other",
             explanation="Typestate edges of Peripheral.state extracted from every store (current-state facts with mod-set kill), "
                         "rank/guard rules per edge, request table per state, Set_Prm/Chk_Cfg writer tables against the DP-V0 layout "
                         "with exact-execution counters. Decides ordering, addressing and layout clauses for all histories of one peripheral; "
                         "not the watchdog factor arithmetic.",
             trusted_base=["rustc MIR (nightly) as extracted by engines/mirfacts", "rules/spec_tables.json (DP-V0 constants)"],
             thorough_configs=("no_default", "alloc", "debug_measure"))
