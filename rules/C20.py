"""C20  Parameter blocks are packed bit-exactly from the GSD definitions.

Decides (structural clauses of gsd-parser's user-parameter packer):
 a  per-type encoding table of UserPrmDataType::write_value_to_slice (sibling arms): conversion target
    (u8/u16/u32/i8/i16/i32 – signed types through their signed type), big-endian bytes, store width
    1/2/4/1/2/4, and size() = 1/2/4/1/2/4/1/1;
 b  bit fields are read-modify-write: the stored byte depends on the previous byte through a mask
    (BitAnd) that clears the field and on the value shifted to the field position; the range guards
    (Bit: value in {0,1}; BitArea: 0 <= value < 2^(last-first+1)) precede the store;
 c  check before write / nothing written on error: the type writer has no store on any path returning
    Err; the constrained writer calls the type writer only after the declared range/enumeration check
    succeeded; set_prm / set_prm_from_text resolve the name (and text) before any write; every default
    value is written unconditionally when the block is built;
 d  block sizing: update_prm_data_len(offset, size) leaves at least offset + size bytes in the block on every path (already large
    enough / resize(offset + size) / exactly (offset + size) - len pushes).
Known finding (recorded, not repaired): BitArea stores `value << first` without reading the old byte,
clobbering neighbouring fields of the same byte – the repair changes the pinned regress__mock-PRM
snapshot, so the unedited suite would fail.
Does not decide: the overlay of constants and fields over whole layouts as a value relation.
"""
from analysis import rule
from analysis.guards import GuardAnalysis
from analysis.terms import TermBuilder, show, path_str, strip_refs, strip_casts, subterms, simplify
from analysis.query import call_sites, callee_is, stmts, has_field, return_terms
from analysis.bufwrites import buffer_writes, fmt_index
from analysis.ir import mk_place
from analysis import match as M

PID = "C20"
CR = "gsd_parser"
WANT = {"Unsigned8": ("u8", 1), "Unsigned16": ("u16", 2), "Unsigned32": ("u32", 4), "Signed8": ("i8", 1), "Signed16": ("i16", 2), "Signed32": ("i32", 4)}
SIZES = {"Unsigned8": 1, "Unsigned16": 2, "Unsigned32": 4, "Signed8": 1, "Signed16": 2, "Signed32": 4, "Bit": 1, "BitArea": 1}


def _succeeded(fname):
    """key predicate: the discriminant of the result of a call of `fname` itself (`x?` implies it through the Try::branch mapping of the
    guard engine; `match` / `let .. else` / `if let` test it directly)"""
    def m(k):
        if k[0] != "discr":
            return False
        t = strip_refs(k[1])
        return t[0] == "call" and M.callee_matches(t[1], fname)
    return m


def variant_of(fs):
    v = fs.get(("discr", ("arg", "self")))
    return next(iter(v[1])) if v is not None and v[0] == "in" and len(v[1]) == 1 else None


def check(ctx):
    P = ctx.prog
    w = ctx.need_fn(CR, "UserPrmDataType::write_value_to_slice", expand=True)
    if w is None:
        return
    g = GuardAnalysis(w, P)
    tb = g.tb
    # ---------------- a: integer arms -------------------------------------------------------------
    table = {}
    for b, c in call_sites(w, lambda c: callee_is(c, "copy_from_slice")):
        dst = tb.joperand(c["args"][0])
        src = tb.joperand(c["args"][1])
        while src[0] in ("ref", "cast"):
            src = src[1] if src[0] == "ref" else src[2]
        width = None
        d = strip_refs(dst)
        if d[0] == "call" and "index_mut" in d[1] and d[2][1][0] == "agg" and str(d[2][1][1]).endswith("RangeTo"):
            width = d[2][1][3][0][1] if d[2][1][3][0][0] == "const" else None
            base_ok = path_str(strip_refs(d[2][0])) == "s"
        else:
            base_ok = False
        conv = None
        be = src[0] == "call" and src[1].endswith("to_be_bytes")
        for st in subterms(src):
            if isinstance(st, tuple) and st and st[0] == "call" and "TryFrom<i64> for " in st[1]:
                conv = st[1].split("TryFrom<i64> for ")[1].split(">")[0]
                conv_arg = path_str(st[2][0])
        for fs in g.at(b):
            v = variant_of(fs)
            if v is not None:
                table[v] = (conv, width, be, base_ok, conv_arg if conv else None)
    for v, (ty, wd) in WANT.items():
        got = table.get(v)
        ok = got is not None and got[0] == ty and got[1] == wd and got[2] and got[3] and got[4] == "value"
        ctx.ob("a.encoding", "arm|" + v, ok,
               "%s must be encoded as %s::try_from(value)?.to_be_bytes() into s[..%d]; found conversion=%s width=%s big-endian=%s" % (
                   v, ty, wd, got[0] if got else None, got[1] if got else None, got[2] if got else None), w.loc(0))
    ctx.anchor("integer encoding arms", len(table), 6)
    ctx.sample({"encoding_table": {k: (v[0], v[1]) for k, v in table.items()}})
    sz = ctx.need_fn(CR, "UserPrmDataType::size")
    if sz is not None:
        gs = GuardAnalysis(sz, P)
        got = {}
        for b, i, t in return_terms(sz, gs.tb):
            for fs in (gs.at(b, i) if i is not None else gs.at(b)):
                vs_ = fs.get(("discr", ("arg", "self")))
                if vs_ is not None and vs_[0] == "in" and t[0] == "const":
                    for v in vs_[1]:  # arms may be merged with `|`
                        got[v] = t[1] if got.get(v, t[1]) == t[1] else "ambiguous"
        ctx.ob("a.encoding", "size-table", got == SIZES, "UserPrmDataType::size() table %s differs from %s" % (got, SIZES), sz.loc(0))
    # ---------------- b: bit fields ------------------------------------------------------------------
    ws = buffer_writes(w, tb, lambda t: path_str(t) == "s")
    stores = [x for x in ws if x["kind"] == "store"]
    byv = {}
    for x in stores:
        for fs in g.at(x["b"], x["i"]):
            v = variant_of(fs)
            if v:
                byv.setdefault(v, []).append((x, fs))
    for v, first_field in (("Bit", "<Bit>.0"), ("BitArea", "<BitArea>.0")):
        xs = byv.get(v, [])
        ctx.ob("b.bitfields", "store-present|" + v, bool(xs) and all(x["index"] == ("const", 0) for x, _ in xs), "%s must store into s[0]" % v, w.loc(0))
        for x, fs in xs[:1]:
            val = simplify(x["value"])
            sv = show(val)
            shifted = any(isinstance(t, tuple) and t and t[0] == "bin" and t[1] == "Shl" and (path_str(t[3]) or "").endswith(first_field) and "value" in show(t[2]) for t in subterms(val))
            masked = x["reads_old"] and "BitAnd" in x["rmw_ops"]
            ctx.ob("b.bitfields", "value-shifted|" + v, shifted, "%s must store the value shifted to the field position, found %s" % (v, sv), w.loc(x["b"], x["i"]))
            ctx.ob("b.bitfields", "read-modify-write|" + v, masked,
                   "%s overwrites the whole byte (%s): the other bit fields sharing the byte are clobbered; the field must be cleared with a mask and ORed in" % (v, sv), w.loc(x["b"], x["i"]))
    # range guards precede the store
    for x, fs in byv.get("Bit", []):
        ok = any(path_str(k) == "value" and vs[0] == "in" and vs[1] <= frozenset([0, 1]) for k, vs in fs.items()) or any(k[0] == "cmp" and k[1] == "eq" and path_str(k[2]) == "value" and k[3] in (("const", 0), ("const", 1)) and vs == ("in", frozenset([True])) for k, vs in fs.items()) or \
            any(k[0] == "cmp" and k[1] == "eq" and path_str(k[3]) == "value" and k[2] in (("const", 0), ("const", 1)) and vs == ("in", frozenset([True])) for k, vs in fs.items())
        ctx.ob("b.bitfields", "range-guard|Bit", ok, "a Bit is stored without the guard value ∈ {0, 1}: " + M.fmt_facts(fs), w.loc(x["b"], x["i"]))
    for x, fs in byv.get("BitArea", []):
        one = frozenset([fs])
        ok1 = M.all_disj(one, M.key_cmp("lt", M.t_path("value"), M.t_const(0)), {False})[0]
        def limit(t):
            t = simplify(strip_casts(strip_refs(t)))
            if t[0] == "bin" and t[1] == "Shl" and t[2] == ("const", 1):
                e = simplify(strip_casts(t[3]))  # 1 << bits  ==  2^bits
            elif t[0] == "call" and t[1].endswith("::pow") and t[2][0] == ("const", 2):
                e = simplify(strip_casts(t[2][1]))
            else:
                return False
            return show(e) in ("((self.<BitArea>.1 Sub self.<BitArea>.0) Add 1)", "(1 Add (self.<BitArea>.1 Sub self.<BitArea>.0))")
        ok2 = M.all_disj(one, M.key_cmp("lt", M.t_path("value"), limit), {True})[0]
        ctx.ob("b.bitfields", "range-guard|BitArea", ok1 and ok2, "a BitArea is stored without the guard 0 <= value < 2^(last - first + 1): " + M.fmt_facts(fs)[:300], w.loc(x["b"], x["i"]))
    # ---------------- c: check before write, nothing written on error ------------------------------
    marks = {(x["b"], x["i"]): "write" for x in ws}
    gm = GuardAnalysis(w, P, marks=marks)
    bad = []
    nerr = 0
    for rb in w.return_blocks:
        for fs in gm.at(rb):
            d = fs.get(("discr", ("local", 0, None)))
            is_ok = d == ("in", frozenset(["Ok"]))
            if not is_ok:
                nerr += 1
                if gm.count_of(fs, "write") != {0}:
                    bad.append(M.fmt_facts(fs)[:250])
    ctx.ob("c.atomic", "no-write-on-error", not bad, "the type writer modifies the block on a path that returns an error: " + "; ".join(bad[:2]), w.loc(0))
    ctx.anchor("error exits of the type writer", nerr, 3)
    callers = []
    for f in P.crate_fns(CR):
        for b, c in call_sites(f, lambda c: (c.get("callee") or "") == w.name):
            callers.append((f, b, c))
    # two roles, told apart by what is written (not by where the call lives): the definition's default value while the block is built,
    # or a caller supplied value, which must have passed the declared constraint
    roles = {}
    for f, b, c in callers:
        roles[(f.name, b)] = "default" if "default_value" in show(TermBuilder(f, P).joperand(c["args"][1])) else "constrained"
    names = sorted({f.name.split("::")[-1] for f, b, c in callers})
    ctx.ob("c.atomic", "writer-callers", sorted(roles.values()) == ["constrained", "default"],
           "write_value_to_slice must be called exactly twice: with a constraint-checked value and with the default value while building, callers: %s roles: %s" % (names, sorted(roles.values())))
    for f, b, c in callers:
        if roles[(f.name, b)] == "constrained":
            gf = GuardAnalysis(f, P)
            ok, w_ = M.all_disj(gf.at(b), _succeeded("assert_valid"), {"Ok", "Some"})
            args = [gf.tb.joperand(a) for a in c["args"]]
            same = [gf.tb.joperand(x["args"][1]) for bb, x in call_sites(f, lambda x: callee_is(x, "assert_valid"))]
            ctx.ob("c.atomic", "constraint-before-write", ok and same and same[0] == args[1],
                   "the value is written before (or without) the declared range / enumeration check of the same value: " + w_, f.loc(b))
        if roles[(f.name, b)] == "default":
            tbf = TermBuilder(f, P)
            marks = {(b, None): "w"}
            for ub, uc in call_sites(f, lambda x: callee_is(x, "update_prm_data_len")):
                marks[(ub, None)] = "len"
            gf = GuardAnalysis(f, P, marks=marks, iter_marks=("w", "len"))
            bad = []
            # the loop over the references: every back edge to the head of a loop that contains the call (a `continue` is one more
            # back edge to the same head)
            heads = {head for src, head in f.back_edges() if b in f.natural_loop(src, head)}
            mine = [(src, head) for src, head in f.back_edges() if head in heads]
            for src, head in mine:
                for fs in gf.at(src):
                    if gf.count_of(fs, "w") != {1} or gf.count_of(fs, "len") != {1}:
                        bad.append(M.fmt_facts(fs)[:200])
            ctx.ob("c.atomic", "defaults-unconditional", not bad and bool(mine),
                   "a parameter's default value is not written on every iteration over the references (e.g. skipped for some values), leaving constant bytes underneath un-overlaid: " + "; ".join(bad[:2]), f.loc(b))
            a = tbf.joperand(c["args"][1])
            ctx.ob("c.atomic", "default-value-source", "default_value" in show(a), "the default writer must write the definition's default_value, found " + show(a), f.loc(b))
    # the enumeration constraint is a set membership: the GSD lists the permitted values in file order (not sorted), so the test must not
    # depend on the order of the list
    nm = 0
    for f in P.crate_fns(CR):
        if not (f.name.startswith("PrmValueConstraint::") and f.kind == "assoc") or f.j.get("derived"):
            continue
        tbf = TermBuilder(f, P)
        for b, c in call_sites(f):
            cal = c.get("callee") or ""
            if not c["args"]:
                continue
            def from_enum(t, depth=0):
                if "Enum" in show(t):
                    return True
                if depth > 3:
                    return False
                for x in subterms(t):
                    if x[0] == "local":
                        for d in tbf.defs.get(x[1], ()):
                            dt = tbf.rvalue(f.blocks[d[1]].stmts[d[2]]["rv"]) if d[0] == "stmt" else tbf.call_term(f.blocks[d[1]].term["call"])
                            if from_enum(dt, depth + 1):
                                return True
                return False
            if not from_enum(tbf.joperand(c["args"][0])):
                continue
            short = cal.split("::")[-1]
            if short in ("deref", "as_slice", "iter", "len", "fmt", "new_debug", "new_display", "clone", "into_iter", "copied", "cloned", "as_ref"):
                continue
            nm += 1
            ok = short in ("contains", "any")
            ctx.ob("c.atomic", "enum-membership|%s|%s" % (f.name.split("::")[-1], short), ok,
                   "the enumeration constraint is tested with `%s`, which is not an order-independent membership test of the listed values "
                   "(binary_search needs a sorted list; GSD files list values in any order)" % short, f.loc(b))
    ctx.anchor("membership tests of enumeration constraints", nm, 1)
    check_sizing(ctx, P)
    for name in ("PrmBuilder::set_prm", "PrmBuilder::set_prm_from_text"):
        f = ctx.need_fn(CR, name)
        if f is None:
            continue
        gf = GuardAnalysis(f, P)
        for b, c in call_sites(f, lambda c: callee_is(c, "write_constrained_value_to_slice")):
            ok, w_ = M.all_disj(gf.at(b), _succeeded("get_prm"), {"Ok", "Some"})
            ok2 = True
            if name.endswith("from_text"):
                ok2, w2 = M.all_disj(gf.at(b), _succeeded("get_value_from_text"), {"Ok", "Some"})
            ctx.ob("c.atomic", "resolve-before-write|" + name.split("::")[-1], ok and ok2, "the block is written before the parameter name / text was resolved successfully: " + w_, f.loc(b))
        direct = [x for x in buffer_writes(f, gf.tb, lambda t: "prm" in (path_str(t) or ""))]
        ctx.ob("c.atomic", "no-direct-write|" + name.split("::")[-1], not direct, "%s writes the block directly (must go through the constrained writer)" % name, f.loc(0))


def check_sizing(ctx, P):
    """d.sizing: the block sizing helper leaves len(prm) >= offset + size on every path - a field that starts inside the bytes already
    present but ends beyond them must still grow the block (otherwise the writer that follows panics or truncates)."""
    from analysis.terms import flatten
    f = ctx.need_fn(CR, "PrmBuilder::update_prm_data_len")
    if f is None:
        return
    tb = TermBuilder(f, P)
    args = [f.locals[i].get("name") for i in range(2, f.argc + 1)]

    def is_need(t):
        parts = sorted(path_str(strip_casts(x)) or show(x) for x in flatten(simplify(strip_casts(t)), "Add"))
        return len(args) == 2 and parts == sorted(args)

    def is_len(t):
        t = strip_casts(strip_refs(t))
        return t[0] in ("len", "call") and show(t).startswith("len(") and "self.prm" in show(t)

    def is_missing(t):
        t = simplify(strip_casts(t))
        return t[0] == "bin" and t[1] == "Sub" and is_need(t[2]) and is_len(t[3])
    marks, other, resize_ok, loop_ok = {}, [], True, False
    for b, c in call_sites(f):
        cal = c.get("callee") or ""
        a0 = show(tb.joperand(c["args"][0])) if c["args"] else ""
        if "self.prm" not in a0 and not cal.endswith("into_iter"):
            continue
        short = cal.split("::")[-1]
        if short == "resize":
            marks[(b, None)] = "rs"
            resize_ok = resize_ok and is_need(tb.joperand(c["args"][1]))
        elif short == "push":
            marks[(b, None)] = "push"
        elif short == "into_iter":
            r = tb.joperand(c["args"][0])
            if r[0] == "agg" and str(r[1]).endswith("Range") and len(r[3]) == 2 and r[3][0] == ("const", 0) and is_missing(r[3][1]):
                loop_ok = True
        elif short not in ("len", "is_empty", "capacity", "reserve", "deref", "as_slice"):
            other.append(short)
    ctx.ob("d.sizing", "only-growing-mutations", not other, "update_prm_data_len changes the block by %s (only push / resize are understood)" % other, f.loc(0))
    g = GuardAnalysis(f, P, marks=marks, iter_marks=("push",))
    one_push = bool(f.back_edges()) and all(g.count_of(fs, "push") == {1} for src, head in f.back_edges() for fs in g.at(src))
    enough = M.key_cmp("lt", is_len, is_need)
    bad = []
    n = 0
    for rb in f.return_blocks:
        for fs in g.at(rb):
            n += 1
            v = [vs for k, vs in fs.items() if enough(k)]
            if v and v[0] == ("in", frozenset([False])):
                continue  # already large enough
            if 0 not in g.count_of(fs, "rs") and resize_ok:
                continue  # resized to offset + size
            done = any(k[0] == "discr" and strip_refs(k[1])[0] == "call" and strip_refs(k[1])[1].endswith("::next") and vs == ("in", frozenset(["None"])) for k, vs in fs.items())
            if done and loop_ok and one_push:
                continue  # pushed exactly (offset + size) - len bytes
            bad.append(M.fmt_facts(fs)[:200])
    ctx.ob("d.sizing", "block-covers-field", n >= 1 and not bad,
           "update_prm_data_len(offset, size) can return with fewer than offset + size bytes in the block (a field starting inside the existing "
           "bytes but ending beyond them is not covered): " + "; ".join(bad[:2]), f.loc(0))


if __name__ == "__main__":
    rule.run(PID, check, level="other", crates=("gsd_parser",),
             explanation="Sibling-arm encoding table, bit-field read-modify-write dependency and range guards, and check-before-write / "
                         "no-write-on-error pairings of the user-parameter packer, extracted from the MIR of gsd-parser.",
             trusted_base=["rustc MIR (nightly) as extracted by engines/mirfacts"])
