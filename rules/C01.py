"""C01  Bus access is collision-free and respects PROFIBUS idle times.

Decides (necessary structural clauses of the single station, for all histories / PHY behaviours):
 a  who may transmit: every PHY transmission of the active station happens in a typestate the statement
    allows – tokens and GAP status requests only in ClaimToken / PassToken, status replies only in
    ListenToken / ActiveIdle with a recorded request, application telegrams only in UseToken; the token
    is claimed only after the own silence time-out (now - last bus activity >= token_lost_timeout);
    requests are recorded for answering only if addressed to this station (shared with C12.f);
 b  the synchronisation pause is a must-pass-through: every transmission is preceded in the same poll by
    wait_synchronization_pause(..) == None (in the transmitting function or, for helpers, at every call
    site up to poll), the dispatch is preceded by check_for_ongoing_transmision(..) == None and by the
    bus-activity update from the pending RX bytes, and no second transmission can follow a transmission
    within one poll;
 c  own transmissions are accounted: the byte count of *that* transmission reaches mark_tx on every
    path after it, and mark_tx stores now + bits_to_time(11 * bytes) (one conversion of the whole bit count);
 d  constants and dependencies: the pause is bits_to_time(33) after the last bus activity; the time-out
    depends on the station address and the slot time (stagger 6*Tsl + 2*addr*Tsl); a single bit->time
    conversion (bits * 1_000_000 / rate) serves all deadlines.
Does not decide: absence of collisions between several independently scheduled stations, µs timing,
the cold-start claim race (schedules of independent processes – not reachable by this technique).
"""
import json
import os

from analysis import rule
from analysis.guards import GuardAnalysis
from analysis.terms import TermBuilder, show, path_str, strip_refs, strip_casts, subterms, simplify, flatten
from analysis.query import call_sites, callee_is, stmts, has_field, return_terms
from analysis.ir import mk_place
from analysis import match as M
from rules import fdlstate
from rules.C11 import fdl_fns, states_of

PID = "C01"
CR = "profirust"
SPEC = json.load(open(os.path.join(os.path.dirname(__file__), "spec_tables.json")))
FR = SPEC["framing"]
ST = "fdl::active::FdlActiveStation"

ALLOWED = {
    "token": {"ClaimToken", "PassToken"},
    "status-request": {"ClaimToken", "PassToken"},
    "status-response": {"ListenToken", "ActiveIdle"},
    "application": {"UseToken"},
}
SYNC = lambda k: k[0] == "discr" and strip_refs(k[1])[0] == "call" and M.callee_matches(strip_refs(k[1])[1], "wait_synchronization_pause")


def tx_sites(P):
    out = []
    for f in fdl_fns(P):
        for b, c in call_sites(f, lambda c: callee_is(c, "phy::ProfibusPhy::transmit_telegram", "phy::ProfibusPhy::transmit_data")):
            out.append((f, b, c))
    return out


def classify(P, f, c):
    tb = TermBuilder(f, P)
    clo = tb.joperand(c["args"][-1])
    if not (clo[0] == "agg" and str(clo[1]).startswith("closure:")):
        return "?", None
    cf = P.get(CR, clo[1][len("closure:"):])
    kinds = set()
    for b, cc in call_sites(cf):
        if callee_is(cc, "send_token_telegram"):
            kinds.add("token")
        elif callee_is(cc, "send_fdl_status_request"):
            kinds.add("status-request")
        elif callee_is(cc, "send_fdl_status_response"):
            kinds.add("status-response")
        elif cc.get("via") == "dyn" and callee_is(cc, "fdl::FdlApplication::transmit_telegram"):
            kinds.add("application")
        elif callee_is(cc, "send_data_telegram", "send_short_confirmation"):
            kinds.add("other-telegram")
    return (next(iter(kinds)) if len(kinds) == 1 else "?"), cf


def check(ctx):
    P = ctx.prog
    ip, inv, muts = fdlstate.station_analysis(P)
    sites = tx_sites(P)
    ctx.anchor("PHY transmit sites in the active station", len(sites), 6)
    T = transmitting_functions(P, sites)
    # ---------------- a ---------------------------------------------------------------------------
    for f, b, c in sites:
        ctx.analysed_fns.add(f.name)
        kind, cf = classify(P, f, c)
        S = ip.facts_at(f.name, b)
        st = states_of(S)
        ok = kind in ALLOWED and bool(S) and st <= ALLOWED[kind]
        ctx.ob("a.who", "site|%s|%s" % (f.name.split("::")[-1], kind), ok,
               "a %s transmission is issued in station state(s) %s; allowed: %s" % (kind, sorted(st), sorted(ALLOWED.get(kind, ()))), f.loc(b))
        ctx.sample({"site": f.loc(b), "kind": kind, "states": sorted(st)})
        if kind == "status-response":
            g = GuardAnalysis(f, P)
            ok, w = M.all_disj(g.at(b), lambda k: k[0] == "discr" and (path_str(k[1]) or "").endswith(".status_request"), {"Some"})
            ctx.ob("a.who", "reply-needs-request|%s" % f.name.split("::")[-1], ok, "a status reply is sent without a recorded request: " + w, f.loc(b))
    claims = [(f, b) for f in fdl_fns(P) for b, c in call_sites(f, lambda c: callee_is(c, "fdl::active::State::transition_claim_token"))]
    ctx.anchor("transition_claim_token call sites", len(claims), 1)
    for f, b in claims:
        g = GuardAnalysis(f, P)
        def silence(k):
            if k[0] != "cmp" or k[1] != "lt":
                return False
            a, t = show(k[2]), show(k[3])
            return "sub(now" in a and "last_bus_activity" in a and "token_lost_timeout" in t
        ok, w = M.all_disj(g.at(b), silence, {False})
        ctx.ob("a.who", "claim-after-silence|%s" % f.name.split("::")[-1], ok, "the token is claimed without `now - last_bus_activity >= token_lost_timeout()`: " + w, f.loc(b))
    from rules import C12
    C12.check_truthful(ctx, P)
    check_one_reply_and_rx(ctx, P, sites)
    # ---------------- b ---------------------------------------------------------------------------
    memo = {}

    def guarded_fn(fn, depth=0):
        """every call site of fn (transitively up to the poll entry) carries the sync-pause guard"""
        if fn.name in memo:
            return memo[fn.name]
        memo[fn.name] = (True, "")  # recursion: assume (checked on the non-recursive entry)
        callers = []
        for cf in fdl_fns(P):
            for cb, cc in call_sites(cf, lambda cc: (cc.get("callee") or "") == fn.name):
                callers.append((cf, cb))
        if not callers:
            memo[fn.name] = (False, "%s has no caller carrying the guard" % fn.name)
            return memo[fn.name]
        res = (True, "")
        for cf, cb in callers:
            g = GuardAnalysis(cf, P)
            ok, w = M.all_disj(g.at(cb), SYNC, {"None"})
            if not ok:
                if cf.name.endswith("::poll_inner") or depth > 6:
                    res = (False, "call of %s in %s is not preceded by the synchronisation pause" % (fn.name.split("::")[-1], cf.name.split("::")[-1]))
                    break
                ok2, w2 = guarded_fn(cf, depth + 1)
                if not ok2:
                    res = (False, w2)
                    break
        memo[fn.name] = res
        return res

    for f, b, c in sites:
        g = GuardAnalysis(f, P)
        ok, w = M.all_disj(g.at(b), SYNC, {"None"})
        if not ok:
            ok, w = guarded_fn(f)
        kind, _ = classify(P, f, c)
        ctx.ob("b.sync-pause", "pause-before-tx|%s|%s" % (f.name.split("::")[-1], kind), ok,
               "a transmission can start without waiting for the synchronisation pause (33 bit times after the last bus activity): " + w, f.loc(b))
    # The poll prologue (PHY still transmitting?  more RX bytes pending?) may live in private helpers or in poll_inner itself:
    # single-call-site helpers are folded into poll_inner and the rule is stated on the PHY queries, not on helper names.
    poll = ctx.need_fn(CR, ST + "::poll_inner", expand=True, keep=_handlers(P) | T)
    if poll is not None:
        tb = TermBuilder(poll, P)
        marks = {}
        for b, c in call_sites(poll):
            if callee_is(c, "phy::ProfibusPhy::poll_pending_received_bytes"):
                marks[(b, None)] = "rxq"
            elif callee_is(c, ST + "::mark_bus_activity"):
                marks[(b, None)] = "mba"
        ctx.anchor("pending-RX query in the poll prologue", sum(1 for v in marks.values() if v == "rxq"), 1)
        g = GuardAnalysis(poll, P, marks=marks)
        handlers = [(b, c) for b, c in call_sites(poll) if (c.get("callee") or "") in T]
        ctx.anchor("state handlers dispatched from poll_inner", len(handlers), 8)
        is_ptx = lambda k: strip_refs(k)[0] == "call" and M.callee_matches(strip_refs(k)[1], "phy::ProfibusPhy::poll_transmission")
        is_est = lambda k: k[0] == "call" and M.mentions(k, M.t_path("self.last_bus_activity")) and not M.mentions(k, lambda t: t[0] == "call" and "poll_transmission" in t[1])
        more_rx = M.key_cmp("lt", M.t_path("self.pending_bytes"), lambda t: strip_refs(t)[0] == "call" and "poll_pending_received_bytes" in strip_refs(t)[1])
        for b, c in handlers:
            S = g.at(b)
            ok_a, w = M.all_disj(S, is_ptx, {False})
            bad_est = [fs for fs in S if _estimate(fs) is not False]
            ok_b, w2 = not bad_est and bool(S), ("path class where the timing estimate is not known to be false: " + M.fmt_facts(bad_est[0])[:300]) if bad_est else ""
            ok2 = all(g.count_of(fs, "rxq") == {1} for fs in S) and bool(S)
            hn = (c.get("callee") or "").split("::")[-1]
            ctx.ob("b.sync-pause", "dispatch-after-tx-check|" + hn, ok_a and ok_b,
                   "handler %s is dispatched although this station may still be transmitting (PHY poll_transmission / own timing estimate not both false): %s" % (hn, w if not ok_a else w2), poll.loc(b))
            ctx.ob("b.sync-pause", "dispatch-after-activity-update|" + hn, ok2,
                   "handler %s is dispatched without first updating the bus-activity marker from the pending RX bytes (a partially received telegram would not count as bus activity)" % hn, poll.loc(b))
            bad = []
            for fs in S:
                v = [vs for k, vs in fs.items() if more_rx(k)]
                if not (v and v[0] == ("in", frozenset([False]))) and 0 in g.count_of(fs, "mba"):
                    bad.append(M.fmt_facts(fs)[:200])
            ctx.ob("b.sync-pause", "activity-from-pending-bytes|" + hn, not bad, "bus activity must be marked whenever more bytes are pending than before: " + "; ".join(bad[:1]), poll.loc(b))
    # no second transmission after a transmission in one poll
    for f in [P.get(CR, n) for n in sorted(T)]:
        if f is None:
            continue
        tb = TermBuilder(f, P)
        events = []
        for b, c in call_sites(f):
            cal = c.get("callee") or ""
            if callee_is(c, "phy::ProfibusPhy::transmit_telegram", "phy::ProfibusPhy::transmit_data"):
                events.append((b, "tx", None))
            elif cal in T and cal != f.name or (cal == f.name):
                events.append((b, "call", c))
        if len(events) < 2:
            continue
        marks = {(b, None): "e%d" % n for n, (b, k, c) in enumerate(events)}
        g = GuardAnalysis(f, P, marks=marks)
        bad = []
        for n2, (b2, k2, c2) in enumerate(events):
            for fs in g.at(b2):
                for n1, (b1, k1, c1) in enumerate(events):
                    if n1 == n2 or g.count_of(fs, "e%d" % n1) == {0}:
                        continue
                    # an earlier transmit-capable event happened on this path: it must have been a call that reported "nothing done"
                    okp = False
                    if k1 == "call":
                        key = ("discr", tb.call_term(c1))
                        v = fs.get(key)
                        okp = v == ("in", frozenset(["None"])) or v == ("in", frozenset(["Err"]))
                    if not okp:
                        bad.append("%s after %s" % (f.loc(b2), f.loc(b1)))
        ctx.ob("b.sync-pause", "one-transmission-per-poll|%s" % f.name.split("::")[-1], not bad,
               "a second transmission (or transmitting handler) can follow a transmission within the same poll: " + ", ".join(sorted(set(bad))[:3]), f.loc(0))
    # ---------------- c ---------------------------------------------------------------------------
    for f, b, c in sites:
        tb = TermBuilder(f, P)
        mt = [(mb, mc) for mb, mc in call_sites(f, lambda mc: callee_is(mc, ST + "::mark_tx"))]
        this_tx = tb.call_term(c)
        ok = False
        for mb, mc in mt:
            a = tb.joperand(mc["args"][2])
            flows = M.mentions(a, lambda t: t == this_tx) and M.mentions(a, M.t_call("bytes_sent"))
            reach = mb in f.pdom.get(c["target"], set()) or post_dominates_on_some(f, g_cache(P, f), c, mb, tb)
            if flows and reach:
                ok = True
        kind, _ = classify(P, f, c)
        ctx.ob("c.accounting", "mark-tx|%s|%s" % (f.name.split("::")[-1], kind), ok,
               "the byte count of this transmission does not reach mark_tx on every path after it (the own transmission would not be accounted as bus activity)", f.loc(b))
    mtf = ctx.need_fn(CR, ST + "::mark_tx")
    if mtf is not None:
        tb = TermBuilder(mtf, P)
        vals = [simplify(tb.rvalue(s["rv"])) for b, i, s in stmts(mtf) if "a" in s and has_field(s["a"], "last_bus_activity", "Option")]
        ok = len(vals) == 1 and vals[0][0] == "agg" and vals[0][2] == "Some"
        if ok:
            v = strip_refs(vals[0][3][0])
            ok = v[0] == "call" and v[1].endswith("::add") and path_str(v[2][0]) == "now"
            if ok:
                d = strip_refs(v[2][1])
                ok = d[0] == "call" and M.callee_matches(d[1], "bits_to_time")
                if ok:
                    bits = simplify(d[2][1])
                    parts = flatten(bits, "Mul")
                    ok = ("const", FR["bits_per_char"]) in parts and any("bytes" in show(p) for p in parts) and len(parts) == 2
        ctx.ob("c.accounting", "mark-tx-value", ok, "mark_tx must store now + bits_to_time(11 * bytes) (one conversion of the whole bit count), found %s" % [show(v)[:160] for v in vals], mtf.loc(0))
    # ---------------- d ---------------------------------------------------------------------------
    wf = ctx.need_fn(CR, ST + "::wait_synchronization_pause")
    if wf is not None:
        g = GuardAnalysis(wf, P)
        tb = g.tb
        n = 0
        for b, i, t in return_terms(wf, tb):
            if t[0] == "agg" and t[2] in ("Some", "None"):
                n += 1
                S = g.at(b, i) if i is not None else g.at(b)
                def pause(k):
                    if k[0] != "cmp" or k[1] != "lt":
                        return False
                    a, t2 = show(k[2]), show(k[3])
                    return "last_bus_activity" in a and "bits_to_time(self.p, %d)" % FR["tsyn_bits"] in a and t2 == "now"
                ok, w = M.all_disj(S, pause, {t[2] == "None"})
                ctx.ob("d.constants", "sync-pause-33|%s" % t[2], ok, "wait_synchronization_pause must return None iff last_bus_activity + bits_to_time(33) < now: " + w, wf.loc(b, i))
        ctx.anchor("results of wait_synchronization_pause", n, 2)
    tl = ctx.need_fn(CR, "fdl::parameters::Parameters::token_lost_timeout")
    if tl is not None:
        tb = TermBuilder(tl, P)
        rets = [simplify(t) for b, i, t in return_terms(tl, tb)]
        ok = len(rets) == 1 and rets[0][0] == "call" and M.callee_matches(rets[0][1], "bits_to_time")
        if ok:
            bits = rets[0][2][1]
            parts = [show(p) for p in flatten(bits, "Mul")]
            ok = "self.slot_bits" in parts and any("self.address" in p and "2" in p and "6" in p for p in parts)
        ctx.ob("d.constants", "timeout-stagger", ok, "token_lost_timeout must be bits_to_time(slot_bits * (6 + 2 * address)), found %s" % [show(r) for r in rets], tl.loc(0))
    bt = ctx.need_fn(CR, "Baudrate::bits_to_time")
    if bt is not None:
        tb = TermBuilder(bt, P)
        rets = [show(simplify(t)) for b, i, t in return_terms(bt, tb)]
        ctx.ob("d.constants", "bits-to-time", rets == ["from_micros(((from(bits) Mul 1000000) Div to_rate(self)))"], "Baudrate::bits_to_time must be from_micros(bits * 1000000 / rate), found %s" % rets, bt.loc(0))
    pb = ctx.need_fn(CR, "fdl::parameters::Parameters::bits_to_time")
    if pb is not None:
        tb = TermBuilder(pb, P)
        rets = [show(simplify(t)) for b, i, t in return_terms(pb, tb)]
        ctx.ob("d.constants", "single-conversion", rets == ["bits_to_time(self.baudrate, bits)"], "Parameters::bits_to_time must delegate to Baudrate::bits_to_time, found %s" % rets, pb.loc(0))


    check_rate_table(ctx, P)
    check_ongoing_tx(ctx, P)
    check_offline_reset(ctx, P)
    check_pending_compare(ctx, P)


def check_offline_reset(ctx, P):
    """g.reset: going offline forgets what the station knew about bus activity.  A station that comes back online with a stale
    `last_bus_activity` sees its token-lost time-out (and the sync pause, measured from the same instant) already expired in its
    first poll and claims the token without having observed any silence."""
    from analysis.modset import ModSets
    f = ctx.need_fn(CR, ST + "::set_state")
    if f is None:
        return
    marks = {}
    for b, i, s in stmts(f):
        if "a" in s and mk_place(s["a"]) == (1, (("deref",),)):
            marks[(b, i)] = "whole"
    for b, c in call_sites(f):
        if mk_place(c["dest"]) == (1, (("deref",),)):
            marks[(b, None)] = "whole"
    g = GuardAnalysis(f, P, mem_kill=True, modsets=ModSets(P), marks=marks)
    bad = []
    n = 0
    for rb in f.return_blocks:
        for fs in g.at(rb):
            off = [vs for k, vs in fs.items() if k[0] == "discr" and show(k[1]) in ("state", "self.connectivity_state") and vs == ("in", frozenset(["Offline"]))]
            if not off:
                continue
            n += 1
            if 0 not in g.count_of(fs, "whole"):
                continue  # the station was re-created
            lba = [vs for k, vs in fs.items() if k[0] == "discr" and path_str(strip_refs(k[1])) == "self.last_bus_activity"]
            pb = [vs for k, vs in fs.items() if path_str(strip_refs(k)) == "self.pending_bytes"]
            if not (lba and lba[0] == ("in", frozenset(["None"])) and pb and pb[0] == ("in", frozenset([0]))):
                bad.append(M.fmt_facts(fs)[:200])
    ctx.ob("g.rx", "offline-forgets-bus-activity", n >= 1 and not bad,
           "set_state(Offline) can return without re-creating the station or clearing last_bus_activity / pending_bytes: the station would rejoin "
           "with a stale silence timer and claim the token at once: " + "; ".join(bad[:1]), f.loc(0))


def check_pending_compare(ctx, P):
    """b (activity from pending bytes): the comparison `pending > self.pending_bytes` reads the count remembered from the *previous*
    poll - no store to `pending_bytes` may lie between the PHY query and the comparison (otherwise it compares a value with itself)"""
    f = ctx.need_fn(CR, ST + "::poll_inner", expand=True, keep=_handlers(P))
    if f is None:
        return
    tb = TermBuilder(f, P)
    marks = {}
    for b, i, s in stmts(f):
        if "a" in s and has_field(s["a"], "pending_bytes", "usize"):
            marks[(b, i)] = "pbw"
    g = GuardAnalysis(f, P, marks=marks)
    n, bad = 0, []
    for b, i, s in stmts(f):
        rv = s.get("rv") if "a" in s else None
        if rv and rv.get("bin") in ("Gt", "Lt", "Ge", "Le"):
            t = tb.rvalue(rv)
            sides = [strip_casts(strip_refs(t[2])), strip_casts(strip_refs(t[3]))]
            if any(path_str(x) == "self.pending_bytes" for x in sides) and any(x[0] == "call" and "poll_pending_received_bytes" in x[1] for x in sides):
                n += 1
                for fs in g.at(b, i):
                    if g.count_of(fs, "pbw") != {0}:
                        bad.append(f.loc(b, i))
    ctx.ob("b.sync-pause", "pending-compare-reads-previous-count", n >= 1 and not bad,
           "the pending-byte comparison must read the count stored in the previous poll (found %d comparison(s); overwritten before the comparison at %s)" % (n, sorted(set(bad))[:2]), f.loc(0))


def check_rate_table(ctx, P):
    """d.constants: every bit time is derived from Baudrate::to_rate(); the rate returned for variant B<n> must be n."""
    f = ctx.need_fn(CR, "Baudrate::to_rate")
    if f is None:
        return
    g = GuardAnalysis(f, P)
    table = {}
    for b, i, s in stmts(f):
        if "a" in s and mk_place(s["a"]) == (0, ()):
            v = g.tb.rvalue(s["rv"])
            for fs in g.at(b, i):
                for k, vs in fs.items():
                    if k[0] == "discr" and vs[0] == "in" and len(vs[1]) == 1:
                        table[next(iter(vs[1]))] = v[1] if v[0] == "const" else show(v)
    bad = {k: v for k, v in table.items() if not (k.startswith("B") and k[1:].isdigit() and v == int(k[1:]))}
    ctx.ob("d.constants", "baud-rate-table", len(table) >= 11 and not bad, "Baudrate::to_rate returns a rate that is not the variant's bit rate: %s (table %s)" % (bad, table), f.loc(0))


def _handlers(P):
    """the per-state handlers dispatched by poll_inner (never folded into it: the clauses are about their dispatch)"""
    f = P.get(CR, ST + "::poll_inner")
    out = set()
    if f is not None:
        for b, c in call_sites(f):
            cal = c.get("callee") or ""
            if cal.startswith(ST + "::") and cal.split("::")[-1].startswith(("do_", "handle_")):
                out.add(cal)
    return out


def _is_ptx(k):
    return strip_refs(k)[0] == "call" and M.callee_matches(strip_refs(k)[1], "phy::ProfibusPhy::poll_transmission")


def _estimate(fs):
    """value of the own timing estimate "this station is still transmitting" (`last_bus_activity` is Some(l) and now <= l) in a path
    class: True / False / None (not determined) - whatever way the test is spelled (combinators, match, if let)"""
    for k, vs in fs.items():
        if k[0] == "call" and M.mentions(k, M.t_path("self.last_bus_activity")) and not M.mentions(k, lambda t: t[0] == "call" and "poll_transmission" in t[1]) \
                and vs in (("in", frozenset([True])), ("in", frozenset([False]))):
            return vs == ("in", frozenset([True]))
    for k, vs in fs.items():
        if k[0] == "discr" and path_str(strip_refs(k[1])) == "self.last_bus_activity" and vs == ("in", frozenset(["None"])):
            return False
    for k, vs in fs.items():
        # l < now  <=>  !(now <= l)
        if k[0] == "cmp" and k[1] == "lt" and M.mentions(k[2], M.t_path("self.last_bus_activity")) and path_str(strip_refs(k[3])) == "now" \
                and vs in (("in", frozenset([True])), ("in", frozenset([False]))):
            return vs == ("in", frozenset([False]))
    return None


def check_ongoing_tx(ctx, P):
    """b (ongoing transmission): while the PHY (or the own timing estimate) says that this station is still transmitting, the bus
    activity marker is refreshed; idle and supervision times are measured from the real end of the own transmission."""
    f = ctx.need_fn(CR, ST + "::poll_inner", expand=True, keep=_handlers(P))
    if f is None:
        return
    marks = {(b, None): "act" for b, c in call_sites(f, lambda c: callee_is(c, ST + "::mark_bus_activity"))}
    g = GuardAnalysis(f, P, marks=marks)
    is_ptx = lambda k: strip_refs(k)[0] == "call" and M.callee_matches(strip_refs(k)[1], "phy::ProfibusPhy::poll_transmission")
    is_est = lambda k: k[0] == "call" and M.mentions(k, M.t_path("self.last_bus_activity")) and not M.mentions(k, lambda t: t[0] == "call" and "poll_transmission" in t[1])
    bad = []
    nsome = 0
    for rb in f.return_blocks:
        for fs in g.at(rb):
            busy = any(is_ptx(k) and vs == ("in", frozenset([True])) for k, vs in fs.items()) or _estimate(fs) is True
            if busy:
                nsome += 1
                if 0 in g.count_of(fs, "act"):
                    bad.append(M.fmt_facts(fs)[:160])
    ctx.ob("b.sync-pause", "ongoing-transmission-refreshes-activity", nsome >= 1 and not bad,
           "the poll reports an ongoing transmission without refreshing the bus-activity marker: the 33-bit pause and the "
           "slot supervision would be measured from the computed instead of the real end of the transmission: %s" % "; ".join(bad[:1]), f.loc(0))

_g = {}


def check_one_reply_and_rx(ctx, P, sites):
    """a.who (one reply per request): after a status reply has been handed to the PHY the recorded request is cleared on every path
    to the function's exit - otherwise the station repeats the reply on every poll without holding the token.
    g.rx: every callback that is handed a received telegram resets the pending-byte counter (mark_rx) on all paths; the counter
    is what tells a partially received telegram from silence before this station transmits."""
    from analysis.modset import ModSets
    ms = ModSets(P)
    n = 0
    for f, b, c in sites:
        kind, cf = classify(P, f, c)
        if kind != "status-response":
            continue
        n += 1
        marks = {(b, None): "sresp"}
        for tb_, tc in call_sites(f, lambda c_: "fdl::active::State::transition_" in (c_.get("callee") or "")):
            marks[(tb_, None)] = "replace"  # the whole state is replaced; every constructor starts without a recorded request (checked below)
        g = GuardAnalysis(f, P, mem_kill=True, modsets=ms, marks=marks)
        bad = []
        for rb in f.return_blocks:
            for fs in g.at(rb):
                if g.count_of(fs, "sresp") == {0}:
                    continue
                if 0 not in g.count_of(fs, "replace"):
                    continue
                cleared = any(k[0] == "discr" and (path_str(k[1]) or "").endswith(".status_request") and vs == ("in", frozenset(["None"])) for k, vs in fs.items())
                if not cleared:
                    bad.append(M.fmt_facts(fs)[:200])
        ctx.ob("a.who", "request-cleared-after-reply|%s" % f.name.split("::")[-1], not bad,
               "a status reply is transmitted but the recorded request is still set when the function returns (the reply would be repeated "
               "on every poll): %s" % "; ".join(bad[:1]), f.loc(b))
    ctx.anchor("status reply sites checked for clearing the request", n, 2)
    from analysis.query import constructions
    badc = []
    ncons = 0
    for var in P.enum_variants(CR, "fdl::active::State") or []:
        for c_ in constructions(P, CR, "fdl::active::State", var):
            rv = c_["rv"]
            if "status_request" in (rv.get("fnames") or []):
                ncons += 1
                fo = rv["fields"][rv["fnames"].index("status_request")]
                t_ = TermBuilder(c_["fn"], P).joperand(fo)
                if not (t_[0] == "agg" and t_[2] == "None"):
                    badc.append(c_["fn"].loc(c_["b"], c_["i"]))
    ctx.ob("a.who", "state-constructed-without-request", ncons >= 2 and not badc, "a station state is constructed with a recorded status request at %s" % badc)
    check_rx(ctx, P)


def check_rx(ctx, P):
    """g.rx (also imported by C11 and C18, whose time-out verdicts depend on the pending-byte bookkeeping)"""
    m = 0
    for f in fdl_fns(P):
        for b, c in call_sites(f, lambda c: callee_is(c, "phy::ProfibusPhy::receive_telegram", "phy::ProfibusPhy::receive_all_telegrams")):
            tb = TermBuilder(f, P)
            clo = tb.joperand(c["args"][-1])
            if not (clo[0] == "agg" and str(clo[1]).startswith("closure:")):
                ctx.ob("g.rx", "closure|%s" % f.name.split("::")[-1], False, "receive callback is not a closure literal", f.loc(b))
                continue
            cf = P.get(CR, clo[1][len("closure:"):])
            if cf is None:
                continue
            m += 1
            marks = {(cb, None): "rx" for cb, cc in call_sites(cf, lambda cc: callee_is(cc, ST + "::mark_rx"))}
            g = GuardAnalysis(cf, P, marks=marks)
            bad = [cf.loc(rb) for rb in cf.return_blocks for fs in g.at(rb) if 0 in g.count_of(fs, "rx")]
            ctx.ob("g.rx", "mark_rx|%s" % cf.name.split("::", 3)[-1], not bad,
                   "a received telegram is processed without resetting the pending-byte count (mark_rx) on a path returning at %s: bytes of a later, "
                   "still incomplete telegram would not be recognised as bus activity" % sorted(set(bad))[:2], cf.loc(0))
    ctx.anchor("telegram receive callbacks in the active station", m, 4)
    check_mark_rx_def(ctx, P)


def check_mark_rx_def(ctx, P):
    mr = ctx.need_fn(CR, ST + "::mark_rx")
    if mr is not None:
        z = [1 for b, i, s in stmts(mr) if "a" in s and has_field(s["a"], "pending_bytes") and (s["rv"].get("use", {}).get("k") or {}).get("int") == 0]
        act = [1 for b, c in call_sites(mr, lambda c: callee_is(c, ST + "::mark_bus_activity"))]
        ctx.ob("g.rx", "mark_rx-definition", bool(z) and bool(act) and not mr.back_edges() and len(mr.return_blocks) == 1,
               "mark_rx must reset the pending-byte count to 0 and refresh the bus-activity marker", mr.loc(0))



def g_cache(P, f):
    if f.name not in _g:
        _g[f.name] = GuardAnalysis(f, P)
    return _g[f.name]


def post_dominates_on_some(f, g, c, mb, tb):
    """mark_tx is reached on every path that continues after a transmission that actually happened
    (transmit returned Some): the None branch (application declined) needs no accounting"""
    tgt = c["target"]
    if tgt is None:
        return False
    key = ("discr", tb.call_term(c))
    for rb in f.return_blocks:
        for fs in g.at(rb):
            v = fs.get(key)
            if v == ("in", frozenset(["None"])):
                continue
            # path with a transmission: must have passed mb
            pass
    # structural: mb post-dominates the Some-successor of the discriminant test on the call result
    for blk in f.blocks:
        t = blk.term
        if "switch" in t and "discr_of" in t:
            dt = tb.jplace(t["discr_of"])
            ct = strip_refs(tb.call_term(c))
            via_try = dt[0] == "call" and dt[1].endswith("as std::ops::Try>::branch") and len(dt[2]) == 1 and strip_refs(dt[2][0]) == ct
            if dt == ct or via_try:
                for v, tb_ in t["targets"]:
                    if t.get("variants", {}).get(str(v)) in ("Some", "Continue") and mb in f.pdom.get(tb_, set()):
                        return True
    return False


def transmitting_functions(P, sites):
    T = {f.name for f, b, c in sites if f.kind != "closure"}
    changed = True
    fns = [f for f in fdl_fns(P) if f.kind != "closure"]
    while changed:
        changed = False
        for f in fns:
            if f.name in T:
                continue
            for b, c in call_sites(f):
                if (c.get("callee") or "") in T:
                    T.add(f.name)
                    changed = True
                    break
    T.discard(ST + "::poll_inner")
    T.discard(ST + "::poll")
    T.discard(ST + "::poll_multi")
    return T


if __name__ == "__main__":
    rule.run(PID, check, level="other",
             explanation="Typestates at every PHY transmit site (interprocedural variant analysis), synchronisation pause as an interprocedural "
                         "must-guard, dispatch preconditions, one transmission per poll (per-path event marks with result correlation), byte-count "
                         "accounting into mark_tx, and the PROFIBUS constants 33/11 and time-out stagger as value terms. Collision freedom between "
                         "several independently scheduled stations is not decided by this technique.",
             trusted_base=["rustc MIR (nightly) as extracted by engines/mirfacts", "rules/spec_tables.json", "callback contracts of the provided PHY helpers (checked by C16)"],
             thorough_configs=("no_default", "alloc"))
