"""C08  Requests follow the frame-count-bit and retry discipline on the wire.

Decides (per-path pairing clauses on the peripheral's transmit / reply handlers, all histories):
 a  retry counter: +1 exactly once on every transmitting (Ok) exit, zeroed on every
    non-transmitting (Err) exit; the Offline decision is guarded by retry_count > max_retry_limit;
 b  fcb.cycle(): exactly once on every accepting exit of the reply handler, never on a
    rejecting exit, never twice (interprocedural through the diagnostics helper by summary);
 c  every path that raises PeripheralEvent::Offline resets the frame count bit;
 d  the fields that select the service (data exchange vs diagnostics) both when the request is
    built and when the reply is interpreted cannot be written through the public API in between;
 e  FrameCountBit tables (fcb/fcv/from_fcv_fcb/cycle/reset) agree with the FCB discipline;
 f  replies reach the DP layer only through the FDL admission filter (shared with C04.c).
Does not decide: the global trace property over several peripherals.
"""
import json
import os

from analysis import rule
from analysis.guards import GuardAnalysis
from analysis.terms import TermBuilder, show, path_str, strip_refs, strip_casts
from analysis.query import call_sites, callee_is, mut_uses_of_field, stmts, variant_uses, has_field
from analysis.ir import mk_place
from analysis import match as M
from rules import C04

PID = "C08"
CR = "profirust"
SPEC = json.load(open(os.path.join(os.path.dirname(__file__), "spec_tables.json")))


def find_fn_with(P, module, pred):
    return [f for f in P.crate_fns(CR) if f.module == module and f.kind not in ("promoted",) and pred(f)]


def retry_stores(f, tb):
    inc, zero, other = [], [], []
    for b, i, s in stmts(f):
        if "a" in s and has_field(s["a"], "retry_count", "u8"):
            v = tb.rvalue(s["rv"])
            v0 = v[1] if v[0] == "field" and v[1][0] == "bin" else v  # checked add: (tuple).0
            if v == ("const", 0):
                zero.append((b, i))
            elif v0[0] == "bin" and v0[1].startswith("Add") and ("const", 1) in (v0[2], v0[3]) and any(
                    path_str(x) == "self.retry_count" for x in (v0[2], v0[3])):
                inc.append((b, i))
            else:
                other.append((b, i, v))
    return inc, zero, other


def ret_discr(fs):
    for k, vs in fs.items():
        if k[0] == "discr" and k[1][0] == "local" and k[1][1] == 0 and vs[0] == "in":
            return set(vs[1])
    return None


def check(ctx):
    P = ctx.prog
    # locate the handlers semantically: the function in dp::peripheral that calls send_data_telegram and
    # returns Result (transmit side); the function that stores into `state` from a Telegram argument (reply side)
    tx = [f for f in P.crate_fns(CR) if f.module == "dp::peripheral" and f.kind == "assoc"
          and f.locals[0]["ty"].startswith("std::result::Result<fdl::telegram::TelegramTxResponse")]
    ctx.anchor("peripheral transmit handler (returns Result<TelegramTxResponse, ..>)", len(tx), 1)
    for f in tx:
        check_retry(ctx, P, f)
        check_offline_reset(ctx, P, f)
    # a non-transmitting exit zeroes the retry counter: it must not happen while a retry sequence can be pending, i.e. only for the
    # enumerated reasons of C07.a (Offline verdict, no-retry-while-Offline, nothing configured to send) - otherwise an unanswered
    # request is transmitted more than 1 + max_retry_limit times and the Offline verdict is postponed without bound (seed C08-14)
    from rules import C07
    rule.import_clauses(ctx, "C07", lambda s_: [C07.check_polls(s_, P, f) for f in tx], clauses=("a.polls",), as_clause="a.retry")
    # the retry counter (which also selects "new message cycle" vs. "retransmission" and drives the Offline verdict) belongs to the
    # request/reply cycle: nothing but the transmit and reply handlers may write it
    wr = sorted({u["fn"].name for u in mut_uses_of_field(P, CR, "retry_count", "u8") if u["kind"] in ("assign", "refmut", "calldest") and not u["fn"].j.get("derived")})
    allowed = {f.name for f in tx} | {f.name for f in P.crate_fns(CR) if f.module == "dp::peripheral" and f.kind == "assoc"
                                      and f.locals[0]["ty"].startswith("std::option::Option<dp::peripheral::PeripheralEvent>")}
    from analysis.callgraph import CallGraph, reached_only_from
    cg_ = CallGraph(P, CR)
    wr_bad = [w_ for w_ in wr if not reached_only_from(P, CR, cg_, w_, allowed)]
    allowed = allowed | (set(wr) - set(wr_bad))
    ctx.ob("a.retry", "writers-of-retry-count", bool(wr) and set(wr) <= allowed,
           "Peripheral.retry_count is written outside the transmit / reply handlers (%s): a retransmission can be turned into a new message cycle "
           "with the old frame count bit, and the Offline verdict can be postponed without bound" % sorted(set(wr) - allowed), "")
    rx = [f for f in P.crate_fns(CR) if f.module == "dp::peripheral" and f.kind == "assoc"
          and f.locals[0]["ty"].startswith("std::option::Option<dp::peripheral::PeripheralEvent>")
          and any("Telegram" in l["ty"] for l in f.locals[1:f.argc + 1])]
    ctx.anchor("peripheral reply handler (Telegram -> Option<PeripheralEvent>)", len(rx), 1)
    for f in rx:
        check_cycle(ctx, P, f)
    check_selector(ctx, P)
    check_tables(ctx, P)
    C04.check_fdl_admission(ctx, P)


# ------------------------------------------------------------------------------------------------
def check_retry(ctx, P, f):
    ctx.analysed_fns.add(f.name)
    tb = TermBuilder(f, P)
    inc, zero, other = retry_stores(f, tb)
    ctx.anchor("retry_count += 1 stores in the transmit handler", len(inc), 1)
    ctx.anchor("retry_count = 0 stores in the transmit handler", len(zero), 1)
    for b, i, v in other:
        ctx.ob("a.retry", "retry-store-other|%s" % f.name, False, "unrecognised update of retry_count: " + show(v), f.loc(b, i))
    marks = {}
    for b, i in inc:
        marks[(b, i)] = "inc"
    for b, i in zero:
        marks[(b, i)] = "zero"
    g = GuardAnalysis(f, P, marks=marks)
    nok = nerr = 0
    bad = []
    for rb in f.return_blocks:
        for fs in g.at(rb):
            d = ret_discr(fs)
            ci, cz = g.count_of(fs, "inc"), g.count_of(fs, "zero")
            if d == {"Ok"}:
                nok += 1
                if ci != {1} or cz != {0}:
                    bad.append("transmitting (Ok) exit with retry_count += 1 executed %s times and = 0 executed %s times: %s" % (sorted(ci), sorted(cz), M.fmt_facts(fs)))
            elif d == {"Err"}:
                nerr += 1
                if cz != {1} or ci != {0}:
                    bad.append("non-transmitting (Err) exit with retry_count = 0 executed %s times and += 1 executed %s times: %s" % (sorted(cz), sorted(ci), M.fmt_facts(fs)))
            else:
                bad.append("exit whose Ok/Err outcome is not determined per path class: " + M.fmt_facts(fs))
    ctx.ob("a.retry", "pairing|%s" % f.name, not bad, "; ".join(bad[:3]), f.loc(f.return_blocks[0]) if f.return_blocks else "")
    ctx.anchor("transmit handler exit classes (Ok)", nok, 1)
    ctx.anchor("transmit handler exit classes (Err)", nerr, 1)
    ctx.sample({"fn": f.name, "ok_exit_classes": nok, "err_exit_classes": nerr})
    # Offline decision guard
    offs = [e for e in variant_uses(P, CR, "dp::peripheral::PeripheralEvent", "Offline") if e["fn"] is f]
    ctx.anchor("constructions of PeripheralEvent::Offline", len(offs), 1)
    limit = M.key_cmp("lt", lambda t: "max_retry_limit" in show(t), M.t_path("self.retry_count"))
    for n, e in enumerate(offs):
        S = g.at(e["b"], e["i"])
        ok, w = M.all_disj(S, limit, {True})
        ctx.ob("a.retry", "offline-guard|%s|%d" % (f.name, n), ok,
               "Offline is declared without the guard retry_count > max_retry_limit: " + w, f.loc(e["b"], e["i"]))
    # no transmission once the limit is exceeded: every send site is guarded by the negation
    for b, c in call_sites(f, lambda c: callee_is(c, "send_data_telegram", "send_diagnostics_request")):
        S = g.at(b)
        ok, w = M.all_disj(S, limit, {False})
        ctx.ob("a.retry", "send-under-limit|%s|%s" % (f.name, c["callee"].split("::")[-1]), ok,
               "a request is transmitted although retry_count may exceed max_retry_limit (more than 1+max_retry_limit transmissions): " + w, f.loc(b))


def check_offline_reset(ctx, P, f):
    offs = [e for e in variant_uses(P, CR, "dp::peripheral::PeripheralEvent", "Offline") if e["fn"] is f]
    tb = TermBuilder(f, P)
    marks = {}
    for n, e in enumerate(offs):
        marks[(e["b"], e["i"])] = "offline"
    for b, c in call_sites(f, lambda c: callee_is(c, "fdl::telegram::FrameCountBit::reset")):
        if path_str(strip_refs(tb.joperand(c["args"][0]))) == "self.fcb":
            marks[(b, None)] = "reset"
    for b, i, s in stmts(f):
        if "a" in s and has_field(s["a"], "fcb", "FrameCountBit"):
            v = tb.rvalue(s["rv"])
            if v[0] == "agg" and v[2] == "First":
                marks[(b, i)] = "reset"
    g = GuardAnalysis(f, P, marks=marks)
    bad = []
    for rb in f.return_blocks:
        for fs in g.at(rb):
            if g.count_of(fs, "offline") != {0} and 0 in g.count_of(fs, "reset"):
                bad.append(M.fmt_facts(fs))
    loc = f.loc(offs[0]["b"], offs[0]["i"]) if offs else ""
    ctx.ob("c.offline-reset", "offline-resets-fcb|%s" % f.name, not bad,
           "PeripheralEvent::Offline is raised on a path that does not reset the frame count bit, so the first request after "
           "Offline does not carry FCV=0/FCB=1: " + "; ".join(bad[:2]), loc)


# ------------------------------------------------------------------------------------------------
def cycle_marks(P, f, tb):
    marks = {}
    for b, c in call_sites(f, lambda c: callee_is(c, "fdl::telegram::FrameCountBit::cycle")):
        if path_str(strip_refs(tb.joperand(c["args"][0]))) == "self.fcb":
            marks[(b, None)] = "cycle"
    return marks


def helper_summary(ctx, P, hf):
    """{'Some': counts, 'None': counts} of fcb.cycle() for the diagnostics helper"""
    tb = TermBuilder(hf, P)
    g = GuardAnalysis(hf, P, mem_kill=True, marks=cycle_marks(P, hf, tb))
    out = {}
    for rb in hf.return_blocks:
        for fs in g.at(rb):
            d = ret_discr(fs)
            for v in (d or {"?"}):
                out.setdefault(v, set()).update(g.count_of(fs, "cycle"))
    return out


def check_cycle(ctx, P, f):
    ctx.analysed_fns.add(f.name)
    tb = TermBuilder(f, P)
    marks = cycle_marks(P, f, tb)
    helpers = {}
    for b, c in call_sites(f, lambda c: callee_is(c, "handle_diagnostics_response")):
        hf = P.get(CR, c["callee"])
        if hf is not None:
            helpers[hf.name] = hf
            marks[(b, None)] = "helper"
    ncyc = len([1 for v in marks.values() if v == "cycle"])
    hsum = {}
    for hn, hf in helpers.items():
        ctx.analysed_fns.add(hf.name)
        s = helper_summary(ctx, P, hf)
        hsum[hn] = s
        ok = len(s.get("Some", ())) == 1 and s.get("None") == {0} and set(s) <= {"Some", "None"}
        ctx.ob("b.cycle", "helper-summary|%s" % hn, ok,
               "the diagnostics helper must cycle the FCB a definite number of times when it accepts (returns Some) and never when it rejects: summary %s" % {k: sorted(v) for k, v in s.items()}, hf.loc(0))
        ncyc += 1 if any(True for _ in call_sites(hf, lambda c: callee_is(c, "fdl::telegram::FrameCountBit::cycle"))) else 0
    ctx.anchor("fcb.cycle() sites reachable from the reply handler", ncyc, 4)
    # rank-raising acknowledgements (short confirmation): stores of WaitForConfig / ValidateConfig into state
    for b, i, s in stmts(f):
        if "a" in s and has_field(s["a"], "state", "PeripheralState"):
            v = tb.rvalue(s["rv"])
            if v[0] == "agg" and v[2] in ("WaitForConfig",):
                marks[(b, i)] = "ack"
    g = GuardAnalysis(f, P, marks=marks)
    gm = GuardAnalysis(f, P, mem_kill=True)
    nacc = nrej = 0
    bad = []
    sel = C04.service_selection_facts(ctx, P)
    for rb in f.return_blocks:
        for fs in g.at(rb):
            total = set(g.count_of(fs, "cycle"))
            nh = g.count_of(fs, "helper")
            helper_some = None
            if nh != {0}:
                hd = [vs for k, vs in fs.items() if k[0] == "discr" and strip_refs(k[1])[0] == "call"
                      and M.callee_matches(strip_refs(k[1])[1], "handle_diagnostics_response")]
                if nh != {1} or not hd:
                    bad.append("diagnostics helper called but its outcome is not tested on this path: " + M.fmt_facts(fs))
                    continue
                helper_some = hd[0] == ("in", frozenset(["Some"]))
                hs = next(iter(hsum.values())) if hsum else {}
                add = hs.get("Some" if helper_some else "None", {0})
                total = {min(t + a, 2) for t in total for a in add}
            # accepting?
            st = [vs for k, vs in fs.items() if k[0] == "discr" and path_str(k[1]) == "self.state"]
            st = set(st[0][1]) if st and st[0][0] == "in" else set()
            kind = [vs for k, vs in fs.items() if k[0] == "discr" and path_str(k[1]) == "telegram"]
            kind = set(kind[0][1]) if kind and kind[0][0] == "in" else set()
            in_dx = bool(st) and st <= {"DataExchange", "PreDataExchange"}
            data_arm = in_dx and all(any(k == kk and vs2 == vs for k, vs2 in fs.items()) for kk, vs in sel) and nh == {0}
            sc_ack = bool(st) and st <= {"WaitForParam", "WaitForConfig"} and kind == {"ShortConfirmation"}
            accepting = bool(helper_some) or data_arm or sc_ack
            if accepting:
                nacc += 1
                if total != {1}:
                    bad.append("accepting exit with fcb.cycle() executed %s times (must be exactly once): %s" % (sorted(total), M.fmt_facts(fs)))
            else:
                nrej += 1
                if total != {0}:
                    bad.append("rejecting exit with fcb.cycle() executed %s times (must be zero): %s" % (sorted(total), M.fmt_facts(fs)))
    ctx.ob("b.cycle", "exit-classes|%s" % f.name, not bad, "; ".join(bad[:3]), f.loc(f.return_blocks[0]) if f.return_blocks else "")
    ctx.anchor("accepting exit classes of the reply handler", nacc, 5)
    ctx.anchor("rejecting exit classes of the reply handler", nrej, 4)
    ctx.sample({"fn": f.name, "accepting": nacc, "rejecting": nrej, "helper_summary": {h: {k: sorted(v) for k, v in s.items()} for h, s in hsum.items()}})


# ------------------------------------------------------------------------------------------------
def check_selector(ctx, P):
    sel = C04.service_selection_facts(ctx, P)
    fields = sorted({path_str(k).split(".", 1)[1] for k, _ in sel})
    ctx.anchor("service-selecting fields (read at the Data_Exchange request site)", len(fields), 1)
    for fld in fields:
        for u in mut_uses_of_field(P, CR, fld, None):
            f = u["fn"]
            if f.module != "dp::peripheral" or not f.locals[u["place"]["l"]]["ty"].startswith("&mut dp::peripheral::Peripheral"):
                continue
            # writers that are part of the request/reply handlers themselves are the protocol; a `pub`
            # API function writing the selector can race an outstanding request
            is_api = f.vis == "pub" and f.kind == "assoc"
            ctx.ob("d.selector", "selector-writer|%s|%s" % (fld, f.name), not is_api,
                   "public API function %s writes `%s`, which selects the service both when a request is built and when its reply "
                   "is interpreted: a call between a Data_Exchange request and its reply makes the reply be treated as a diagnostics "
                   "reply and the next (different) request reuse the frame count bit" % (f.name, fld), f.loc(u["b"], u["i"]))


# ------------------------------------------------------------------------------------------------
def const_fn_table(P, fname):
    """{variant -> constant} for a `match self {V => const}` function"""
    f = P.fn(CR, fname)
    tb = TermBuilder(f, P)
    g = GuardAnalysis(f, P)
    out = {}
    for b, i, s in stmts(f):
        if "a" in s and mk_place(s["a"])[0] == 0:
            v = tb.rvalue(s["rv"])
            for fs in g.at(b, i):
                for k, vs in fs.items():
                    if k[0] == "discr" and vs[0] == "in":
                        for var in vs[1]:
                            out[var] = v
    return f, out


def check_tables(ctx, P):
    spec = SPEC["fcb"]
    try:
        f1, fcb = const_fn_table(P, "fdl::telegram::FrameCountBit::fcb")
        f2, fcv = const_fn_table(P, "fdl::telegram::FrameCountBit::fcv")
    except KeyError as e:
        ctx.ob("e.tables", "anchor-fcb-fns", False, str(e))
        return
    for v in ("First", "High", "Low", "Inactive"):
        want_fcv, want_fcb = spec[v]
        got = (fcv.get(v), fcb.get(v))
        ctx.ob("e.tables", "fcb-table|" + v, got == (("const", want_fcv), ("const", want_fcb)),
               "FrameCountBit::%s must encode as FCV=%s/FCB=%s, code gives fcv=%s fcb=%s" % (v, want_fcv, want_fcb, show(got[0]) if got[0] else None, show(got[1]) if got[1] else None), f1.loc(0))
    # cycle: *self = match self {...}
    f = P.fn(CR, "fdl::telegram::FrameCountBit::cycle")
    tb = TermBuilder(f, P)
    g = GuardAnalysis(f, P)
    got = {}
    for b, i, s in stmts(f):
        if "a" in s:
            v = tb.rvalue(s["rv"])
            if v[0] == "agg" and str(v[1]).endswith("FrameCountBit"):
                for fs in g.at(b, i):
                    for k, vs in fs.items():
                        if k[0] == "discr" and vs[0] == "in":
                            for var in vs[1]:
                                got[var] = v[2]
    ctx.ob("e.tables", "cycle-table", got == spec["cycle"], "FrameCountBit::cycle must map %s, code maps %s" % (spec["cycle"], got), f.loc(0))
    f = P.fn(CR, "fdl::telegram::FrameCountBit::reset")
    tb = TermBuilder(f, P)
    vals = [tb.rvalue(s["rv"]) for _, _, s in stmts(f) if "a" in s and mk_place(s["a"])[1]]
    ctx.ob("e.tables", "reset-table", len(vals) == 1 and vals[0][0] == "agg" and vals[0][2] == "First", "FrameCountBit::reset must store First", f.loc(0))
    # Default is First
    ctx.sample({"fcb": {k: show(v) for k, v in fcb.items()}, "fcv": {k: show(v) for k, v in fcv.items()}, "cycle": got})


if __name__ == "__main__":
    rule.run(PID, check, level="other",
             explanation="Per-path pairing clauses decided with mark counters in the path-sensitive dataflow: retry counter +1/0 per exit "
                         "class, Offline guard, fcb.cycle() exactly once on accepting exits (helper by summary), Offline => FCB reset, "
                         "service selector not publicly writable, FrameCountBit tables, FDL admission filter.",
             trusted_base=["rustc MIR (nightly) as extracted by engines/mirfacts", "rules/spec_tables.json (FCB discipline)"],
             thorough_configs=("no_default", "alloc", "debug_measure"))
