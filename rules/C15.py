"""C15  Applications get matched replies, one at a time, in fair round-robin.

Decides (single station, environment non-deterministic):
 a  typestate of the three application callbacks: an application is asked to transmit only in
    UseToken, a reply / time-out is delivered only in AwaitDataResponse; after either the station
    returns to UseToken (so at most one of the two per request); the wait for a reply is entered only
    for requests that expect one, recording the addressed station;
 b  reply admission (shared with C04.c): SC, or Data with source = addressed station, destination =
    this station, response function code; a time-out is delivered only after the slot expired with no
    telegram received in this poll;
 c  the same application that sent the request gets the reply / time-out: both index the application
    list with next_application, which is written only by the scheduler, only in UseToken;
 d  round robin: next index = (index + 1) mod number of applications; "cycle completed" iff the index
    returns to the first application of this visit, which is unset at token receipt and carried unchanged
    through the wait for a reply;
 e  expects_reply table of the request types; only requests yield an awaited address.
Does not decide: fairness over schedules.
"""
import json
import os

from analysis import rule
from analysis.guards import GuardAnalysis
from analysis.terms import TermBuilder, show, path_str, strip_refs, strip_casts, subterms, simplify
from analysis.query import call_sites, callee_is, stmts, has_field, mut_uses_of_field, return_terms
from analysis.ir import mk_place
from analysis import match as M
from rules import fdlstate, C04
from rules.C11 import fdl_fns, states_of

PID = "C15"
CR = "profirust"
SPEC = json.load(open(os.path.join(os.path.dirname(__file__), "spec_tables.json")))


def dyn_sites(P, method):
    out = []
    for f in fdl_fns(P):
        for b, c in call_sites(f):
            if c.get("via") == "dyn" and callee_is(c, "fdl::FdlApplication::" + method):
                out.append((f, b, c))
    return out


def top_fn(P, f):
    while f.kind == "closure":
        f = P.get(CR, f.parent)
    return f


def check(ctx):
    P = ctx.prog
    # "the token is passed once every application has declined once or the hold time is over": the hold-time deadline is the previous
    # token receipt plus the target rotation time (clause c.deadline of C13)
    from rules import C13
    rule.import_clauses(ctx, "C13", lambda s_: C13.check_deadline(s_, P, C13.fdl_fns(P)), clauses=("c.deadline",), as_clause="d.round-robin")
    ip, inv, muts = fdlstate.station_analysis(P)
    allowed = {"transmit_telegram": {"UseToken"}, "receive_reply": {"AwaitDataResponse"}, "handle_timeout": {"AwaitDataResponse"}}
    sites = {}
    for m, al in allowed.items():
        ss = dyn_sites(P, m)
        sites[m] = ss
        ctx.anchor("dyn FdlApplication::%s call sites" % m, len(ss), 1)
        for f, b, c in ss:
            S = ip.facts_at(f.name, b)
            st = states_of(S)
            # inside closures the station state is a captured upvar: ask the enclosing function at the hand-over site
            if st == {"?"} or not S:
                tf = top_fn(P, f)
                st = set()
                for tb_, tc in call_sites(tf, lambda c: callee_is(c, "phy::ProfibusPhy::transmit_telegram", "phy::ProfibusPhy::receive_telegram")):
                    st |= states_of(ip.facts_at(tf.name, tb_))
            ctx.ob("a.typestate", "callback-state|%s|%s" % (m, f.name), bool(st) and st <= al,
                   "FdlApplication::%s is invoked in station state(s) %s, allowed only in %s" % (m, sorted(st), sorted(al)), f.loc(b))
            ctx.sample({"callback": m, "site": f.loc(b), "states": sorted(st)})
    # entering the wait
    for f in fdl_fns(P):
        for b, c in call_sites(f, lambda c: callee_is(c, "fdl::active::State::transition_await_data_response")):
            g = GuardAnalysis(f, P)
            tb = g.tb
            S = g.at(b)
            ok, w = M.all_disj(S, lambda k: k[0] == "discr" and strip_refs(k[1])[0] == "call" and M.callee_matches(strip_refs(k[1])[1], "expects_reply"), {"Some"})
            a = tb.joperand(c["args"][1])
            ok_a = M.mentions(a, M.t_call("expects_reply")) and "<Some>" in show(a) or "Some" in show(a)
            d = tb.joperand(c["args"][2])
            ok_d = (path_str(strip_casts(d)) or "").endswith("<UseToken>.data")
            ctx.ob("a.typestate", "await-only-if-reply-expected", ok and ok_a and ok_d,
                   "the wait for a reply must be entered only when the request expects one, recording its address and carrying the visit data: %s addr=%s data=%s" % (w, show(a), show(d)), f.loc(b))
    # after reply / time-out back to UseToken with the carried data
    holder = {}
    for m in ("receive_reply", "handle_timeout"):
        for f, b, c in sites[m]:
            tf = top_fn(P, f)
            holder[tf.name] = tf
    for tf in holder.values():
        ctx.analysed_fns.add(tf.name)
        tb = TermBuilder(tf, P)
        uses = [(b, c) for b, c in call_sites(tf, lambda c: callee_is(c, "fdl::active::State::transition_use_token"))]
        ctx.anchor("returns to UseToken in " + tf.name.split("::")[-1], len(uses), 2)
        for b, c in uses:
            d = tb.joperand(c["args"][1])
            ctx.ob("d.round-robin", "visit-data-carried#%d" % uses.index((b, c)), (path_str(strip_casts(d)) or "").endswith("<AwaitDataResponse>.data"),
                   "the token use must resume with the visit data carried through the wait (first application of this visit), found " + show(d), tf.loc(b))
        # time-out delivery guard
        g = GuardAnalysis(tf, P)
        for f, b, c in sites["handle_timeout"]:
            if top_fn(P, f) is not tf:
                continue
            S = g.at(b) if f is tf else None
            if S is None:
                continue
            ok1, w1 = M.all_disj(S, lambda k: strip_refs(k)[0] == "call" and M.callee_matches(strip_refs(k)[1], "check_slot_expired"), {True})
            none_rx = all(any(k[0] == "discr" and strip_refs(k[1])[0] == "call" and "receive_telegram" in strip_refs(k[1])[1] and vs == ("in", frozenset(["None"]))
                              for k, vs in fs.items()) for fs in S) and bool(S)  # tested directly on the PHY result
            if not none_rx:
                none_rx = nothing_received(P, tf, g, S)  # or encoded in the value the result was folded into
            ctx.ob("b.admission", "timeout-guard", ok1 and none_rx, "a time-out is delivered without (slot expired ∧ nothing received in this poll): " + w1, f.loc(b))
            marks = {(b, None): "timeout"}
            for ub, uc in uses:
                marks[(ub, None)] = "use"
            gm = GuardAnalysis(tf, P, marks=marks)
            bad = [M.fmt_facts(fs)[:200] for rb in tf.return_blocks for fs in gm.at(rb) if gm.count_of(fs, "timeout") != {0} and gm.count_of(fs, "use") == {0}]
            ctx.ob("a.typestate", "timeout-then-use-token", not bad, "after delivering a time-out the station does not return to UseToken: " + "; ".join(bad[:2]), f.loc(b))
    C04.check_fdl_admission(ctx, P)
    # the hold-time bookkeeping survives the wait for a reply (shared with C13.d): otherwise every reply
    # would grant another message cycle and the token would never be passed
    from rules import C13
    C13.check_resume_flag(ctx, P)
    # ---------------- c: same application ------------------------------------------------------
    for m in ("transmit_telegram", "receive_reply", "handle_timeout"):
        for f, b, c in sites[m]:
            tf = top_fn(P, f)
            ttb = TermBuilder(tf, P)
            recv = TermBuilder(f, P).joperand(c["args"][0])
            if f.kind == "closure":
                up = C04.upvar_terms(P, f)
                r = strip_refs(strip_casts(recv))
                while r[0] in ("cast", "deref"):
                    r = strip_refs(r[2] if r[0] == "cast" else r[1])
                recv = up.get(r[1], r) if r[0] == "upvar" else r
            sh = show(recv)
            if m == "transmit_telegram":
                # passed down as a parameter: check the caller's argument
                ok = True
                for cf in fdl_fns(P):
                    for cb, cc in call_sites(cf, lambda cc: (cc.get("callee") or "") == tf.name):
                        a = show(TermBuilder(cf, P).joperand(cc["args"][3]))
                        ok = ok and "apps[self.next_application]" in a
                ctx.ob("c.same-app", "index|%s" % m, ok, "the application asked to transmit is not apps[next_application]", f.loc(b))
            else:
                ctx.ob("c.same-app", "index|%s" % m, "apps[self.next_application]" in sh, "reply / time-out is delivered to %s instead of apps[next_application]" % sh, f.loc(b))
    writers = set()
    for u in mut_uses_of_field(P, CR, "next_application", "usize"):
        writers.add(u["fn"].name)
    sched = [w for w in writers if not w.endswith("::new")]
    ctx.ob("c.same-app", "single-scheduler", len(sched) == 1, "next_application must be written by exactly one scheduling function, writers: %s" % sorted(writers))
    for w in sched:
        wf = P.get(CR, w)
        for cf in fdl_fns(P):
            for cb, cc in call_sites(cf, lambda cc: (cc.get("callee") or "") == w):
                st = states_of(ip.facts_at(cf.name, cb))
                ctx.ob("c.same-app", "schedule-only-in-use-token|%s" % cf.name, bool(st) and st <= {"UseToken"},
                       "the application index is advanced in state(s) %s (a reply could be routed to a different application)" % sorted(st), cf.loc(cb))
        # d: round robin arithmetic
        tb = TermBuilder(wf, P)
        for b, i, s in stmts(wf):
            if "a" in s and has_field(s["a"], "next_application", "usize"):
                v = simplify(tb.rvalue(s["rv"]))
                ok = v[0] == "bin" and v[1] == "Rem" and path_str(v[3]) == "num_apps" and v[2][0] == "bin" and v[2][1] == "Add" and ("const", 1) in (v[2][2], v[2][3]) \
                    and any(path_str(x) == "self.next_application" for x in (v[2][2], v[2][3]))
                ctx.ob("d.round-robin", "next-index", ok, "next application index must be (next_application + 1) % num_apps, found " + show(v), wf.loc(b, i))
        g = GuardAnalysis(wf, P)
        for b, i, t in return_terms(wf, tb):
            if t[0] == "agg" and t[2] in ("CycleCompleted", "Scheduled"):
                S = g.at(b, i) if i is not None else g.at(b)
                want = t[2] == "CycleCompleted"
                ok, w_ = M.all_disj(S, M.key_cmp("eq", M.t_path("self.next_application"), lambda x: "first_app" in show(x)), {want})
                ctx.ob("d.round-robin", "cycle-completed-iff-back-at-first|%s" % t[2], ok, "%s must be returned iff the index is back at the visit's first application: %s" % (t[2], w_), wf.loc(b, i))
    # ---------------- e: expects_reply ------------------------------------------------------------
    ef = ctx.need_fn(CR, "fdl::telegram::RequestType::expects_reply")
    if ef is not None:
        from rules.C08 import const_fn_table
        _, tab = const_fn_table(P, "fdl::telegram::RequestType::expects_reply")
        got = {k: v[1] for k, v in tab.items() if v[0] == "const"}
        want = {k: (k not in SPEC["function_code"]["no_reply"]) for k in SPEC["function_code"]["request_codes"]}
        ctx.ob("e.expects-reply", "table", got == want, "RequestType::expects_reply table %s differs from the services without reply %s" % (got, SPEC["function_code"]["no_reply"]), ef.loc(0))
    sf = ctx.need_fn(CR, "fdl::telegram::TelegramTx::send_data_telegram")
    if sf is not None:
        from analysis.inline import desugar
        sf = desugar(P, sf)  # `cond.then_some(x)` / `opt.map(..)` are read as the branches they stand for
        g = GuardAnalysis(sf, P)
        tb = g.tb
        rows = {}
        # the awaited-address variable by role: what is handed to TelegramTxResponse::new as its second argument
        er_local = None
        for b, c in call_sites(sf, lambda c: callee_is(c, "fdl::telegram::TelegramTxResponse::new")):
            pj = c["args"][1].get("mv") or c["args"][1].get("cp") if len(c["args"]) > 1 else None
            if pj is not None and not pj.get("p"):
                er_local = pj["l"]
                for _ in range(4):  # through compiler temporaries (`_t = move expects_reply`)
                    ds = tb.defs.get(er_local, ())
                    if len(ds) == 1 and ds[0][0] == "stmt":
                        rv_ = sf.blocks[ds[0][1]].stmts[ds[0][2]]["rv"]
                        src = (rv_.get("use") or {}).get("mv") or (rv_.get("use") or {}).get("cp")
                        if src is not None and not src.get("p"):
                            er_local = src["l"]
                            continue
                    break
        for b, i, s in stmts(sf):
            if "a" in s and s["a"]["l"] == er_local and not s["a"].get("p"):
                v = tb.rvalue(s["rv"])
                for fs in g.at(b, i):
                    kind = [vs for k, vs in fs.items() if k[0] == "discr" and (path_str(k[1]) or "").endswith("header.fc")]
                    er = [vs for k, vs in fs.items() if strip_refs(k)[0] == "call" and M.callee_matches(strip_refs(k)[1], "expects_reply")]
                    key = (tuple(sorted(kind[0][1])) if kind else None, tuple(sorted(er[0][1])) if er else None)
                    rows[key] = ("Some(" + show(v[3][0]) + ")") if v[0] == "agg" and v[2] == "Some" else (v[2] if v[0] == "agg" else show(v))
        want = {(("Request",), (True,)): "Some(header.da)", (("Request",), (False,)): "None", (("Response",), None): "None"}
        ctx.ob("e.expects-reply", "awaited-address", rows == want, "send_data_telegram derives the awaited address as %s, required %s" % (rows, want), sf.loc(0))
    for name in ("send_token_telegram", "send_short_confirmation"):
        f = P.get(CR, "fdl::telegram::TelegramTx::<'a>::" + name)
        if f is None:
            continue
        tb = TermBuilder(f, P)
        for b, c in call_sites(f, lambda c: callee_is(c, "fdl::telegram::TelegramTxResponse::new")):
            a = tb.joperand(c["args"][1])
            ctx.ob("e.expects-reply", "no-reply|" + name, a[0] == "agg" and a[2] == "None", "%s must not expect a reply" % name, f.loc(b))


def _shape(t):
    """nested variant path of a constructed value: Ok(None) -> ("Ok", "None")"""
    t = strip_refs(t)
    if t[0] == "agg" and t[2] is not None:
        return (t[2],) + (_shape(t[3][0]) if t[3] else ())
    return ()


def nothing_received(P, tf, g, S):
    """the receive outcome is encoded in a value `receive_telegram(.., closure).unwrap_or(DEFAULT)`: "nothing received" holds on a path
    class when the value is known to have DEFAULT's shape and the closure never returns a value of that shape"""
    from analysis.query import return_terms
    tb = g.tb
    for b, c in call_sites(tf, lambda c: (c.get("callee") or "").endswith("Option::<T>::unwrap_or")):
        U = tb.call_term(c)
        X, D = strip_refs(U[2][0]), strip_refs(U[2][1])
        if not (X[0] == "call" and "receive_telegram" in X[1]):
            continue
        dshape = _shape(D)
        if not dshape:
            continue
        clo = [strip_refs(a) for a in X[2] if strip_refs(a)[0] == "agg" and str(strip_refs(a)[1]).startswith("closure:")]
        cf = P.get(CR, clo[0][1][len("closure:"):]) if clo else None
        if cf is None:
            continue
        rshapes = [_shape(t) for _, _, t in return_terms(cf, TermBuilder(cf, P))]
        if any(not r or r[:len(dshape)] == dshape[:len(r)] for r in rshapes):
            continue  # the closure may produce the default's shape itself: the value does not tell the cases apart
        ok = bool(S)
        for fs in S:
            cur = U
            for v in dshape:
                vs = fs.get(("discr", cur))
                if vs != ("in", frozenset([v])):
                    ok = False
                    break
                cur = ("field", ("dc", cur, v), "0")
        if ok:
            return True
    return False


if __name__ == "__main__":
    rule.run(PID, check, level="other",
             explanation="Call-site typestates of the application callbacks from the interprocedural variant analysis; reply admission and "
                         "time-out guards; same-application indexing and single scheduler (who-writes × typestate); round-robin arithmetic and "
                         "cycle-completed condition; expects_reply tables.",
             trusted_base=["rustc MIR (nightly) as extracted by engines/mirfacts", "callback contracts of the provided PHY helpers (checked by C16)"],
             thorough_configs=("no_default", "alloc"))
