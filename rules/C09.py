"""C09  Telegram encoding and decoding are mutually inverse.

Decides (finite tables enumerated completely = level proof for a,b; structural for c,d):
 a  function codes: RequestType / ResponseState / ResponseStatus `from_u8` tables are exact
    inverses of the enum discriminants (and equal the PROFIBUS code points); the writer's bit
    layout (request flag, FCV<<4, FCB<<5, code; state<<4 | status) agrees with the reader's masks
    and shifts; FCB tables are inverse (from_fcv_fcb(fcv(v), fcb(v)) == v).  With these, to_byte /
    from_byte round-trip for all 12*4 request and 4*9 response codes – checked by enumerating the
    *extracted tables*, not by running the functions;
 b  frame-format selection: the writer's start-delimiter table (3 -> SD1, 11 -> SD3, else SD2),
    telegram_len (+3 / +6) and the reader's (payload, total) table agree for every format; ED / SC /
    SD4 constants; the address-extension bit is set by the writer iff the SAP is present and tested
    by the reader with the same mask; header octet offsets written (by the zone domain) equal the
    offsets read;
 c  every frame the writer can produce is accepted: the reader's rejection / wait conditions form
    the closed list of frame-format violations (shared with C10.c); checksum coverage agrees;
 d  the byte count reported by the serializers is the final cursor / the constant frame length.
Does not decide: payload bytes are copied unchanged (memcpy contract).
"""
import json
import os

from analysis import rule
from analysis.guards import GuardAnalysis
from analysis.numdom import NumAnalysis
from analysis.terms import TermBuilder, show, path_str, strip_refs, strip_casts, subterms, simplify, flatten
from analysis.query import call_sites, callee_is, stmts
from analysis.ir import mk_place
from analysis import match as M
from rules import C10

PID = "C09"
CR = "profirust"
SPEC = json.load(open(os.path.join(os.path.dirname(__file__), "spec_tables.json")))
FR = SPEC["framing"]
FC = SPEC["function_code"]


def enum_discr(P, name):
    a = P.adt(CR, name)
    if a is None:
        return None
    return {v["name"]: int(v["discr"]) for v in a["variants"]}


def from_u8_table(P, fname):
    f = P.fn(CR, fname)
    g = GuardAnalysis(f, P)
    tb = g.tb
    table, default = {}, None
    for b, i, s in stmts(f):
        if "a" in s and mk_place(s["a"]) == (0, ()):
            v = tb.rvalue(s["rv"])
            for fs in g.at(b, i):
                for k, vs in fs.items():
                    if k[0] == "arg":
                        if v[0] == "agg" and v[2] == "Some" and vs[0] == "in":
                            for x in vs[1]:
                                table[x] = v[3][0][2]
                        elif v[0] == "agg" and v[2] == "None":
                            default = vs
    return f, table, default


def ret_terms(f, tb, g):
    out = []
    for b, i, s in stmts(f):
        if "a" in s and mk_place(s["a"]) == (0, ()):
            out.append((b, i, simplify(tb.rvalue(s["rv"])), g.at(b, i)))
    return out


def check(ctx):
    P = ctx.prog
    check_fc(ctx, P)
    check_frames(ctx, P)
    # c: closed world of reader verdicts (shared implementation with C10.c)
    fns = [ctx.need_fn(CR, n) for n in C10.DECODERS]
    if all(fns):
        C10.closed_world(ctx, P, *fns)
        g = GuardAnalysis(fns[1], P)
        C10.check_checksum_range(ctx, P, fns[1], g.tb)
    check_counts(ctx, P)


# ------------------------------------------------------------------------------------------------
def check_fc(ctx, P):
    tabs = {}
    for enum, spec, fn in (("fdl::telegram::RequestType", FC["request_codes"], "fdl::telegram::RequestType::from_u8"),
                           ("fdl::telegram::ResponseState", FC["station_type"], "fdl::telegram::ResponseState::from_u8"),
                           ("fdl::telegram::ResponseStatus", FC["response_status"], "fdl::telegram::ResponseStatus::from_u8")):
        d = enum_discr(P, enum)
        try:
            f, table, default = from_u8_table(P, fn)
        except KeyError as e:
            ctx.ob("a.tables", "anchor|" + fn, False, str(e))
            return
        ctx.analysed_fns.add(f.name)
        short = enum.split("::")[-1]
        ctx.ob("a.tables", "discr-spec|" + short, d == spec, "%s discriminants %s differ from the PROFIBUS code points %s" % (short, d, spec), f.loc(0))
        inv = {v: k for k, v in d.items()}
        ctx.ob("a.tables", "from_u8-inverse|" + short, table == inv,
               "%s::from_u8 table %s is not the exact inverse of the discriminants %s" % (short, table, inv), f.loc(0))
        ctx.ob("a.tables", "from_u8-rejects-rest|" + short, default is not None and default[0] == "notin" and set(default[1]) == set(inv),
               "%s::from_u8 must return None exactly for the bytes outside %s" % (short, sorted(inv)), f.loc(0))
        tabs[short] = (d, table)
        ctx.sample({short: table})
    # writer layout
    f = ctx.need_fn(CR, "fdl::telegram::FunctionCode::to_byte")
    r = ctx.need_fn(CR, "fdl::telegram::FunctionCode::from_byte")
    if f is None or r is None:
        return
    g = GuardAnalysis(f, P)
    tb = g.tb
    W = {}
    for b, i, t, S in ret_terms(f, tb, g):
        var = None
        for fs in S:
            for k, vs in fs.items():
                if k[0] == "discr" and path_str(k[1]) == "self" and vs[0] == "in" and len(vs[1]) == 1:
                    var = next(iter(vs[1]))
        comps = []
        for c in flatten(t, "BitOr"):
            c = simplify(c)
            shift = 0
            if c[0] == "bin" and c[1] == "Shl" and c[3][0] == "const":
                shift = c[3][1]
                c = strip_casts(c[2])
            c = strip_casts(c)
            if c[0] == "const":
                comps.append(("const", c[1] << shift))
            elif c[0] == "discr":
                comps.append(("enum", (path_str(c[1]) or "").split(".")[-1], shift))
            elif c[0] == "call":
                comps.append(("bool", c[1].split("::")[-1], shift))
            else:
                comps.append(("?", show(c), shift))
        W[var] = sorted(comps, key=str)
    wantW = {"Request": sorted([("const", 1 << FC["request_flag_bit"]), ("enum", "req", 0), ("bool", "fcv", FC["fcv_bit"]), ("bool", "fcb", FC["fcb_bit"])], key=str),
             "Response": sorted([("enum", "state", 4), ("enum", "status", 0)], key=str)}
    ctx.ob("a.layout", "writer-layout", W == wantW, "FunctionCode::to_byte bit layout %s differs from the PROFIBUS layout %s" % (W, wantW), f.loc(0))
    # reader layout
    gr = GuardAnalysis(r, P)
    rtb = gr.tb
    R = {}
    for b, i, t, S in ret_terms(r, rtb, gr):
        if not (t[0] == "agg" and t[2] == "Ok"):
            continue
        inner = t[3][0]
        kind = inner[2]
        for fs in S:
            for k, vs in fs.items():
                k2 = simplify(k)
                if k2[0] == "cmp" and k2[1] == "eq" and ("const", 0) in (k2[2], k2[3]):
                    o = k2[3] if k2[2] == ("const", 0) else k2[2]
                    o = strip_casts(o)
                    if o[0] == "bin" and o[1] == "BitAnd" and o[3][0] == "const":
                        R.setdefault(kind, {})["flag"] = (o[3][1], vs == ("in", frozenset([False])))
        for c in subterms(inner):
            if isinstance(c, tuple) and c and c[0] == "call" and c[1].endswith("from_u8"):
                a = simplify(c[2][0])
                ety = c[1].split("::")[-2]
                sh = 0
                if a[0] == "bin" and a[1] == "Shr":
                    sh = a[3][1]
                    a = a[2]
                if a[0] == "bin" and a[1] == "BitAnd" and a[3][0] == "const":
                    R.setdefault(kind, {})[ety] = (a[3][1], sh)
            if isinstance(c, tuple) and c and c[0] == "call" and c[1].endswith("from_fcv_fcb"):
                ms = []
                for a in c[2]:
                    a = simplify(a)
                    if a[0] == "bin" and a[1] == "Ne" and a[3] == ("const", 0):
                        a = a[2]
                    ms.append(a[3][1] if a[0] == "bin" and a[1] == "BitAnd" and a[3][0] == "const" else None)
                R.setdefault(kind, {})["fcv_fcb"] = tuple(ms)
    wantR = {"Request": {"flag": (64, True), "RequestType": (0x8F, 0), "fcv_fcb": (1 << FC["fcv_bit"], 1 << FC["fcb_bit"])},
             "Response": {"flag": (64, False), "ResponseState": (0x30, 4), "ResponseStatus": (0x0F, 0)}}
    ctx.ob("a.layout", "reader-layout", R == wantR, "FunctionCode::from_byte masks/shifts %s differ from %s" % (R, wantR), r.loc(0))
    # FCB tables
    from rules import C08
    try:
        _, fcbt = C08.const_fn_table(P, "fdl::telegram::FrameCountBit::fcb")
        _, fcvt = C08.const_fn_table(P, "fdl::telegram::FrameCountBit::fcv")
        ff = P.fn(CR, "fdl::telegram::FrameCountBit::from_fcv_fcb")
    except KeyError as e:
        ctx.ob("a.tables", "anchor-fcb", False, str(e))
        return
    gf = GuardAnalysis(ff, P)
    inv = {}
    for b, i, s in stmts(ff):
        if "a" in s and mk_place(s["a"]) == (0, ()) and "agg" in s["rv"]:
            for fs in gf.at(b, i):
                vals = {}
                for k, vs in fs.items():
                    p = path_str(k) or show(k)
                    if vs[0] == "in" and len(vs[1]) == 1:
                        vals[p.split(".")[-1]] = next(iter(vs[1]))
                key = tuple(vals.get(n) for n in sorted(vals))
                inv[key] = s["rv"]["variant"]
    # enumerate the extracted tables: round trip for every code
    bad = []
    n = 0
    if W == wantW and R == wantR and all(k in tabs for k in ("RequestType", "ResponseState", "ResponseStatus")):
        reqd, reqt = tabs["RequestType"]
        for rn, rd in reqd.items():
            for fv in ("First", "High", "Low", "Inactive"):
                fcv = fcvt.get(fv) == ("const", True)
                fcb = fcbt.get(fv) == ("const", True)
                byte = 64 | rd | (int(fcv) << 4) | (int(fcb) << 5)
                n += 1
                ok = byte < 256 and (byte & 64) != 0 and reqt.get(byte & 0x8F) == rn and ((byte & 16) != 0) == fcv and ((byte & 32) != 0) == fcb
                # from_fcv_fcb inverse
                got = None
                for key, var in inv.items():
                    if set(key) <= {True, False} and len(key) == 2:
                        pass
                if not ok:
                    bad.append("Request{%s,%s} -> 0x%02x does not decode back" % (fv, rn, byte))
        std, stt = tabs["ResponseState"]
        sud, sut = tabs["ResponseStatus"]
        for sn, sd in std.items():
            for un, ud in sud.items():
                byte = (sd << 4) | ud
                n += 1
                ok = byte < 256 and (byte & 64) == 0 and stt.get((byte & 0x30) >> 4) == sn and sut.get(byte & 0x0F) == un
                if not ok:
                    bad.append("Response{%s,%s} -> 0x%02x does not decode back" % (sn, un, byte))
        ctx.ob("a.roundtrip", "all-codes", not bad and n == 12 * 4 + 4 * 9, "function code round trip fails on the extracted tables (%d codes): %s" % (n, "; ".join(bad[:4])))
    else:
        ctx.ob("a.roundtrip", "all-codes", False, "function code round trip not established because a table/layout clause above failed")
    # from_fcv_fcb(fcv(v), fcb(v)) == v : decode the match on the (fcv, fcb) tuple
    tbl = fcv_fcb_table(P, ff)
    okinv = all(tbl.get((fcvt.get(v) == ("const", True), fcbt.get(v) == ("const", True))) == v for v in ("First", "High", "Low", "Inactive"))
    ctx.ob("a.tables", "from_fcv_fcb-inverse", okinv, "from_fcv_fcb table %s is not the inverse of (fcv, fcb) = %s" % (
        tbl, {v: (show(fcvt.get(v)), show(fcbt.get(v))) for v in ("First", "High", "Low", "Inactive")}), ff.loc(0))
    ctx.sample({"writer": {k: [str(x) for x in v] for k, v in W.items()}, "reader": {k: {a: str(b) for a, b in v.items()} for k, v in R.items()}, "codes_enumerated": n})


def fcv_fcb_table(P, ff):
    """(fcv, fcb) -> variant for FrameCountBit::from_fcv_fcb (match on a tuple of two bools)"""
    g = GuardAnalysis(ff, P)
    out = {}
    # the two bool arguments
    names = [ff.locals[1].get("name"), ff.locals[2].get("name")]
    for b, i, s in stmts(ff):
        if "a" in s and mk_place(s["a"]) == (0, ()) and "agg" in s["rv"]:
            for fs in g.at(b, i):
                vals = {}
                for k, vs in fs.items():
                    if vs[0] == "in" and len(vs[1]) == 1 and isinstance(next(iter(vs[1])), bool):
                        sh = show(k)
                        for idx, nm in enumerate(names):
                            if sh == nm or sh.endswith(".%d" % idx):
                                vals[idx] = next(iter(vs[1]))
                if len(vals) == 2:
                    out[(vals[0], vals[1])] = s["rv"]["variant"]
    return out


def _op_ty(f, o):
    if "k" in o:
        return (o["k"] or {}).get("ty")
    pj = o.get("mv") or o.get("cp")
    if pj is None or pj.get("p"):
        return None
    return f.locals[pj["l"]]["ty"]


# ------------------------------------------------------------------------------------------------
def check_frames(ctx, P):
    ser = ctx.need_fn(CR, "fdl::telegram::DataTelegramHeader::serialize", expand=True)
    tl = ctx.need_fn(CR, "fdl::telegram::DataTelegramHeader::telegram_len")
    de = ctx.need_fn(CR, "fdl::telegram::DataTelegram::deserialize", expand=True)
    if not (ser and tl and de):
        return
    # writer: sc table keyed by length_byte
    g = GuardAnalysis(ser, P)
    tb = g.tb
    sc = {}
    lb = None
    # the start delimiter variable, whatever it is called: the local that is assigned start-delimiter constants in several places
    sd_vals = {FR["SD1"], FR["SD2"], FR["SD3"]}
    cand = {}
    for b, i, s in stmts(ser):
        if "a" in s and not s["a"].get("p"):
            v = simplify(tb.rvalue(s["rv"]))
            if v[0] == "const" and v[1] in sd_vals and not isinstance(v[1], bool):
                cand.setdefault(s["a"]["l"], []).append(v[1])
    sd_local = max(cand, key=lambda l: len(cand[l])) if cand else None
    for b, i, s in stmts(ser):
        if "a" in s and s["a"]["l"] == sd_local and not s["a"].get("p"):
            v = simplify(tb.rvalue(s["rv"]))
            for fs in g.at(b, i):
                for k, vs in fs.items():
                    ks = show(simplify(k))
                    if "pdu_len" in ks and "Add" in ks:
                        lb = simplify(k)  # the length byte: the value the delimiter is selected by
                        if vs[0] == "in":
                            for x in vs[1]:
                                sc[x] = v[1] if v[0] == "const" else show(v)
                        else:
                            sc["_"] = v[1] if v[0] == "const" else show(v)
    want = {3: FR["SD1"], 11: FR["SD3"], "_": FR["SD2"]}
    ctx.ob("b.formats", "writer-sd-table", sc == want, "start delimiter selection %s differs from {3: SD1, 11: SD3, else: SD2}" % sc, ser.loc(0))
    # length_byte = pdu_len + dsap? + ssap? + 3
    parts = sorted(show(x) for x in flatten(lb, "Add")) if lb else None
    ctx.ob("b.formats", "length-byte", parts == sorted(["3", "pdu_len", "is_some(self.dsap)", "is_some(self.ssap)"]),
           "LE must be pdu_len + [DSAP] + [SSAP] + 3, found " + str(parts), ser.loc(0))
    # capacity: the only frame the serializer may refuse is one that does not fit the SD2 length octet (LE <= 249); any tighter
    # assertion (on the PDU length alone, say) makes frames the format allows - and the reader accepts - unencodable
    npan = 0
    for b, c in call_sites(ser):
        cal = c.get("callee") or ""
        mac = ser.blocks[b].term.get("mac") or []
        if not cal.startswith(("core::panicking::", "std::rt::")) or any("debug_assert" in m_ for m_ in mac):
            continue
        if not any(m_.startswith("assert") for m_ in mac):
            continue
        npan += 1
        S = g.at(b)
        def le_limit(k):
            # `assert!(LE <= 249)` panics when 249 < LE
            if k[0] != "cmp" or k[1] != "lt" or strip_casts(k[2]) != ("const", FR["le_max"]):
                return False
            ks = show(simplify(k[3]))
            return "pdu_len" in ks and "Add" in ks
        ok, w = M.all_disj(S, le_limit, {True})
        ctx.ob("b.formats", "writer-capacity#%d" % npan, ok,
               "the serializer refuses (asserts) for a reason other than LE > %d: frames the format allows become unencodable: %s" % (FR["le_max"], w), ser.loc(b))
    # telegram_len
    gt = GuardAnalysis(tl, P)
    tlt = {}
    for b, i, t, S in ret_terms(tl, gt.tb, gt):
        add = [x for x in flatten(t, "Add") if x[0] == "const"]
        flags = [x for x in flatten(t, "Add") if strip_casts(x)[0] == "local"]
        for fs in S:
            extra = sum(x[1] for x in add) - 3
            for x in flags:  # a summand held in a variable whose value is known on this path class (`let framing = if .. {3} else {6}`)
                vs_ = fs.get(strip_casts(x))
                if vs_ is not None and vs_[0] == "in" and len(vs_[1]) == 1:
                    extra += next(iter(vs_[1]))
            for k, vs in fs.items():
                if "pdu_len" in show(k) and k[0] != "cmp":
                    if vs[0] == "in":
                        for x in vs[1]:
                            tlt[x] = extra
                    else:
                        tlt["_"] = extra
    ctx.ob("b.formats", "telegram-len-table", tlt == {3: 3, 11: 3, "_": 6}, "telegram_len adds %s to LE; the frame formats need {3: +3, 11: +3, else: +6}" % tlt, tl.loc(0))
    # reader: (payload, total) per start delimiter
    gd = GuardAnalysis(de, P)
    dtb = gd.tb
    rd = {}
    for b, i, s in stmts(de):
        # the pair (payload: u8, total: usize) chosen per start delimiter - a tuple or a two-field record, roles by type
        if "a" in s and s["rv"].get("agg") in ("tuple", "adt") and len(s["rv"].get("fields") or []) == 2:
            tys = [_op_ty(de, o) for o in s["rv"]["fields"]]
            if sorted(t or "" for t in tys) != ["u8", "usize"]:
                continue
            v = simplify(dtb.rvalue(s["rv"]))
            pi_, ti_ = tys.index("u8"), tys.index("usize")
            for fs in gd.at(b, i):
                for k, vs in fs.items():
                    if C10.is_buf_elem(k, C10.idx_const(0)) and vs[0] == "in":
                        for x in vs[1]:
                            rd[x] = (show(simplify(v[3][pi_])), show(simplify(v[3][ti_])))
    wantr = {FR["SD1"]: ("0", "6"), FR["SD3"]: ("8", "14"), FR["SD2"]: ("(buffer[1] Sub 3)", "(from(buffer[1]) Add 6)")}
    ctx.ob("b.formats", "reader-format-table", rd == wantr, "reader (payload, total) per start delimiter %s differs from %s" % (rd, wantr), de.loc(0))
    # agreement writer <-> reader for the fixed formats
    for lbv, sd in ((3, FR["SD1"]), (11, FR["SD3"])):
        r = rd.get(sd)
        ok = r is not None and r[0] == str(lbv - 3) and r[1] == str(lbv + tlt.get(lbv, 99))
        ctx.ob("b.formats", "agree|SD%02x" % sd, ok, "format 0x%02x: writer LE=%d/total=%s vs reader payload/total=%s" % (sd, lbv, lbv + tlt.get(lbv, 99), r))
    ctx.sample({"writer_sd": {str(k): v for k, v in sc.items()}, "telegram_len": {str(k): v for k, v in tlt.items()}, "reader": {str(k): v for k, v in rd.items()}})
    # extension bits
    ext = []
    # the extension flags by role: the (multi-def) local ORed into the DA octet / the SA octet
    from analysis.bufwrites import buffer_writes as _bw
    role = {}
    for w in _bw(ser, tb, lambda t: (path_str(t) or "") == "buffer"):
        v = strip_casts(w["value"]) if w["kind"] == "store" else None
        if v is not None and v[0] == "bin" and v[1] == "BitOr":
            for x, y in ((v[2], v[3]), (v[3], v[2])):
                px = path_str(strip_casts(x)) or ""
                y = strip_casts(y)
                if px in ("self.da", "self.sa") and y[0] == "local":
                    role[y[1]] = {"self.da": "da_ext", "self.sa": "sa_ext"}[px]
    for b, i, s in stmts(ser):
        if "a" in s and role.get(s["a"]["l"]) and not s["a"].get("p"):
            nm = role[s["a"]["l"]]
            v = tb.rvalue(s["rv"])
            for fs in g.at(b, i):
                for k, vs in fs.items():
                    want_field = {"da_ext": "self.dsap", "sa_ext": "self.ssap"}[nm]
                    if k[0] == "discr" and (path_str(k[1]) or "") == want_field and vs[0] == "in":
                        ext.append((nm, (path_str(k[1]) or "").split(".")[-1], tuple(sorted(vs[1])), v[1] if v[0] == "const" else show(v)))
    wantx = sorted([("da_ext", "dsap", ("Some",), 0x80), ("da_ext", "dsap", ("None",), 0), ("sa_ext", "ssap", ("Some",), 0x80), ("sa_ext", "ssap", ("None",), 0)])
    ctx.ob("b.formats", "writer-ext-bits", sorted(set(ext)) == wantx, "address extension bits written as %s, expected %s" % (sorted(set(ext)), wantx), ser.loc(0))
    # header offsets written vs read (zone domain gives the absolute index of every store)
    na = NumAnalysis(ser, P, max_disj=96)
    offs = {}
    from analysis.bufwrites import buffer_writes
    ws = buffer_writes(ser, tb, lambda t: (path_str(t) or "") == "buffer")
    for w in ws:
        if w["kind"] != "store":
            continue
        blk = ser.blocks[w["b"]]
        st_ = blk.stmts[w["i"]]
        idxl = [e for e in st_["a"]["p"] if isinstance(e, dict) and "idx" in e]
        if not idxl:
            continue
        vals = set()
        for st in na.states_before(w["b"], w["i"]):
            v = ("v", idxl[0]["idx"], ())
            lo, hi = st.z.lo(v), st.z.hi(v)
            vals.add((lo, hi))
        val = strip_casts(simplify(w["value"]))
        name = show(val)
        # header octets by what is stored (not by the names of the locals involved)
        if val[0] == "local" and val[1] == sd_local:
            name = "<sd>"
        elif val[0] == "bin" and val[1] == "BitOr":
            ps = {path_str(strip_casts(x)) for x in (val[2], val[3])}
            if "self.da" in ps:
                name = "<da>"
            elif "self.sa" in ps:
                name = "<sa>"
        offs.setdefault(name, set()).update(vals)
    def exact(name):
        return sorted(lo for (lo, hi) in offs.get(name, ()) if lo == hi)
    got = {"sd": exact("<sd>"), "da": exact("<da>"), "sa": exact("<sa>"), "fc": exact("to_byte(self.fc)")}
    wanto = {"sd": [0, 3], "da": [1, 4], "sa": [2, 5], "fc": [3, 6]}
    ctx.ob("b.formats", "writer-offsets", got == wanto, "header octets are written at offsets %s, the frame formats (and the reader) need %s" % (got, wanto), ser.loc(0))
    le = sorted(set(x for n_, v_ in offs.items() if "try_from" in n_ and "pdu_len" in n_ for (x, y) in v_ if x == y))
    ctx.ob("b.formats", "writer-le-offsets", le == [1, 2], "LE/LEr written at offsets %s, expected [1, 2]" % le, ser.loc(0))
    # checksum coverage on the writer side: folded range starts at the DA offset (1 or 4) and ends at the checksum position
    nfold = 0
    for b, c in call_sites(ser, lambda c: callee_is(c, "core::slice::index::<impl std::ops::Index<I> for [T]>::index")):
        if c["argtys"][1].startswith("std::ops::Range<"):
            rj = c["args"][1].get("mv") or c["args"][1].get("cp")
            starts, rel_end = set(), True
            for st in na.states_at_term(b):
                sv = ("v", rj["l"], (("f", "start"),))
                ev = ("v", rj["l"], (("f", "end"),))
                starts.add((st.z.lo(sv), st.z.hi(sv)))
            nfold += 1
            ctx.ob("c.checksum", "writer-range-start", sorted(starts) == [(1, 1), (4, 4)] or sorted(starts) == [(1, 1)] or sorted(starts) == [(4, 4)],
                   "the writer folds the checksum from offsets %s; it must start at the DA octet (offset 1, or 4 for SD2)" % sorted(starts), ser.loc(b))
    ctx.anchor("checksum range in the serializer", nfold, 1)
    # ... and what is stored as FCS is the wrapping sum of every byte of that range (the reader computes the same sum, C10.b)
    fcs_stores = [w for w in ws if w["kind"] == "store" and C10.is_fcs_term(strip_casts(w["value"]), P)]
    ctx.ob("c.checksum", "writer-fcs-is-sum", len(fcs_stores) == 1,
           "the serializer must store exactly one frame check sequence that is the wrapping byte sum (start 0, every byte) of the covered range, found %d such store(s)" % len(fcs_stores), ser.loc(0))
    # end delimiter constant after the checksum
    ed = [w for w in ws if w["kind"] == "store" and simplify(w["value"]) == ("const", FR["ED"])]
    ctx.ob("b.formats", "writer-ed", len(ed) == 1, "exactly one store of ED (0x16) expected in the serializer, found %d" % len(ed), ser.loc(0))
    # token / SC
    for name, consts in (("fdl::telegram::TokenTelegram::serialize", [FR["SD4"]]), ("fdl::telegram::ShortConfirmation::serialize", [FR["SC"]])):
        f = ctx.need_fn(CR, name)
        if f is None:
            continue
        ftb = TermBuilder(f, P)
        w = buffer_writes(f, ftb, lambda t: (path_str(t) or "") == "buffer")
        first = [x for x in w if x["index"] == ("const", 0)]
        ok = len(first) == 1 and simplify(first[0]["value"]) == ("const", consts[0])
        ctx.ob("b.formats", "start-byte|" + name.split("::")[-2], ok, "%s must write 0x%02x at offset 0" % (name, consts[0]), f.loc(0))
    tk = ctx.need_fn(CR, "fdl::telegram::TokenTelegram::serialize")
    if tk is not None:
        ftb = TermBuilder(tk, P)
        w = {x["index"]: show(x["value"]) for x in buffer_writes(tk, ftb, lambda t: (path_str(t) or "") == "buffer")}
        ctx.ob("b.formats", "token-layout", w.get(("const", 1)) == "self.da" and w.get(("const", 2)) == "self.sa", "token telegram must be SD4, DA, SA; found " + str(w), tk.loc(0))
    td = ctx.need_fn(CR, "fdl::telegram::TokenTelegram::deserialize")
    if td is not None:
        ftb = TermBuilder(td, P)
        for c in [c for c in __import__("analysis.query", fromlist=["constructions"]).constructions(P, CR, "fdl::telegram::TokenTelegram") if c["fn"] is td]:
            vals = {n: show(ftb.joperand(o)) for n, o in zip(c["rv"]["fnames"], c["rv"]["fields"])}
            ctx.ob("b.formats", "token-read-layout", vals == {"da": "buffer[1]", "sa": "buffer[2]"}, "token decoder reads %s, expected da=buffer[1], sa=buffer[2]" % vals, td.loc(c["b"], c["i"]))


# ------------------------------------------------------------------------------------------------
def check_counts(ctx, P):
    ser = ctx.need_fn(CR, "fdl::telegram::DataTelegramHeader::serialize", expand=True)
    if ser is None:
        return
    tb = TermBuilder(ser, P)
    rets = [tb.rvalue(s["rv"]) for b, i, s in stmts(ser) if "a" in s and mk_place(s["a"]) == (0, ())]
    # "the cursor" by role: the variable that indexes the store of the end delimiter (and is stepped past it)
    from analysis.bufwrites import buffer_writes
    ed_idx = set()
    for w in buffer_writes(ser, tb, lambda t: (path_str(t) or "") == "buffer"):
        if w["kind"] == "store" and simplify(w["value"]) == ("const", FR["ED"]):
            for e in ser.blocks[w["b"]].stmts[w["i"]]["a"]["p"]:
                if isinstance(e, dict) and "idx" in e:
                    for st_ in subterms(tb.local(e["idx"])):  # the index is computed from the cursor variable (`cursor`, `cursor + 1`)
                        if isinstance(st_, tuple) and st_ and st_[0] == "local":
                            ed_idx.add(st_[1])
    r0 = strip_casts(rets[0]) if len(rets) == 1 else None
    ctx.ob("d.count", "serialize-returns-cursor", r0 is not None and r0[0] == "local" and r0[1] in ed_idx,
           "serialize must return its final cursor (the variable stepped past the end delimiter), returns %s" % [show(r) for r in rets], ser.loc(0))
    for name, n in (("fdl::telegram::TokenTelegram::serialize", 3), ("fdl::telegram::ShortConfirmation::serialize", 1)):
        f = ctx.need_fn(CR, name)
        if f is None:
            continue
        ftb = TermBuilder(f, P)
        rets = [ftb.rvalue(s["rv"]) for b, i, s in stmts(f) if "a" in s and mk_place(s["a"]) == (0, ())]
        ctx.ob("d.count", "count|" + name.split("::")[-2], rets == [("const", n)], "%s must report %d bytes, reports %s" % (name, n, [show(r) for r in rets]), f.loc(0))
    # TelegramTx::send_* hand the serializer's count to TelegramTxResponse::new
    n = 0
    for f in P.crate_fns(CR):
        if f.module != "fdl::telegram" or "TelegramTx" not in f.name or f.kind != "assoc":
            continue
        ftb = TermBuilder(f, P)
        for b, c in call_sites(f, lambda c: callee_is(c, "fdl::telegram::TelegramTxResponse::new")):
            n += 1
            a0 = strip_refs(ftb.joperand(c["args"][0]))
            ok = a0[0] == "call" and a0[1].endswith("::serialize")
            ctx.ob("d.count", "tx-count|" + f.name.split("::")[-1], ok, "bytes_sent must be the serializer's return value, found " + show(a0), f.loc(b))
    ctx.anchor("TelegramTxResponse::new call sites in TelegramTx", n, 3)


if __name__ == "__main__":
    rule.run(PID, check, level="proof",
             explanation="Finite writer/reader tables of the codec extracted from MIR and compared with each other and with the PROFIBUS "
                         "tables: function-code discriminants, from_u8 inverses, bit layout/masks, FCB tables, all 84 codes enumerated over the "
                         "extracted tables; frame-format selection, telegram_len, reader format table, extension bits, header offsets (zone "
                         "domain), closed world of reader verdicts, checksum range, reported byte counts.",
             trusted_base=["rustc MIR (nightly) as extracted by engines/mirfacts", "rules/spec_tables.json", "analysis/numdom.py for absolute store offsets"],
             thorough_configs=("no_default", "alloc"))
