"""C19 - The GSD parser never panics and reproduces what the file says.

Decided part (static):
  a.totality   R-PANIC over gsd_parser::parser: every panic source reachable from parse()/parse_with_warnings()
               (panic!/unreachable!/assert! calls, Assert terminators, may-panic std calls such as unwrap/expect,
               integer `+`, from_str_radix) is discharged by
                 - dom_pest: grammar-shape typestate (engines/pestshape dumps gsd.pest through pest's own meta
                   parser; analysis/pestdom.py interprets the MIR over child-sequence automata), or
                 - a path-sensitive must-guard fact (Option known to be Some at the unwrap), or
                 - a provenance rule for the one integer addition (only (0, _) is ever pushed to the legacy vector).
  b.overwrite  the end-of-parse commit `gsd.user_prm_data = legacy` is never reached on a path that stored extended
               parameter data into gsd.user_prm_data (necessary for "contains exactly the ... constants / references").
  c.tables     keyword <-> field agreement: `<rate>_supp` sets SupportedSpeeds::B<rate>, `MaxTsdr_<rate>` stores
               into max_tsdr.b<rate> (rates compared numerically).
  d.grammar    the compiled Rule enum and the grammar file analysed by E2 have the same rule set.
Not decided: that every field equals the text of the file (runtime round trip) - out of static reach.
"""
import os
import re
import subprocess

from analysis import rule
from analysis.callgraph import CallGraph
from analysis.guards import GuardAnalysis
from analysis.modset import ModSets
from analysis.panics import sites as panic_sites
from analysis.pestdom import Grammar, PestAnalysis
from analysis.query import call_sites
from analysis.terms import TermBuilder, show, strip_refs, subterms
from analysis.ir import mk_place
from analysis.match import mentions
from analysis import facts

CRATE = "gsd_parser"
PEST_DIR = os.path.join(facts.VERIF, "engines", "pestshape")
PEST_TOOL = os.path.join(PEST_DIR, "target", "debug", "pestshape")
ENTRIES = ("parser::parse", "parser::parse_with_warnings")
RULE_ENUM = "parser::gsd_parser::Rule"


def ensure_tool():
    src = os.path.join(PEST_DIR, "src", "main.rs")
    if os.path.exists(PEST_TOOL) and os.path.getmtime(PEST_TOOL) >= os.path.getmtime(src):
        return
    env = dict(os.environ, CARGO_NET_OFFLINE="true")
    r = subprocess.run(["cargo", "build", "--offline"], cwd=PEST_DIR, env=env, capture_output=True, text=True)
    if r.returncode != 0:
        raise RuntimeError("building engines/pestshape failed:\n" + r.stderr[-3000:])


def generated(name):
    return name.startswith("parser::gsd_parser::") or "as pest::Parser<" in name


def mentions_local(t, name):
    return mentions(t, lambda x: x[0] == "local" and x[1] == name) or mentions(t, lambda x: x[0] == "path" and x[1] and x[1][0] == name)


def term_has_name(t, name):
    return name in show(t, 40) if False else any((isinstance(x, tuple) and len(x) > 1 and x[1] == name and x[0] in ("local", "var")) for x in subterms(t)) or (name in show(t))


# ---------------------------------------------------------------------------------------------------------
def check(ctx):
    P = ctx.prog
    ensure_tool()
    repo = facts.REPO
    pest = os.path.join(repo, "gsd-parser", "src", "gsd.pest")
    if not os.path.exists(pest):
        ctx.ob("anchor", "file:gsd.pest", False, "grammar file not found: " + pest)
        return
    G = Grammar(pest, PEST_TOOL)

    # ---- d. grammar <-> compiled Rule enum
    enum = P.enum_variants(CRATE, RULE_ENUM) if hasattr(P, "enum_variants") else None
    variants = set(enum or [])
    grules = set(G.rules.keys()) | {"EOI"}
    ctx.anchor("grammar rules", len(G.rules), 30)
    ctx.ob("d.grammar", "rule-enum==grammar", variants == grules,
           "compiled Rule enum and gsd.pest disagree: only in enum %s, only in grammar %s" % (sorted(variants - grules), sorted(grules - variants)))

    entries = [ctx.need_fn(CRATE, e) for e in ENTRIES]
    if any(e is None for e in entries):
        return
    cg = CallGraph(P, CRATE)
    reach = cg.reachable([e.name for e in entries])
    inv_fns = [P.get(CRATE, n) for n in sorted(reach) if P.get(CRATE, n) is not None and not generated(n)]
    inv_fns = [f for f in inv_fns if f.kind != "promoted"]
    gen_fns = [n for n in reach if generated(n)]
    ctx.analysed_fns |= {f.name for f in inv_fns}
    ctx.anchor("functions of the hand-written parser", len(inv_fns), 20)
    ctx.assume("pest runtime + pest_derive output (%d generated functions under parser::gsd_parser, no panic site of their own in MIR) produce a "
               "pair tree that conforms to gsd.pest, or an Err" % len(gen_fns))
    ctx.assume("functions of core/alloc/std outside analysis/panics.py:MAY_PANIC_EXTERN do not panic; allocation failure aborts")
    # generated code: must itself be free of panic sites (checked, not assumed)
    ngen = 0
    for n in gen_fns:
        f = P.get(CRATE, n)
        if f is None:
            continue
        for s in panic_sites(f, P, CRATE):
            if s["kind"] in ("panic-call", "assert", "extern-unwrap", "extern-index"):
                ngen += 1
                ctx.ob("a.totality", "generated|%s|%s" % (n.split("::")[-1], s["what"].split("::")[-1]), False,
                       "panic source inside pest-generated code: %s" % s["what"], f.loc(s["b"]))
    ctx.ob("a.totality", "generated-code-free-of-panic-sites", ngen == 0, "%d sites" % ngen)

    # ---- a. totality: grammar typestate
    A = PestAnalysis(P, CRATE, G, RULE_ENUM)
    for e in entries:
        A.analyze(e, tuple(None for _ in range(e.argc)))
    # every hand-written function must have been analysed (closures handed to std adaptors: analyse with unknown arguments)
    for f in inv_fns:
        if not any(k[0] == f.name for k in A.memo):
            A.analyze(f, tuple(None for _ in range(f.argc)), ("<unknown caller>",))
    visited_panics = {(k[0], k[1]): o for k, o in A.obligations.items() if k[2] == "panic"}
    unwraps = {(k[0], k[1]): o for k, o in A.obligations.items() if k[2] in ("unwrap", "unwrap-other")}
    ctx.anchor("Option<Pair> unwraps proven by grammar shape", len([o for o in unwraps.values() if o["ok"] is True]), 15)

    guard_cache = {}

    def guards_of(f):
        if f.name not in guard_cache:
            guard_cache[f.name] = GuardAnalysis(f, P, mem_kill=True, modsets=ModSets(P), max_disj=16)
        return guard_cache[f.name]

    nsites = 0
    for f in inv_fns:
        tb = None
        for s in panic_sites(f, P, CRATE):
            nsites += 1
            b = s["b"]
            loc = f.loc(b)
            what = s["what"].split("::")[-1]
            mac = ",".join(m for m in s["mac"] if not m.startswith(("$", "desugar")))
            if s["kind"] == "ubcheck":
                ctx.ob("a.totality", "%s|ubcheck|%s|%s" % (f.name, s["what"], mac), "vec" in s["mac"] or bool(s["mac"]),
                       "compiler-inserted pointer check outside a std macro expansion", loc)
                continue
            if s["kind"] == "panic-call":
                o = visited_panics.get((f.name, b))
                msg = panic_message(f, b)
                ctx.ob("a.totality", "%s|panic-call|%s|%s" % (f.name, mac or what, msg), o is None,
                       "%s is reachable under the grammar: %s (call chain %s)" % (mac or what, msg, " <- ".join(reversed(o["chain"])) if o else ""), loc)
                if o is None:
                    ctx.sample("%s: %s!(%s) unreachable: no child-sequence of the grammar leads here" % (loc, mac or what, msg[:60]))
                continue
            if s["kind"] == "assert":
                ok, why = discharge_assert(ctx, P, f, b)
                ctx.ob("a.totality", "%s|assert|%s" % (f.name, s["what"]), ok, "Assert(%s) not discharged: %s" % (s["what"], why), loc)
                continue
            if s["kind"] == "extern-unwrap":
                o = unwraps.get((f.name, b))
                if tb is None:
                    tb = TermBuilder(f, P)
                c = f.blocks[b].term["call"]
                arg = strip_refs(tb.joperand(c["args"][0]))
                key = "%s|%s|%s" % (f.name, what, show(arg)[:120])
                if o is None:
                    # not visited by the typestate at all: unreachable under the grammar
                    ctx.ob("a.totality", key, True, "", loc)
                    continue
                if o["kind"] == "unwrap":
                    ctx.ob("a.totality", key, o["ok"] is True, o["detail"] + " (call chain %s)" % " <- ".join(reversed(o["chain"])), loc)
                    continue
                ok, why = discharge_option(guards_of(f), f, b, arg)
                ctx.ob("a.totality", key, ok, "%s of a value that may be None/Err: %s" % (what, why), loc)
                if ok:
                    ctx.sample("%s: %s(%s) guarded: %s" % (loc, what, show(arg)[:60], why))
                continue
            if s["kind"] == "extern-radix":
                c = f.blocks[b].term["call"]
                a = c["args"][1] if len(c["args"]) > 1 else {}
                r = a.get("k", {}).get("int")
                ctx.ob("a.totality", "%s|radix|%s" % (f.name, what), isinstance(r, int) and 2 <= r <= 36, "radix argument is not a constant in 2..=36", loc)
                continue
            if s["kind"] == "extern-arith":
                ok, why = discharge_add_provenance(P, f, b)
                ctx.ob("a.totality", "%s|arith|%s" % (f.name, s["what"]), ok, "integer operation may overflow: %s" % why, loc)
                if ok:
                    ctx.sample("%s: %s cannot overflow: %s" % (loc, s["what"], why))
                continue
            ctx.ob("a.totality", "%s|%s|%s" % (f.name, s["kind"], s["what"]), False, "may-panic std call without a discharge rule", loc)
    ctx.anchor("panic sources inventoried in the hand-written parser", nsites, 20)

    check_number_types(ctx, P)
    check_case(ctx, A)
    check_grammar_case(ctx, G)
    check_overwrite(ctx, P)
    check_tables(ctx, P)
    check_continuation(ctx, P)


def panic_message(f, b):
    c = f.blocks[b].term["call"]
    for a in c["args"]:
        k = a.get("k") or {}
        if "str" in k:
            return k["str"][:80]
    # panic_fmt: message pieces live in a promoted constant; use the source-independent macro name only
    return ""


def discharge_assert(ctx, P, f, b):
    try:
        from analysis.numdom import NumAnalysis
        na = NumAnalysis(f, P)
        ob = na.obligations.get(b)
        if ob is not None and ob.get("ok"):
            return True, "interval/zone analysis"
        return False, (ob or {}).get("why", "no numeric proof")
    except Exception as e:  # fail closed
        return False, "numdom failed: %s" % e


def discharge_option(ga, f, b, arg):
    """arg: term of the Option being unwrapped."""
    must = ga.must(b)
    if must is None:
        return True, "site unreachable in the path-sensitive analysis"

    def is_some(t):
        vs = must.get(("discr", t))
        return vs is not None and vs[0] == "in" and vs[1] <= frozenset(["Some", "Ok"])
    if is_some(arg):
        return True, "discr(%s)=Some on every path" % show(arg)
    if arg[0] == "call" and arg[1].endswith("Option::<T>::or") and len(arg[2]) == 2:
        for x in arg[2]:
            x = strip_refs(x)
            if is_some(x):
                return True, "`%s` is Some on every path reaching the unwrap (the other branch sets the value the guard tests)" % show(x)
    return False, "no must-fact makes %s Some" % show(arg)[:100]


def discharge_add_provenance(P, f, b):
    """`a + b` in a closure mapped over a vector: sound when a is the first tuple field of an element and every element ever
    pushed into that vector has a constant first field (so a + len <= const + isize::MAX)."""
    tb = TermBuilder(f, P)
    c = f.blocks[b].term["call"]
    lhs = strip_refs(tb.joperand(c["args"][0]))
    rhs = strip_refs(tb.joperand(c["args"][1]))
    s_l, s_r = show(lhs), show(rhs)
    if not (rhs[0] == "len" or s_r.startswith("len(")):
        return False, "right operand is not a length (%s)" % s_r
    recv = None
    if f.kind != "closure":
        # the same sum in a `for (offset, values) in vec.iter()` loop: the element is the payload of `next(iter)`
        el = None
        for x in subterms(lhs):
            if isinstance(x, tuple) and x and x[0] == "dc" and x[2] == "Some" and strip_refs(x[1])[0] == "call" and strip_refs(x[1])[1].endswith("::next"):
                el = strip_refs(x[1])
        if el is None or not (lhs[0] == "field" and lhs[2] == "0"):
            return False, "not the first field of an element of a vector being iterated (%s + %s)" % (s_l, s_r)
        parent, ptb = f, tb
        it = strip_refs(el[2][0]) if el[2] else None
        while it is not None and it[0] == "deref":
            it = strip_refs(it[1])
        if it is not None and it[0] == "local":
            srcs = {it[1]}
            for ds in ptb.defs.get(it[1], ()):  # `iter = move _tmp` where `_tmp = into_iter(..)`
                if ds[0] == "stmt":
                    u = parent.blocks[ds[1]].stmts[ds[2]]["rv"].get("use") or {}
                    pj = u.get("mv") or u.get("cp")
                    if pj is not None and not pj.get("p"):
                        srcs.add(pj["l"])
            for pb, pc in call_sites(parent):
                if (pc.get("callee") or "").endswith("::into_iter") and not pc["dest"].get("p") and pc["dest"]["l"] in srcs:
                    recv = ptb.joperand(pc["args"][0])
        if recv is None:
            return False, "the iterator the element comes from was not found (%s)" % show(el)[:80]
    else:
        # lhs must be field 0 of the closure's element parameter
        if not re.search(r"\b(_2|offset)\b", s_l) and ".0" not in s_l:
            return False, "left operand is not the element's first field (%s)" % s_l
        parent = P.get(CRATE, f.parent) if getattr(f, "parent", None) else None
        if parent is None:
            parent = P.get(CRATE, f.name.rsplit("::{closure", 1)[0])
        if parent is None:
            return False, "parent function not found"
        ptb = TermBuilder(parent, P)
        # the map call handing this closure to the iterator
        for pb, pc in call_sites(parent):
            if (pc.get("callee") or "").endswith("Iterator::map"):
                targs = [ptb.joperand(a) for a in pc["args"]]
                if len(targs) > 1 and f.name.split("::")[-1] in show(targs[1]):
                    recv = targs[0]
        if recv is None:
            return False, "map() call for the closure not found"
    m = re.search(r"field\((.*), (\w+)\)", show(recv, 60) if False else show(recv))
    roots = [x for x in subterms(recv) if x[0] == "local"]
    root_names = {x[2] for x in roots if len(x) > 2 and isinstance(x[2], str)}
    fields = [x[2] for x in subterms(recv) if x[0] == "field" and isinstance(x[2], str) and not x[2].isdigit()]
    if not root_names or not fields:
        return False, "receiver of map() is not a field of a local (%s)" % show(recv)[:80]
    root = sorted(root_names)[0]
    vecfield = fields[0]
    pushes, bad = 0, []
    allowed = ("Option::<T>::as_mut", "as std::ops::Deref>::deref", "as std::ops::DerefMut>::deref_mut", "core::slice::<impl [T]>::iter",
               "Argument::<'_>::new_display", "Argument::<'_>::new_debug", ">::from", "Vec::<T, A>::len", "Option::<T>::is_none", "Option::<T>::is_some",
               "Iterator::map", "Iterator::max", "Option::<T>::unwrap_or", "::into_iter", "Iterator>::next", "Iterator::next", "Ord::max", "Ord>::max")
    for pb, pc in call_sites(parent):
        targs = [ptb.joperand(a) for a in pc["args"]]
        # only a `&mut` borrow derived from the local can change the vector
        if not any(ty.startswith("&mut") and any(x[0] == "local" and len(x) > 2 and x[2] == root for x in subterms(a))
                   for a, ty in zip(targs, pc["argtys"])):
            continue
        cal = pc.get("callee") or ""
        if cal.endswith("Vec::<T, A>::push"):
            r0 = targs[0]
            if any(x[0] == "field" and x[2] == vecfield for x in subterms(r0)):
                v = strip_refs(targs[1])
                first = v[3][0] if v[0] == "agg" and v[3] else None
                if first is not None and first[0] == "const" and isinstance(first[1], int) and 0 <= first[1] < 2 ** 16:
                    pushes += 1
                else:
                    bad.append("%s pushes %s" % (parent.loc(pb), show(v)[:60]))
            continue
        if any(cal.endswith(a) for a in allowed):
            continue
        bad.append("%s passes `%s` to %s" % (parent.loc(pb), root, cal))
    # the local must not be captured by a closure (could be mutated out of sight)
    for cl in P.closures_of(parent):
        if root in (cl.upvars or {}).values():
            bad.append("captured by %s" % cl.name)
    if bad:
        return False, "; ".join(bad[:3])
    if pushes == 0:
        return False, "no push into %s.%s found (rule went vacuous)" % (root, vecfield)
    return True, "every element pushed into `%s…%s` (%d push site) has a small constant first field; a Vec length is at most isize::MAX" % (root, vecfield, pushes)


# ---------------------------------------------------------------------------------------------------------
KEYWORD_RULES = frozenset(["identifier"])


def check_case(ctx, A):
    """e.case: GSD keywords are case-insensitive.  The grammar matches its own keywords with ^"..." ; keywords that the
    code recognises by comparing the text of an `identifier` pair must be compared case-insensitively."""
    n = 0
    seen = set()
    for c in A.text_cmps:
        if not (c["rules"] <= KEYWORD_RULES):
            continue
        key = (c["fn"].name, c["lit"])
        if key in seen:
            continue
        seen.add(key)
        n += 1
        lit = c["lit"]
        ok = c["ignore_case"] or (c["norm"] == "lower" and lit == lit.lower()) or (c["norm"] == "upper" and lit == lit.upper())
        ctx.ob("e.case", "%s|%s" % (c["fn"].name, lit.lower()), ok,
               "identifier text is compared with %r %s: a file spelling the keyword in another case is not recognised" % (
                   lit, "without case normalisation" if not c["norm"] else "after %s-casing" % c["norm"]), c["fn"].loc(c["b"]))
    ctx.anchor("keyword comparisons on identifier text", n, 40)


CASE_SENSITIVE_OK = {"0x": "the hexadecimal prefix is lower-case in the GSD specification"}


def check_grammar_case(ctx, G):
    """e.case (grammar side): keywords matched by the grammar itself must be case-insensitive literals (^"...")"""
    n = 0

    def walk(e, acc):
        if isinstance(e, dict):
            if e.get("k") in ("str", "insens") and isinstance(e.get("v"), str):
                acc.append((e["k"], e["v"]))
            for v in e.values():
                walk(v, acc)
        elif isinstance(e, list):
            for v in e:
                walk(v, acc)
    for name, r in sorted(G.rules.items()):
        acc = []
        walk(r["expr"], acc)
        for k, v in acc:
            if not any(c.isalpha() for c in v):
                continue
            n += 1
            ok = k == "insens" or v in CASE_SENSITIVE_OK
            ctx.ob("e.case", "grammar|%s|%s" % (name, v.lower()), ok,
                   "grammar rule `%s` matches the literal %r case-sensitively: a file spelling it in another case is rejected or mis-parsed" % (name, v),
                   "gsd-parser/src/gsd.pest (%s)" % name)
    ctx.anchor("alphabetic literals in the grammar", n, 20)
    # line breaks: every line-ending style is accepted only through the NEWLINE builtin ("\n" | "\r\n" | "\r"); a literal "\n" / "\r"
    # in a rule accepts one style only (CR LF files would fail or be read differently)
    nn = 0
    for name, r in sorted(G.rules.items()):
        acc = []
        walk(r["expr"], acc)
        for k, v in acc:
            if "\n" in v or "\r" in v:
                nn += 1
                ctx.ob("f.continuation", "grammar-newline-literal|%s" % name, False,
                       "grammar rule `%s` matches the line break literally (%r) instead of with NEWLINE: only one line-ending style is accepted there" % (name, v),
                       "gsd-parser/src/gsd.pest (%s)" % name)
    ctx.ob("f.continuation", "grammar-newline-literals", nn == 0, "%d literal line breaks in the grammar" % nn)


def check_number_types(ctx, P):
    """g.signed: parse_number::<T> converts through u32 (T: TryFrom<u32>); a signed target type instantiated there can never hold a negative
    value, so signed quantities (defaults, ranges, text indices of ExtUserPrmData) must not be parsed through it."""
    n = 0
    for f in P.crate_fns(CRATE):
        if generated(f.name):
            continue
        for b, c in call_sites(f):
            if (c.get("callee") or "") == "parser::parse_number" or (c.get("callee") or "").endswith("::parse_number"):
                n += 1
                ty = (c.get("rsubsts") or c.get("substs") or ["?"])[0]
                ok = not re.match(r"^i(8|16|32|64|128|size)$", ty)
                ctx.ob("g.signed", "parse_number-instantiation|%s|%s" % (f.name, ty), ok,
                       "parse_number::<%s> parses through u32: negative values of this signed quantity are rejected (use the signed parser)" % ty, f.loc(b))
    ctx.anchor("parse_number call sites", n, 20)


def check_continuation(ctx, P):
    """f.continuation: a string literal is an atomic token, so a long-line marker (backslash + line break) inside the quotes is
    part of its text and has to be removed for both line-ending styles.  Only decided when the shape is recognised: the source
    reaches the pest parser unmodified and the literal is cleaned by a chain of str::replace(pattern, "")."""
    f = P.get(CRATE, "parser::parse_string_literal")
    inner = P.get(CRATE, "parser::parse_inner")
    if f is None or inner is None:
        ctx.notes.append("f.continuation: parse_string_literal not found - not decided")
        return
    tbi = TermBuilder(inner, P)
    raw = False
    for b, c in call_sites(inner):
        if (c.get("callee") or "").endswith("as pest::Parser<parser::gsd_parser::Rule>>::parse") and len(c["args"]) > 1:
            src = strip_refs(tbi.joperand(c["args"][1]))
            raw = src[0] == "arg"
    if not raw:
        ctx.notes.append("f.continuation: source is pre-processed before parsing - not decided")
        return
    tb = TermBuilder(f, P)
    from analysis.query import return_terms
    pats, recognised = set(), False
    for rt in return_terms(f, tb):
        cur = rt[2]
        # peel Ok(..)
        while cur[0] == "agg" and cur[3]:
            cur = cur[3][0]
        chain = []
        while cur[0] == "call" and cur[1].endswith("str>::replace") and len(cur[2]) == 3:
            pat, rep = strip_refs(cur[2][1]), strip_refs(cur[2][2])
            if pat[0] != "const" or rep[0] != "const" or rep[1] != "":
                chain = None
                break
            chain.append(pat[1])
            cur = strip_refs(cur[2][0])
            while cur[0] == "call" and cur[1].endswith(("as std::ops::Deref>::deref", "String::as_str")) and cur[2]:
                cur = strip_refs(cur[2][0])
        if chain and derives_from_pair_text(f, tb, cur):
            recognised = True
            pats |= set(chain)
    if not recognised:
        ctx.notes.append("f.continuation: cleaning code is not a replace() chain over Pair::as_str() - not decided")
        return
    for nl, nm in (("\n", "LF"), ("\r\n", "CR LF")):
        ctx.ob("f.continuation", "marker|" + nm, ("\\" + nl) in pats,
               "parse_string_literal removes the long-line markers %s but not backslash + %s: a string continued over a line break in a file with %s "
               "line endings keeps the marker" % (sorted(repr(p) for p in pats), nm, nm), "gsd-parser/src/parser.rs (parse_string_literal)")


def derives_from_pair_text(f, tb, t, depth=0):
    """does the term denote (a part of) the text of the pair: Pair::as_str() directly or through multi-def locals"""
    for x in subterms(t):
        if x[0] == "call" and x[1].endswith("Pair::<'i, R>::as_str"):
            return True
        if x[0] == "local" and depth < 4:
            for d in tb.defs.get(x[1], ()):
                if d[0] == "stmt":
                    dt = tb.rvalue(f.blocks[d[1]].stmts[d[2]]["rv"])
                else:
                    dt = tb.call_term(f.blocks[d[1]].term["call"])
                if derives_from_pair_text(f, tb, dt, depth + 1):
                    return True
    return False


# ---------------------------------------------------------------------------------------------------------
def gsd_local(f):
    for i, l in enumerate(f.locals):
        if l.get("name") and l["ty"].endswith("GenericStationDescription") and not l["ty"].startswith("&"):
            return i, l["name"]
    return None, None


def check_overwrite(ctx, P):
    f = ctx.need_fn(CRATE, "parser::parse_inner")
    if f is None:
        return
    gl, gname = gsd_local(f)
    if gl is None:
        ctx.ob("anchor", "local:gsd", False, "no local of type GenericStationDescription in parse_inner")
        return
    tb = TermBuilder(f, P)
    marks, commits = {}, []
    for b, blk in enumerate(f.blocks):
        if blk.cleanup:
            continue
        for i, s in enumerate(blk.stmts):
            if "a" not in s:
                continue
            pj = s["a"]
            if pj["l"] == gl and pj.get("p"):
                fl = [e.get("f") for e in pj["p"] if isinstance(e, dict) and "f" in e]
                if fl and fl[0] == "user_prm_data":
                    if len(fl) == 1:
                        commits.append((b, i))
                    else:
                        marks[(b, i)] = "extprm"
        t = blk.term
        if "call" in t:
            c = t["call"]
            cal = c.get("callee") or ""
            if c["args"] and c["argtys"] and c["argtys"][0].startswith("&mut") and P.get(CRATE, cal) is None:
                r = tb.joperand(c["args"][0])
                sr = show(r)
                if re.search(r"\b%s\.user_prm_data\b|field\(%s, user_prm_data\)" % (gname, gname), sr):
                    marks[(b, None)] = "extprm"
    ctx.anchor("stores of extended prm data into gsd.user_prm_data", len(marks), 2)
    ctx.anchor("end-of-parse legacy commit `gsd.user_prm_data = prm`", len(commits), 1)
    lname = None
    for b, i in commits:
        src = show(tb.rvalue(f.blocks[b].stmts[i]["rv"]))
        m = re.match(r"^(\w+)\.<Some>\.0$", src)
        if m:
            lname = m.group(1)
    if lname is None:
        ctx.ob("anchor", "legacy-commit-source", False, "the value committed at the end of parse_inner is not the payload of an Option local")
        return

    def keep(k):
        return k[0] == "count" or (k[0] == "discr" and k[1][0] == "local" and len(k[1]) > 2 and k[1][2] == lname)
    ga = GuardAnalysis(f, P, mem_kill=True, modsets=ModSets(P), marks=marks, max_disj=24, keep_key=keep)
    for (b, i) in commits:
        S = ga.at(b, i)
        vals = set()
        for d in S:
            vs = d.get(("count", "extprm"))
            vals |= set(vs[1]) if vs is not None else {0}
        ok = vals <= {0}
        ctx.ob("b.overwrite", "legacy-commit-after-extprm", ok,
               "the legacy User_Prm_Data record is committed over gsd.user_prm_data on a path that already stored Ext_User_Prm_Data_* "
               "entries there (an arm storing extended data does not clear the legacy record): counter values %s" % sorted(vals), f.loc(b))
        if ok:
            ctx.sample("%s: every path that stored into gsd.user_prm_data.* reaches the legacy commit with legacy_prm = None (infeasible)" % f.loc(b))


# ---------------------------------------------------------------------------------------------------------
def rate_of_keyword(s):
    m = re.match(r"^([0-9]+(?:\.[0-9]+)?)(m?)$", s)
    if not m:
        return None
    v = float(m.group(1)) * (1000000 if m.group(2) else 1000)
    return int(round(v))


def _const_operand(f, tb, a, depth=0):
    """the constant an operand evaluates to, through single-definition temporaries / parameters of a folded helper: JSON `k` or None"""
    if "k" in a:
        return a["k"]
    pj = a.get("mv") or a.get("cp")
    if pj is None or pj.get("p") or depth > 6:
        return None
    ds = tb.defs.get(pj["l"], ())
    if len(ds) == 1 and ds[0][0] == "stmt":
        rv = f.blocks[ds[0][1]].stmts[ds[0][2]]["rv"]
        if "use" in rv:
            return _const_operand(f, tb, rv["use"], depth + 1)
    return None


def check_tables(ctx, P):
    f = ctx.need_fn(CRATE, "parser::parse_inner")
    if f is None:
        return
    ctb = TermBuilder(f, P)
    arms = []  # (keyword, true-target block)
    for b, blk in enumerate(f.blocks):
        t = blk.term
        if "call" in t and (t["call"].get("callee") or "").endswith("PartialEq for str>::eq"):
            k = None
            for a in t["call"]["args"]:
                if "k" in a and "str" in a["k"]:
                    k = a["k"]["str"]
            tgt = t["call"]["target"]
            if k is None or tgt is None:
                continue
            sw = f.blocks[tgt].term
            if "switch" in sw and sw.get("sty") == "bool":
                arms.append((k, sw["otherwise"], b))
    ctx.anchor("keyword arms (string comparisons) in parse_inner", len(arms), 40)
    nsupp = ntsdr = 0
    for k, entry, b in arms:
        region = dominated(f, entry)
        m1 = re.match(r"^(.*)_supp$", k)
        m2 = re.match(r"^maxtsdr_(.*)$", k)
        rate = rate_of_keyword(m1.group(1)) if m1 else (rate_of_keyword(m2.group(1)) if m2 else None)
        if rate is None:
            continue
        if m1:
            nsupp += 1
            flags = []
            for rb in region:
                t = f.blocks[rb].term
                if "call" in t and "bitor_assign" in (t["call"].get("callee") or ""):
                    for a in t["call"]["args"]:
                        ci = (_const_operand(f, ctb, a) or {}).get("const_item")
                        if ci:
                            flags.append(ci.split("::")[-1])
            ok = flags == ["B%d" % rate]
            ctx.ob("c.tables", "supp|%s" % k, ok, "keyword `%s` (%d bit/s) sets %s, expected [B%d]" % (k, rate, flags, rate), f.loc(b))
        else:
            ntsdr += 1
            fields = []
            for rb in region:
                for s in f.blocks[rb].stmts:
                    if "a" in s and s["a"].get("p"):
                        fl = [e.get("f") for e in s["a"]["p"] if isinstance(e, dict) and "f" in e]
                        if len(fl) >= 2 and fl[0] == "max_tsdr":
                            fields.append(fl[1])
            ok = fields == ["b%d" % rate]
            ctx.ob("c.tables", "maxtsdr|%s" % k, ok, "keyword `%s` (%d bit/s) stores into max_tsdr.%s, expected [b%d]" % (k, rate, fields, rate), f.loc(b))
    ctx.anchor("<rate>_supp keyword arms", nsupp, 11)
    # the flag constants themselves: distinct single bits (two speeds sharing a bit would be reported together)
    vals = {}
    for k, entry, b in arms:
        for rb in dominated(f, entry):
            t = f.blocks[rb].term
            if "call" in t and "bitor_assign" in (t["call"].get("callee") or ""):
                for a in t["call"]["args"]:
                    kk = _const_operand(f, ctb, a) or {}
                    ci = kk.get("const_item")
                    if ci:
                        try:
                            vals[ci.split("::")[-1]] = int(kk["fields"][0]["fields"][0]["int"])
                        except Exception:
                            vals[ci.split("::")[-1]] = None
    bits = [v for v in vals.values()]
    okb = len(vals) >= 11 and all(v is not None and v > 0 and (v & (v - 1)) == 0 for v in bits) and len(set(bits)) == len(bits)
    ctx.ob("c.tables", "speed-flags-distinct", okb, "SupportedSpeeds constants must be distinct single bits, found %s" % dict(sorted(vals.items())), f.loc(0))
    ctx.anchor("MaxTsdr_<rate> keyword arms", ntsdr, 11)


def dominated(f, entry):
    """blocks dominated by `entry` (the arm of a match on strings), computed by reachability without passing a block that
    has a predecessor outside the region"""
    region = {entry}
    changed = True
    order = [entry]
    while order:
        x = order.pop()
        for y in f.succ[x]:
            if y in region or f.blocks[y].cleanup:
                continue
            if all(p in region or f.blocks[p].cleanup for p in f.pred[y]):
                region.add(y)
                order.append(y)
    # second pass: blocks whose predecessors joined the region later
    changed = True
    while changed:
        changed = False
        for x in list(region):
            for y in f.succ[x]:
                if y not in region and not f.blocks[y].cleanup and all(p in region or f.blocks[p].cleanup for p in f.pred[y]):
                    region.add(y)
                    changed = True
    return region


if __name__ == "__main__":
    rule.run("C19", check, "other",
             "R-PANIC over the hand-written GSD parser with a grammar-shape typestate (pest grammar -> child-sequence automata -> abstract "
             "interpretation of MIR), path-sensitive Option guards, a provenance rule for the one integer addition; plus the legacy-commit "
             "overwrite rule and the keyword<->field tables.  Does not decide field-by-field equality with the file text.",
             trusted_base=["rustc MIR (nightly) via engines/mirfacts", "pest_meta parser/optimizer (engines/pestshape)", "pest runtime conformance to the grammar",
                           "std functions outside MAY_PANIC_EXTERN do not panic"],
             crates=("gsd_parser",))
