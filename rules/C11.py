"""C11  Token hand-over follows the acceptance, supervision and retry rules.

Decides (single station, environment fully non-deterministic):
 a  typestate: a token is accepted (transition into UseToken) only from ActiveIdle (received token),
    PassToken (alone in the ring) or AwaitDataResponse (continuing its own hold); never while
    listening – the one-poll transition relation has no edge from ListenToken into a token-holding
    or token-passing state;
 b  acceptance guards: the two accepting sites for a received token require a token telegram from
    another station, addressed to this station, being the last buffered telegram, and either the
    registered predecessor as sender or the same sender as the pending (declined once) candidate;
    the declining path records the sender; ActiveIdle is (re-)entered with no pending candidate;
 c  supervision table: after a pass the retry / removal transitions happen only when the slot
    expired; attempts go First -> Second -> Third -> remove successor and start again at First; the
    successor is removed at exactly one site, under attempt == Third, and it is the current successor;
 d  the pass itself: token goes to the current successor from this station, the attempt counter is
    carried unchanged into the supervision state, slot expiry compares with last bus activity + slot time;
 e  alone in the ring (successor == self) the station keeps the token.
"""
from analysis import rule
from analysis.guards import GuardAnalysis
from analysis.terms import TermBuilder, show, path_str, strip_refs, strip_casts, subterms, simplify
from analysis.query import call_sites, callee_is, stmts, has_field, constructions
from analysis.ir import mk_place
from analysis import match as M
from rules import fdlstate

PID = "C11"
CR = "profirust"
SK = ("discr", ("field", fdlstate.SELF, "state"))


def states_of(S):
    out = set()
    for fs in S:
        v = fs.get(SK)
        out |= set(v[1]) if v is not None and v[0] == "in" else {"?"}
    return out


def fdl_fns(P):
    return [f for f in P.crate_fns(CR) if f.module == "fdl::active" and f.kind in ("assoc", "closure", "fn")]


def is_sa(t):
    return (path_str(strip_casts(t)) or "").endswith(".sa") and "Token" in (path_str(strip_casts(t)) or "")


def is_da(t):
    return (path_str(strip_casts(t)) or "").endswith(".da") and "Token" in (path_str(strip_casts(t)) or "")


def is_own(t):
    return (path_str(strip_casts(t)) or "") == "self.p.address"


def is_prev(t):
    t = strip_casts(strip_refs(t))
    return (t[0] == "call" and M.callee_matches(t[1], "previous_station")) or (path_str(t) or "") == "self.token_ring.previous_station"


def is_next(t):
    t = strip_casts(strip_refs(t))
    return (t[0] == "call" and M.callee_matches(t[1], "next_station")) or (path_str(t) or "") == "self.token_ring.next_station"


def is_pending(t):
    return "new_previous_station" in (path_str(strip_casts(t)) or "")


def check(ctx):
    P = ctx.prog
    ip, inv, muts = fdlstate.station_analysis(P)
    fns = fdl_fns(P)
    # ---------------- a: typestate of token acceptance -------------------------------------------
    sites = []
    for f in fns:
        for b, c in call_sites(f, lambda c: callee_is(c, "fdl::active::State::transition_use_token")):
            sites.append((f, b))
    ctx.anchor("transition_use_token call sites", len(sites), 4)
    allowed = {"ActiveIdle", "PassToken", "AwaitDataResponse"}
    for f, b in sites:
        S = ip.facts_at(f.name, b)
        st = states_of(S)
        n = sum(1 for o in ctx.obligations if o["key"].startswith("%s|a.typestate|use-token-site|%s" % (PID, f.name)))
        ctx.ob("a.typestate", "use-token-site|%s|%d" % (f.name, n), bool(S) and st <= allowed,
               "the token is taken (transition_use_token) in state(s) %s; allowed only from %s" % (sorted(st), sorted(allowed)), f.loc(b))
        ctx.sample({"site": f.loc(b), "states": sorted(st), "contexts": len(S)})
    poll = muts[-1]
    bad = set()
    nlisten = 0
    for cx in ip.contexts_of(poll.name):
        ent = states_of(cx.entry)
        if ent == {"ListenToken"}:
            nlisten += 1
            for ex in cx.exits:
                v = ex.get(SK)
                outs = set(v[1]) if v is not None else {"?"}
                bad |= outs - {"ListenToken", "ActiveIdle", "ClaimToken", "Offline"}
    ctx.anchor("poll contexts entered in ListenToken", nlisten, 1)
    ctx.ob("a.typestate", "listen-never-accepts", not bad,
           "a station that is merely listening can reach %s within one poll (it must never accept or pass a token while listening)" % sorted(bad))
    # ---------------- b: acceptance guards --------------------------------------------------------
    nacc = 0
    for f, b in sites:
        g = GuardAnalysis(f, P)
        S = g.at(b)
        if not S or not all(fs.get(("discr", ("arg", "telegram"))) == ("in", frozenset(["Token"])) for fs in S):
            continue  # not a "token received" site
        nacc += 1
        loc = f.loc(b)
        k = "accept#%d" % nacc
        need = [("telegram is a token", lambda k_: k_ == ("discr", ("arg", "telegram")), {"Token"}),
                ("sender is not this station", M.key_cmp("eq", is_sa, is_own), {False}),
                ("addressed to this station", M.key_cmp("eq", is_da, is_own), {True}),
                ("last buffered telegram", lambda k_: (path_str(k_) or "") == "is_last_telegram", {True})]
        for what, kp, allowed_v in need:
            ok, w = M.all_disj(S, kp, allowed_v)
            ctx.ob("b.accept", "%s|%s" % (k, what), ok, "token accepted without the guard `%s`: %s" % (what, w), loc)
        bad_cls = []
        for fs in S:
            one = frozenset([fs])
            from_pred = M.all_disj(one, M.key_cmp("eq", is_prev, is_sa), {True})[0]
            from_pending = (M.all_disj(one, M.key_discr_where(is_pending), {"Some"})[0]
                            and M.all_disj(one, M.key_cmp("eq", lambda t: is_pending(t) and "<Some>" in (path_str(strip_casts(t)) or ""), is_sa), {True})[0])
            if not (from_pred or from_pending):
                bad_cls.append(M.fmt_facts(fs))
        ctx.ob("b.accept", k + "|sender", not bad_cls,
               "token accepted from a station that is neither the registered predecessor nor the candidate that already offered it once: " + "; ".join(bad_cls[:2]), loc)
    ctx.anchor("token acceptance sites (guarded by a received token telegram)", nacc, 2)
    # the declining path records the sender
    nrec = 0
    for f in fns:
        tb = None
        for b, i, s in stmts(f):
            if "a" in s:
                tb = tb or TermBuilder(f, P)
                pt = tb.place(mk_place(s["a"]))
                if mk_place(s["a"])[1] and is_pending(pt) and not "<Some>" in (path_str(pt) or ""):
                    v = tb.rvalue(s["rv"])
                    if v[0] == "agg" and v[2] == "Some":
                        nrec += 1
                        g = GuardAnalysis(f, P)
                        S = g.at(b, i)
                        ok_v = is_sa(v[3][0])
                        ok1, w1 = M.all_disj(S, M.key_cmp("eq", is_prev, is_sa), {False})
                        ok2, w2 = M.all_disj(S, M.key_cmp("eq", is_da, is_own), {True})
                        ctx.ob("b.accept", "decline-records-sender", ok_v and ok1 and ok2,
                               "the declined token's sender must be recorded as the pending predecessor candidate (value %s): %s %s" % (show(v), w1, w2), f.loc(b, i))
    ctx.anchor("stores recording a pending predecessor candidate", nrec, 1)
    for c in constructions(P, CR, "fdl::active::State", "ActiveIdle"):
        f = c["fn"]
        tb = TermBuilder(f, P)
        names = c["rv"]["fnames"]
        v = tb.joperand(c["rv"]["fields"][names.index("new_previous_station")])
        ctx.ob("b.accept", "idle-starts-without-candidate|%s" % f.name, v[0] == "agg" and v[2] == "None",
               "ActiveIdle is entered with a pre-set predecessor candidate (%s): a stranger's *first* offer could be accepted" % show(v), f.loc(c["b"], c["i"]))
    # ---------------- c: supervision table -------------------------------------------------------
    sup = [f for f in fns if any(True for _ in call_sites(f, lambda c: callee_is(c, "fdl::token_ring::TokenRing::remove_station")))]
    rem_sites = [(f, b, c) for f in P.crate_fns(CR) for b, c in call_sites(f, lambda c: callee_is(c, "fdl::token_ring::TokenRing::remove_station"))]
    ctx.ob("c.supervision", "single-removal-site", len(rem_sites) == 1, "the successor must be removed at exactly one site, found %d" % len(rem_sites))
    ATT = lambda k_: k_[0] == "discr" and (path_str(k_[1]) or "").endswith("<CheckTokenPass>.attempt")
    EXP = lambda k_: strip_refs(k_)[0] == "call" and M.callee_matches(strip_refs(k_)[1], "check_slot_expired")
    for f in sup:
        ctx.analysed_fns.add(f.name)
        g = GuardAnalysis(f, P)
        tb = g.tb
        table = {}
        for b, c in call_sites(f, lambda c: callee_is(c, "fdl::active::State::transition_pass_token")):
            S = g.at(b)
            ok, w = M.all_disj(S, EXP, {True})
            args = [tb.joperand(a) for a in c["args"]]
            def variant_in(fs, a):
                """the variant passed: a constant, or a variable whose variant is known in this path class (`let next = match .. {..}`)"""
                if a[0] == "agg":
                    return a[2]
                vs_ = fs.get(("discr", strip_refs(a)))
                return next(iter(vs_[1])) if vs_ is not None and vs_[0] == "in" and len(vs_[1]) == 1 else "?"
            tgt = args[2][2] if args[2][0] == "agg" else "?"
            for fs in S:
                tgt_fs, dg = variant_in(fs, args[2]), variant_in(fs, args[1])
                if tgt == "?" and tgt_fs != "?":
                    tgt = "(per path)"
                for k_, vs in fs.items():
                    if ATT(k_) and vs[0] == "in":
                        for v in vs[1]:
                            table[v] = (tgt_fs, dg) if table.get(v, (tgt_fs, dg)) == (tgt_fs, dg) else ("ambiguous", dg)
            ctx.ob("c.supervision", "retry-only-after-slot|%s" % tgt, ok, "a token pass is repeated (attempt %s) although the slot time has not expired: %s" % (tgt, w), f.loc(b))
        want = {"First": ("Second", "No"), "Second": ("Third", "No"), "Third": ("First", "No")}
        ctx.ob("c.supervision", "attempt-table", table == want, "attempt table after an expired slot is %s, required %s (repeat at most twice, then start over with the new successor)" % (table, want), f.loc(0))
        for b, c in call_sites(f, lambda c: callee_is(c, "fdl::token_ring::TokenRing::remove_station")):
            S = g.at(b)
            ok1, w1 = M.all_disj(S, EXP, {True})
            ok2, w2 = M.all_disj(S, ATT, {"Third"})
            arg = tb.joperand(c["args"][1])
            ctx.ob("c.supervision", "removal-guard", ok1 and ok2 and is_next(arg),
                   "the successor is removed without (slot expired ∧ third attempt) or it is not the current successor (%s): %s %s" % (show(arg), w1, w2), f.loc(b))
        for b, c in call_sites(f, lambda c: callee_is(c, "do_pass_token")):
            ok, w = M.all_disj(g.at(b), EXP, {True})
            ctx.ob("c.supervision", "repass-after-slot", ok, "the token is re-sent without an expired slot: " + w, f.loc(b))
        ctx.sample({"attempt_table": table})
    ctx.anchor("supervision function (calls remove_station)", len(sup), 1)
    check_slot_expiry(ctx, P)
    # the slot supervision distinguishes silence from a partially received telegram by the pending-byte count and measures from the
    # last bus activity: clauses g.rx / b.sync-pause(ongoing transmission) of C01
    from rules import C01
    rule.import_clauses(ctx, "C01", lambda s_: (C01.check_rx(s_, P), C01.check_ongoing_tx(s_, P)), as_clause="c.supervision")
    check_candidate_kept(ctx, P, ip, fns)
    check_any_telegram_verifies(ctx, P, fns)
    # ---------------- d/e: the pass itself ---------------------------------------------------------
    check_pass(ctx, P, fns)


def check_candidate_kept(ctx, P, ip, fns):
    """b (repeated candidate): the sender whose first offer was declined is recorded in ActiveIdle and must still be known when it
    repeats the offer.  Re-entering ActiveIdle *from ActiveIdle* (transition_active_idle) re-creates the state without that record,
    so no call of transition_active_idle may be made in typestate ActiveIdle."""
    n = 0
    for f in fns:
        for b, c in call_sites(f, lambda c: callee_is(c, "fdl::active::State::transition_active_idle")):
            n += 1
            st = states_of(ip.facts_at(f.name, b))
            where = f
            if f.kind == "closure" and (not st or st == {"?"}):
                # a receive callback: the station is in the typestate of the handler that installed it
                parent = P.get(CR, f.name.rsplit("::{closure", 1)[0])
                if parent is not None:
                    ptb = TermBuilder(parent, P)
                    sts = set()
                    for pb, pc in call_sites(parent):
                        if not pc["args"]:
                            continue
                        clo = ptb.joperand(pc["args"][-1])
                        if clo[0] == "agg" and str(clo[1]) == "closure:" + f.name:
                            sts |= states_of(ip.facts_at(parent.name, pb))
                    st = sts or {"?"}
            ok = bool(st) and "ActiveIdle" not in st and "?" not in st
            ctx.ob("b.accept", "candidate-kept|%s" % f.name.split("::", 3)[-1], ok,
                   "transition_active_idle() is called in typestate %s: re-entering ActiveIdle from ActiveIdle forgets the recorded candidate "
                   "predecessor (a repeated token offer would be declined again)" % sorted(st), f.loc(b))
    ctx.anchor("transition_active_idle call sites", n, 3)


def check_any_telegram_verifies(ctx, P, fns):
    """c (supervision): the token pass counts as verified as soon as *any* complete telegram is heard within the slot - the receive
    callback of the CheckTokenPass handler must leave CheckTokenPass (transition_active_idle) on every path taken for the first telegram."""
    n = 0
    for f in fns:
        if f.kind == "closure" or not any(True for _ in call_sites(f, lambda c: callee_is(c, "fdl::active::State::transition_pass_token"))) \
                or not f.name.endswith("do_check_token_pass"):
            continue
        for b, c in call_sites(f, lambda c: callee_is(c, "phy::ProfibusPhy::receive_all_telegrams", "phy::ProfibusPhy::receive_telegram")):
            tb = TermBuilder(f, P)
            clo = tb.joperand(c["args"][-1])
            if not (clo[0] == "agg" and str(clo[1]).startswith("closure:")):
                continue
            cf = P.get(CR, clo[1][len("closure:"):])
            if cf is None:
                continue
            n += 1
            marks = {(cb, None): "idle" for cb, cc in call_sites(cf, lambda cc: callee_is(cc, "fdl::active::State::transition_active_idle"))}
            g = GuardAnalysis(cf, P, marks=marks)
            bad = []
            for rb in cf.return_blocks:
                for fs in g.at(rb):
                    first = [vs for k, vs in fs.items() if "first_in" in show(k) and k[0] in ("upvar", "deref", "field", "local")]
                    if first and first[0] == ("in", frozenset([True])) and 0 in g.count_of(fs, "idle"):
                        bad.append(M.fmt_facts(fs)[:160])
            ctx.ob("c.supervision", "verified-by-any-telegram", bool(marks) and not bad,
                   "the first telegram heard after a token pass can be processed without leaving CheckTokenPass (the pass would be repeated and the "
                   "successor finally removed although the bus was not silent): %s" % "; ".join(bad[:1]), cf.loc(0))
    ctx.anchor("receive callback of the CheckTokenPass handler", n, 1)


def check_slot_expiry(ctx, P):
    # slot expiry definition
    cse = ctx.need_fn(CR, "fdl::active::FdlActiveStation::check_slot_expired")
    if cse is not None:
        tb = TermBuilder(cse, P)
        from analysis.query import return_terms
        rets = [simplify(t) for b, i, t in return_terms(cse, tb)]
        def ok_ret(t):
            s_ = show(t)
            return "slot_time" in s_ and "now" in s_ and "last_bus_activity" in s_ and "bits_to_time" not in s_
        ctx.ob("d.pass", "slot-expiry-definition", bool(rets) and all(ok_ret(r) for r in rets),
               "check_slot_expired must compare `now` with last bus activity + slot time on every path, found %s" % [show(r)[:120] for r in rets], cse.loc(0))


def check_pass(ctx, P, fns):
    passers = [f for f in fns if f.kind != "closure" and any(True for _ in call_sites(f, lambda c: callee_is(c, "fdl::active::State::transition_check_token_pass")))]
    ctx.anchor("function performing the token pass", len(passers), 1)
    for f in passers:
        ctx.analysed_fns.add(f.name)
        g = GuardAnalysis(f, P)
        tb = g.tb
        for b, c in call_sites(f, lambda c: callee_is(c, "fdl::active::State::transition_check_token_pass")):
            a = tb.joperand(c["args"][1])
            ctx.ob("d.pass", "attempt-carried", (path_str(strip_casts(a)) or "").endswith("<PassToken>.attempt"),
                   "the attempt counter must be carried unchanged into the supervision state, found " + show(a), f.loc(b))
            ok, w = M.all_disj(g.at(b), M.key_cmp("eq", is_next, is_own), {False})
            ctx.ob("e.alone", "supervise-only-if-not-alone", ok, "token pass supervised although the successor may be this station: " + w, f.loc(b))
        for b, c in call_sites(f, lambda c: callee_is(c, "fdl::active::State::transition_use_token")):
            ok, w = M.all_disj(g.at(b), M.key_cmp("eq", is_next, is_own), {True})
            ctx.ob("e.alone", "keep-token-if-alone", ok, "the station keeps the token although it is not its own successor: " + w, f.loc(b))
        # the token telegram
        for cf in P.closures_of(f):
            ctb = TermBuilder(cf, P)
            for b, c in call_sites(cf, lambda c: callee_is(c, "send_token_telegram")):
                from rules.C04 import upvar_terms
                up = upvar_terms(P, cf)
                def res(t):
                    t = strip_refs(strip_casts(t))
                    if t[0] == "call":
                        t = ("call", t[1], tuple(res(x) for x in t[2]))
                    if t[0] == "upvar":
                        return up.get(t[1], t)
                    return t
                da, sa = res(ctb.joperand(c["args"][1])), res(ctb.joperand(c["args"][2]))
                da_ok = is_next(da) or (da[0] == "call" and M.callee_matches(da[1], "next_station"))
                sa_ok = (path_str(sa) or "").endswith("p.address") or "address" in show(sa)
                ctx.ob("d.pass", "token-addressing", da_ok and sa_ok, "the token must go to the current successor from this station, found da=%s sa=%s" % (show(da), show(sa)), cf.loc(b))


if __name__ == "__main__":
    rule.run(PID, check, level="other",
             explanation="Typestate of token acceptance from the interprocedural variant analysis of poll() (global invariant, non-deterministic "
                         "environment); acceptance, supervision and pass guards from the path-sensitive must-guard analysis; attempt table extracted.",
             trusted_base=["rustc MIR (nightly) as extracted by engines/mirfacts", "callback contracts of the provided PHY helpers (checked by C16)"],
             thorough_configs=("no_default", "alloc"))
