"""C12  GAP maintenance polls exactly the own GAP and status replies are truthful.

Decides:
 a  (level proof, zone domain with path partitioning) the post-condition of next_gap_poll for all
    (current, TS, NS, HSA) with TS < HSA <= 126 and current <= HSA-1: every returned DoPoll{a} has a
    strictly inside the cyclic interval (TS, NS) – in particular a != TS – and a <= HSA-1; the
    function's own arithmetic cannot overflow under the same hypotheses;
 a' provenance: the address of every GAP status request is a value returned by next_gap_poll
    against the *current* successor (no token-ring write between the computation and the request);
    the marker DoPoll{TS} ("start behind me") is (re-)set whenever the token is claimed;
 b  the request goes to that address from this station and is the only status-request sender of the
    active station;
 c  one poll per token visit: DoGap::Yes is handed to the pass only from UseToken, the poll in the
    pass is guarded by do_gap == Yes; after a claim the pass starts only once the whole GAP was scanned;
 d  wait counter: a new sweep starts only when rotation_count > gap_wait_rotations, otherwise the
    counter advances by one; a finished sweep restarts the counter at 0;
 e  a polled station becomes the successor only on a Data/Response/Ok reply from the polled address to
    this station reporting "master ready" or "master in ring";
 f  truthful replies: "ready" only when the LAS is valid and the requester is the predecessor, else
    "not ready"; "in ring" from ActiveIdle; replies go to the recorded requester from this station;
    requests are recorded only if addressed to this station and last in the buffer; the LAS becomes
    valid only from Verification under a verified pass at the wrap-around (or by claiming), and a pass
    verifies only if source and destination are both known active with no active station between.
Does not decide: that every GAP address is polled within a bounded number of visits.
"""
from analysis import rule
from analysis.guards import GuardAnalysis
from analysis.numdom import NumAnalysis, Z, INF
from analysis.terms import TermBuilder, show, path_str, strip_refs, strip_casts, subterms, simplify
from analysis.query import call_sites, callee_is, stmts, has_field, constructions, return_terms
from analysis.modset import ModSets
from analysis.ir import mk_place
from analysis import match as M
from rules import fdlstate
from rules.C11 import fdl_fns, states_of, is_own, SK
from rules.C04 import upvar_terms

PID = "C12"
CR = "profirust"
ST = "fdl::active::FdlActiveStation"

TS = ("v", 1, (("deref",), ("f", "p"), ("f", "address")))
HSA = ("v", 1, (("deref",), ("f", "p"), ("f", "highest_station_address")))
CURA = ("v", 2, ())


def gap_hyps(na, st):
    st.z.set_interval(TS, 0, 125)
    st.z.set_interval(HSA, 1, 126)
    st.z.add(TS, HSA, -1)  # TS <= HSA-1
    st.z.set_interval(CURA, 0, 125)
    st.z.add(CURA, HSA, -1)  # current <= HSA-1


def check_offline_forgets_ring(ctx, P):
    """d'.truthful (offline): "not ready until two identical token rotations were seen" must also hold after set_offline()/set_online():
    going offline re-creates the station, or replaces its token ring (LAS, validity, PS/NS) by a freshly constructed one, on every path."""
    f = ctx.need_fn(CR, ST + "::set_state")
    if f is None:
        return
    tb = TermBuilder(f, P)
    marks = {}
    for b, i, s in stmts(f):
        if "a" in s and mk_place(s["a"]) == (1, (("deref",),)):
            marks[(b, i)] = "whole"
    for b, c in call_sites(f):
        if mk_place(c["dest"]) == (1, (("deref",),)):
            marks[(b, None)] = "whole"
        d = c.get("dest")
        if d and has_field(d, "token_ring", None) and M.callee_matches(c.get("callee") or "", "TokenRing::new"):
            fields = [x for x in d.get("p", []) if isinstance(x, dict) and "f" in x]
            if len(fields) == 1:
                marks[(b, None)] = "whole"
    g = GuardAnalysis(f, P, mem_kill=True, modsets=ModSets(P), marks=marks)
    bad = []
    n = 0
    for rb in f.return_blocks:
        for fs in g.at(rb):
            off = [vs for k, vs in fs.items() if k[0] == "discr" and show(k[1]) in ("state", "self.connectivity_state") and vs == ("in", frozenset(["Offline"]))]
            if not off:
                continue
            n += 1
            if 0 in g.count_of(fs, "whole"):
                bad.append(M.fmt_facts(fs)[:200])
    ctx.ob("d.truthful", "offline-forgets-ring", n >= 1 and not bad,
           "set_state(Offline) can return without re-creating the station or its token ring: after going online again the station still holds its "
           "old list of active stations as valid and reports `ready` (and may accept a token) before it has seen two identical token "
           "rotations: " + "; ".join(bad[:1]), f.loc(0))


def check(ctx):
    P = ctx.prog
    check_next_gap_poll(ctx, P)
    check_provenance(ctx, P)
    check_typestate(ctx, P)
    check_wait_counter(ctx, P)
    check_reply_eval(ctx, P)
    check_truthful(ctx, P)
    check_offline_forgets_ring(ctx, P)


# ------------------------------------------------------------------------------------------------
def check_next_gap_poll(ctx, P):
    f = ctx.need_fn(CR, ST + "::next_gap_poll")
    if f is None:
        return
    ctx.assume("Parameters built by ParametersBuilder: address < highest_station_address <= 126")
    ctx.assume("GapState::DoPoll payload <= HSA-1 (writers: the own address marker and results of next_gap_poll, checked in a')")
    na = NumAnalysis(f, P, entry_hook=gap_hyps, max_disj=64)
    for key, o in sorted(na.obligations.items()):
        ctx.ob("a.postcondition", "arith|%s|%s" % (o["kind"], key[1]), o["ok"] is True, "%s in next_gap_poll: %s" % (o["kind"], o["detail"]), f.loc(o["b"]))
    # the successor NS is the value returned by token_ring.next_station()
    ns_local = None
    for b, c in call_sites(f, lambda c: callee_is(c, "fdl::token_ring::TokenRing::next_station")):
        ns_local = c["dest"]["l"]
    ctx.ob("a.postcondition", "ns-anchor", ns_local is not None, "next_gap_poll does not read the successor through TokenRing::next_station()", f.loc(0))
    if ns_local is None:
        return
    # resolve copies of the call result into the named local
    NS = ("v", ns_local, ())
    npoll = 0
    for b, i, s in stmts(f):
        if "a" in s and s["rv"].get("agg") == "adt" and s["rv"].get("adt", "").endswith("GapState") and s["rv"].get("variant") == "DoPoll":
            npoll += 1
            a_op = s["rv"]["fields"][0]
            bad = []
            for st in na.states_before(b, i):
                a = na.ev_operand(st, a_op)
                av = None
                for (v, lo, hi) in a["rel"]:
                    if v != Z and lo == 0 and hi == 0:
                        av = v
                if av is None:
                    bad.append("polled address is not a tracked variable")
                    continue
                def ent(x, y, c):  # x - y <= c
                    return st.z.get(x, y) <= c
                # NS may live in a copy: find a variable equal to the call result
                ns = NS
                ns_gt_ts = ent(TS, ns, -1)
                ns_le_ts = ent(ns, TS, 0)
                a_gt_ts = ent(TS, av, -1)
                a_lt_ns = ent(av, ns, -1)
                inside = (ns_gt_ts and a_gt_ts and a_lt_ns) or (ns_le_ts and (a_gt_ts or a_lt_ns))
                below_hsa = ent(av, HSA, -1)
                not_self = a_gt_ts or ent(av, TS, -1)
                if not (inside and below_hsa and not_self):
                    bad.append("a in [%s,%s]: a-TS>=%s, a-NS<=%s, NS-TS in [%s,%s], a-HSA<=%s" % (
                        st.z.lo(av), st.z.hi(av), -st.z.get(TS, av), st.z.get(av, ns), -st.z.get(TS, ns), st.z.get(ns, TS), st.z.get(av, HSA)))
            ctx.ob("a.postcondition", "dopoll-inside-gap#%d" % npoll, not bad,
                   "next_gap_poll can return DoPoll{a} with a outside the own GAP (TS, NS) or >= HSA or == TS; undischarged path classes: " + "; ".join(bad[:3]), f.loc(b, i))
    ctx.anchor("DoPoll results constructed in next_gap_poll", npoll, 1)
    # Waiting results restart the counter at 0
    tb = TermBuilder(f, P)
    for c in constructions(P, CR, "fdl::active::GapState", "Waiting"):
        if c["fn"] is f:
            v = tb.joperand(c["rv"]["fields"][0])
            ctx.ob("d.wait", "sweep-end-restarts-counter", v == ("const", 0), "a finished sweep must restart the rotation counter at 0, found " + show(v), f.loc(c["b"], c["i"]))


# ------------------------------------------------------------------------------------------------
def check_provenance(ctx, P):
    fns = fdl_fns(P)
    ms = ModSets(P)
    # every DoPoll construction outside next_gap_poll carries the own address (marker)
    nmark = 0
    for c in constructions(P, CR, "fdl::active::GapState", "DoPoll"):
        f = c["fn"]
        if f.name.endswith("::next_gap_poll") or f.j.get("derived"):
            continue
        tb = TermBuilder(f, P)
        v = strip_casts(tb.joperand(c["rv"]["fields"][0]))
        nmark += 1
        ok = (path_str(v) or "") in ("self.p.address", "param.address")
        ctx.ob("a'.provenance", "marker|%s" % f.name, ok, "GapState::DoPoll constructed with %s: outside next_gap_poll only the own address (start marker) is allowed" % show(v), f.loc(c["b"], c["i"]))
    ctx.anchor("DoPoll marker constructions", nmark, 2)
    # status request sender
    senders = []
    for f in fns:
        for b, c in call_sites(f, lambda c: callee_is(c, "send_fdl_status_request")):
            senders.append((f, b, c))
    ctx.ob("b.request", "single-sender", len(senders) == 1, "exactly one FDL status request sender expected in the active station, found %d" % len(senders))
    for cf, b, c in senders:
        ctb = TermBuilder(cf, P)
        up = upvar_terms(P, cf)
        def res(t):
            t = strip_refs(strip_casts(t))
            return up.get(t[1], t) if t[0] == "upvar" else t
        da, sa = res(ctb.joperand(c["args"][1])), res(ctb.joperand(c["args"][2]))
        ok_da = "gap_state" in (path_str(da) or "") and "DoPoll" in (path_str(da) or "")
        ok_sa = (path_str(sa) or "").endswith("p.address")
        ctx.ob("b.request", "addressing", ok_da and ok_sa, "GAP status request must go to the DoPoll address from this station, found da=%s sa=%s" % (show(da), show(sa)), cf.loc(b))
    # callers of the transmit helper: computed against the current successor
    helper = None
    for cf, b, c in senders:
        helper = P.get(CR, cf.parent)
    if helper is None:
        return
    ncall = 0
    for f in fns:
        sites = [(b, c) for b, c in call_sites(f, lambda c: (c.get("callee") or "") == helper.name)]
        if not sites:
            continue
        ctx.analysed_fns.add(f.name)
        tb = TermBuilder(f, P)
        marks = {}
        for b, i, s in stmts(f):
            if "a" in s and has_field(s["a"], "gap_state", "GapState") and not [e for e in s["a"]["p"] if isinstance(e, dict) and e.get("f") not in ("gap_state",)]:
                v = tb.rvalue(s["rv"])
                marks[(b, i)] = "ngp" if (v[0] == "call" and M.callee_matches(v[1], "next_gap_poll")) else "gap_other"
        for b, c in call_sites(f):
            if mk_place(c["dest"])[1] and has_field(c["dest"], "gap_state", "GapState") and callee_is(c, "next_gap_poll"):
                marks[(b, None)] = "ngp"
            elif any(p[:2] == ("self", "token_ring") for p in ms.call_writes(f, tb, c)):
                marks[(b, None)] = "ring"
        g = GuardAnalysis(f, P, mem_kill=True, marks=marks, iter_marks=("ngp", "ring", "gap_other"))
        for b, c in sites:
            ncall += 1
            bad = []
            for fs in g.at(b):
                gs = fs.get(("discr", ("field", fdlstate.SELF, "gap_state")))
                if gs == ("in", frozenset(["Waiting"])):
                    continue  # nothing will be polled
                if g.count_of(fs, "ngp") != {1} or g.count_of(fs, "ring") != {0} or g.count_of(fs, "gap_other") != {0}:
                    bad.append("next_gap_poll×%s, token-ring writes×%s, other gap_state stores×%s: %s" % (
                        sorted(g.count_of(fs, "ngp")), sorted(g.count_of(fs, "ring")), sorted(g.count_of(fs, "gap_other")), M.fmt_facts(fs)[:200]))
            ctx.ob("a'.provenance", "fresh-gap-address|%s" % f.name, not bad,
                   "a GAP poll can be transmitted for an address that was not just computed by next_gap_poll against the current successor: " + "; ".join(bad[:2]), f.loc(b))
    ctx.anchor("call sites of the GAP poll transmit helper", ncall, 2)
    # claiming resets the marker
    for f in fns:
        claims = [(b, c) for b, c in call_sites(f, lambda c: callee_is(c, "fdl::token_ring::TokenRing::claim_token"))]
        if not claims:
            continue
        tb = TermBuilder(f, P)
        marks = {(b, None): "claim" for b, c in claims}
        for b, i, s in stmts(f):
            if "a" in s and has_field(s["a"], "gap_state", "GapState"):
                v = tb.rvalue(s["rv"])
                if v[0] == "agg" and v[2] == "DoPoll" and (path_str(strip_casts(v[3][0])) or "") == "self.p.address":
                    marks[(b, i)] = "reset"
        g = GuardAnalysis(f, P, marks=marks)
        bad = [M.fmt_facts(fs)[:200] for rb in f.return_blocks for fs in g.at(rb) if g.count_of(fs, "claim") != {0} and 0 in g.count_of(fs, "reset")]
        ctx.ob("a'.provenance", "claim-resets-gap|%s" % f.name, not bad,
               "the token is claimed on a path that does not restart the GAP sweep behind the own address (the post-claim scan would be partial or skipped): " + "; ".join(bad[:2]), f.loc(claims[0][0]))


# ------------------------------------------------------------------------------------------------
def check_typestate(ctx, P):
    ip, inv, muts = fdlstate.station_analysis(P)
    fns = fdl_fns(P)
    nyes = nno = 0
    for f in fns:
        tb = None
        for b, c in call_sites(f, lambda c: callee_is(c, "fdl::active::State::transition_pass_token")):
            tb = tb or TermBuilder(f, P)
            dg = tb.joperand(c["args"][1])
            may_yes = dg[0] == "agg" and dg[2] == "Yes"
            must_yes = may_yes
            if dg[0] != "agg":
                # the argument is a variable: `Yes` on some path class unless every class fixes it to `No`
                gg = GuardAnalysis(f, P)
                vs_all = [fs.get(("discr", strip_refs(dg))) for fs in gg.at(b)]
                may_yes = not vs_all or any(v is None or v != ("in", frozenset(["No"])) for v in vs_all)
                must_yes = bool(vs_all) and all(v == ("in", frozenset(["Yes"])) for v in vs_all)
            if may_yes and not must_yes:
                # GAP maintenance made conditional: the end of the token use must always request it (otherwise a busy station never
                # polls its GAP and new stations are never admitted)
                ctx.ob("c.one-poll", "do-gap-unconditional|%s" % f.name, False,
                       "the pass at the end of the token use requests GAP maintenance only on some paths (DoGap computed from a condition): "
                       "the GAP would not be polled on the others", f.loc(b))
            if may_yes:
                nyes += 1
                S = ip.facts_at(f.name, b)
                st = states_of(S)
                ctx.ob("c.one-poll", "do-gap-yes|%s" % f.name, bool(S) and st <= {"UseToken"},
                       "a pass with GAP maintenance (DoGap::Yes) is requested from state(s) %s: only the end of the token use may do so (one poll per token visit)" % sorted(st), f.loc(b))
            else:
                nno += 1
    ctx.anchor("pass requests with DoGap::Yes", nyes, 1)
    ctx.anchor("pass requests with DoGap::No", nno, 4)
    # in the pass: the poll helper is reached only under do_gap == Yes
    for f in fns:
        if f.kind == "closure":
            continue
        if not any(True for _ in call_sites(f, lambda c: callee_is(c, "fdl::active::State::transition_check_token_pass"))):
            continue
        g = GuardAnalysis(f, P)
        for b, c in call_sites(f, lambda c: callee_is(c, "transmit_gap_poll_if_pending")):
            ok, w = M.all_disj(g.at(b), lambda k: k[0] == "discr" and (path_str(k[1]) or "").endswith("<PassToken>.do_gap"), {"Yes"})
            ctx.ob("c.one-poll", "poll-guarded-by-do-gap", ok, "the GAP poll in the token pass is not guarded by do_gap == Yes: " + w, f.loc(b))
    # after a claim: pass only once the GAP state is Waiting
    for f in fns:
        if not any(True for _ in call_sites(f, lambda c: callee_is(c, "fdl::token_ring::TokenRing::claim_token"))):
            continue
        g = GuardAnalysis(f, P)
        for b, c in call_sites(f, lambda c: callee_is(c, "fdl::active::State::transition_pass_token")):
            ok, w = M.all_disj(g.at(b), lambda k: k == ("discr", ("field", fdlstate.SELF, "gap_state")), {"Waiting"})
            ctx.ob("c.one-poll", "claim-scans-whole-gap", ok, "after claiming the token it is passed on although the GAP scan has not finished: " + w, f.loc(b))


def check_wait_counter(ctx, P):
    # the counter may be stepped by a private helper of the handler (`GapState::increment_wait`): read it in its caller's context
    from analysis.inline import expanded_fns
    fns = expanded_fns(P, fdl_fns(P))
    n = 0
    for f in fns:
        # wherever the wait counter is read or written (the token-pass handler or a helper it was split into)
        has = any("a" in s and mk_place(s["a"])[1] and "rotation_count" in str(s["a"]) for b, i, s in stmts(f)) or \
            any(True for _ in call_sites(f, lambda c: callee_is(c, "next_gap_poll")))
        if not has:
            continue
        g = GuardAnalysis(f, P)
        tb = g.tb
        RC = lambda t: (path_str(strip_casts(t)) or "").endswith("<Waiting>.rotation_count")
        GW = lambda t: (path_str(strip_casts(t)) or "") == "self.p.gap_wait_rotations"
        for b, c in call_sites(f, lambda c: callee_is(c, "next_gap_poll")):
            a = strip_casts(tb.joperand(c["args"][1]))
            if is_own(a):
                n += 1
                ok, w = M.all_disj(g.at(b), M.key_cmp("lt", GW, RC), {True})
                ctx.ob("d.wait", "restart-after-wait", ok, "a new GAP sweep is started without rotation_count > gap_wait_rotations: " + w, f.loc(b))
        for b, i, s in stmts(f):
            if "a" in s and mk_place(s["a"])[1] and RC(tb.place(mk_place(s["a"]))):
                v = simplify(tb.rvalue(s["rv"]))
                n += 1
                okv = v[0] == "bin" and v[1] == "Add" and ("const", 1) in (v[2], v[3]) and any(RC(x) for x in (v[2], v[3]))
                ok, w = M.all_disj(g.at(b, i), M.key_cmp("lt", GW, RC), {False})
                ctx.ob("d.wait", "count-rotation", okv and ok, "the wait counter must advance by exactly one per visit while waiting, found %s: %s" % (show(v), w), f.loc(b, i))
    ctx.anchor("wait-counter sites in the token pass", n, 2)


def check_reply_eval(ctx, P):
    n = 0
    for f in fdl_fns(P):
        for b, c in call_sites(f, lambda c: callee_is(c, "fdl::token_ring::TokenRing::set_next_station")):
            n += 1
            g = GuardAnalysis(f, P)
            S = g.at(b)
            tb = g.tb
            arg = strip_casts(strip_refs(tb.joperand(c["args"][1])))
            PA = lambda t: strip_casts(strip_refs(t)) == arg
            need = [("reply is a data telegram", M.key_discr("telegram"), {"Data"}),
                    ("from the polled address", M.key_cmp("eq", lambda t: (path_str(t) or "").endswith(".h.sa"), PA), {True}),
                    ("to this station", M.key_cmp("eq", lambda t: (path_str(t) or "").endswith(".h.da"), lambda t: (path_str(t) or "").endswith("p.address")), {True}),
                    ("function code is a response", M.key_discr_where(lambda t: (path_str(t) or "").endswith(".h.fc")), {"Response"}),
                    ("status Ok", M.key_discr_where(lambda t: (path_str(t) or "").endswith("<Response>.status")), {"Ok"}),
                    ("station type ready / in ring", M.key_discr_where(lambda t: (path_str(t) or "").endswith("<Response>.state")), {"MasterWithoutToken", "MasterInRing"})]
            for what, kp, allowed in need:
                ok, w = M.all_disj(S, kp, allowed)
                ctx.ob("e.reply", "successor|" + what, ok, "a polled station becomes the successor without the guard `%s`: %s" % (what, w), f.loc(b))
            # ... and the other inclusion: *both* kinds of ready master become the successor (a station that was dropped from this
            # station's ring view while it stayed online answers `master in ring`; ignoring that reply excludes it for ever)
            seen = set()
            for fs in S:
                for k, vs in fs.items():
                    if need[5][1](k) and vs[0] == "in":
                        seen |= set(vs[1])
            ctx.ob("e.reply", "successor|both-ready-states", seen >= {"MasterWithoutToken", "MasterInRing"},
                   "a polled station that reports %s with status Ok does not become the successor: a live master that was dropped from the ring "
                   "view is never re-admitted" % sorted({"MasterWithoutToken", "MasterInRing"} - seen), f.loc(b))
    ctx.anchor("set_next_station call sites", n, 1)


def check_truthful(ctx, P):
    fns = fdl_fns(P)
    nresp = 0
    for f in fns:
        if f.kind == "closure":
            continue
        tx_sites = []
        for cf in P.closures_of(f):
            for b, c in call_sites(cf, lambda c: callee_is(c, "send_fdl_status_response")):
                tx_sites.append((cf, b, c))
        if not tx_sites:
            continue
        ctx.analysed_fns.add(f.name)
        g = GuardAnalysis(f, P)
        ip, inv, muts = fdlstate.station_analysis(P)
        for cf, cb, cc in tx_sites:
            nresp += 1
            up = upvar_terms(P, cf)
            ctb = TermBuilder(cf, P)
            def res(t):
                t = strip_refs(strip_casts(t))
                return up.get(t[1], t) if t[0] == "upvar" else t
            da, sa, state, status = [res(ctb.joperand(a)) for a in cc["args"][1:5]]
            ok_da = "status_request" in (path_str(da) or "") and "<Some>" in (path_str(da) or "")
            ok_sa = (path_str(sa) or "").endswith("p.address")
            ctx.ob("f.truthful", "reply-addressing|%s" % f.name, ok_da and ok_sa and status[0] == "agg" and status[2] == "Ok",
                   "status reply must go to the recorded requester from this station with status Ok: da=%s sa=%s status=%s" % (show(da), show(sa), show(status)), cf.loc(cb))
            # the site in the parent where the closure is handed to the PHY
            sites = [(b, c) for b, c in call_sites(f, lambda c: callee_is(c, "phy::ProfibusPhy::transmit_telegram"))
                     if M.mentions(g.tb.joperand(c["args"][-1]), lambda t: t[0] == "agg" and t[1] == "closure:" + cf.name)]
            for b, c in sites:
                st = states_of(ip.facts_at(f.name, b))
                S = g.at(b)
                if state[0] == "agg":  # constant station type
                    val = state[2]
                    ok = (val == "MasterInRing" and st <= {"ActiveIdle"})
                    ctx.ob("f.truthful", "station-type|%s" % f.name, ok, "constant status reply %s sent in state(s) %s" % (val, sorted(st)), f.loc(b))
                else:
                    bad = []
                    for fs in S:
                        sv = fs.get(("discr", state))
                        ready = [vs for k, vs in fs.items() if strip_refs(k)[0] == "call" and M.callee_matches(strip_refs(k)[1], "ready_for_ring")]
                        from_prev = [vs for k, vs in fs.items() if k[0] == "cmp" and k[1] == "eq" and "previous_station" in show(k) and "status_request" in show(k)]
                        is_ready = bool(ready) and ready[0] == ("in", frozenset([True])) and bool(from_prev) and from_prev[0] == ("in", frozenset([True]))
                        want = "MasterWithoutToken" if is_ready else "MasterNotReady"
                        if sv != ("in", frozenset([want])):
                            bad.append("reports %s where %s is required: %s" % (sv, want, M.fmt_facts(fs)[:250]))
                    ctx.ob("f.truthful", "station-type|%s" % f.name, not bad and st <= {"ListenToken"},
                           "status reply while listening must be 'ready' iff (LAS valid ∧ requester is the predecessor), else 'not ready' (states %s): %s" % (sorted(st), "; ".join(bad[:2])), f.loc(b))
    ctx.anchor("FDL status response senders", nresp, 2)
    # recording a request
    nrec = 0
    for f in fns:
        tb = None
        for b, i, s in stmts(f):
            if "a" in s and mk_place(s["a"])[1]:
                tb = tb or TermBuilder(f, P)
                pt = path_str(tb.place(mk_place(s["a"]))) or ""
                if pt.endswith(".status_request"):
                    v = tb.rvalue(s["rv"])
                    if v[0] == "agg" and v[2] == "Some":
                        nrec += 1
                        g = GuardAnalysis(f, P)
                        S = g.at(b, i)
                        need = [("is an FDL status request", lambda k: k[0] == "discr" and M.t_call("is_fdl_status_request")(strip_refs(k[1])), {"Some"}),
                                ("addressed to this station", M.key_cmp("eq", lambda t: (path_str(t) or "").endswith(".h.da"), lambda t: (path_str(t) or "").endswith("p.address")), {True}),
                                ("last buffered telegram", lambda k: (path_str(k) or "") == "is_last_telegram", {True})]
                        miss = [what for what, kp, al in need if not M.all_disj(S, kp, al)[0]]
                        ok_v = (path_str(strip_casts(v[3][0])) or "").endswith(".h.sa")
                        ctx.ob("f.truthful", "record-request|%s" % f.name, not miss and ok_v,
                               "a status request is recorded for answering without: %s (recorded source %s)" % (", ".join(miss), show(v)), f.loc(b, i))
    ctx.anchor("sites recording a status request", nrec, 2)
    # LAS validity typestate
    w = ctx.need_fn(CR, "fdl::token_ring::TokenRing::witness_token_pass")
    if w is not None:
        g = GuardAnalysis(w, P)
        tb = g.tb
        nvalid = 0
        for b, i, s in stmts(w):
            if "a" in s and has_field(s["a"], "las_state", "LasState"):
                v = tb.rvalue(s["rv"])
                if v[0] == "agg" and v[2] == "Valid":
                    nvalid += 1
                    S = g.at(b, i)
                    ok1, w1 = M.all_disj(S, M.key_discr("self.las_state"), {"Verification"})
                    ok2, w2 = M.all_disj(S, lambda k: strip_refs(k)[0] == "call" and M.callee_matches(strip_refs(k)[1], "verify_las_from_token_pass"), {True})
                    ok3, w3 = M.all_disj(S, M.key_cmp("lt", M.t_path("sa"), M.t_path("da")), {False})
                    ctx.ob("f.truthful", "las-valid-edge", ok1 and ok2 and ok3,
                           "the LAS is declared valid without (Verification ∧ pass verified ∧ wrap-around da <= sa): %s %s %s" % (w1, w2, w3), w.loc(b, i))
        ctx.anchor("LAS -> Valid edges in witness_token_pass", nvalid, 1)
    v = ctx.need_fn(CR, "fdl::token_ring::TokenRing::verify_las_from_token_pass")
    if v is not None:
        g = GuardAnalysis(v, P)
        tb = g.tb
        ntrue = 0
        r0 = tb.local_leaf(0)

        def bit(name):
            return lambda k: "index(self.active_stations" in show(k) and show(k).rstrip(")").endswith("(" + name) or (
                "active_stations" in show(k) and ("from(%s)" % name) in show(k) and "Range" not in show(k))
        # every path class on which the result can be `true` (a `return true`, or a boolean expression evaluating to true)
        for rb in v.return_blocks:
            S = frozenset(fs for fs in g.at(rb) if fs.get(r0) != ("in", frozenset([False])))
            if not S:
                continue
            ntrue += len(S)
            ok1, w1 = M.all_disj(S, bit("sa"), {True})
            ok2, w2 = M.all_disj(S, bit("da"), {True})
            def gaps_clear(fs):
                anys = [(show(k), vs) for k, vs in fs.items() if "any(" in show(k)]
                if not anys or any(vs != ("in", frozenset([False])) for _, vs in anys):
                    return False
                fwd = [vs for k, vs in fs.items() if k[0] == "cmp" and k[1] == "lt" and path_str(k[2]) == "sa" and path_str(k[3]) == "da"]
                if fwd and fwd[0] == ("in", frozenset([True])):
                    return any("Range::Range(" in t for t, _ in anys)  # the stations strictly between sa and da
                # wrap-around: above sa and below da
                return any("RangeFrom" in t for t, _ in anys) and any("RangeTo" in t for t, _ in anys)
            between = all(gaps_clear(fs) for fs in S)
            ctx.ob("f.truthful", "verify-pass", ok1 and ok2 and between,
                   "a token pass verifies the LAS without requiring source active, destination active and no active station in between: %s %s" % (w1, w2), v.loc(rb))
        ctx.anchor("`true` results of verify_las_from_token_pass", ntrue, 1)
    rf = ctx.need_fn(CR, "fdl::token_ring::TokenRing::ready_for_ring")
    if rf is not None:
        tb = TermBuilder(rf, P)
        rets = [show(t) for b, i, t in return_terms(rf, tb)]
        ctx.ob("f.truthful", "ready-is-valid", any("las_state" in r for r in rets), "ready_for_ring must be derived from the LAS validity state, found %s" % rets, rf.loc(0))


if __name__ == "__main__":
    rule.run(PID, check, level="proof",
             explanation="Post-condition of next_gap_poll proved by the zone domain for all (current, TS, NS, HSA) under the listed hypotheses "
                         "(every DoPoll address strictly inside the cyclic GAP, != TS, <= HSA-1; no overflow); provenance of polled addresses, "
                         "one-poll-per-visit typestate, wait counter, reply evaluation and truthful-reply guards by must-guard / typestate analysis.",
             trusted_base=["rustc MIR (nightly) as extracted by engines/mirfacts", "analysis/numdom.py transfer functions",
                           "hypotheses: address < highest_station_address <= 126 (ParametersBuilder)"],
             thorough_configs=("no_default", "alloc"))
